"""Behaviour of `render()` by constant propagation / abstract interpretation over scenarios (C01 S1-S3 S6, C06 W5, C07 F3 F4).

`render()` is interpreted end to end — its own vertex stage, triangle assembly, the real clipper, the optional depth sort, the
per-vertex perspective division and viewport transform, the cull decision and the statistics — on fixed scenes with CONCRETE
clip-space positions and SYMBOLIC attributes a0..a(n-1), once per (face_cull, depth_sort) setting. Uninterpreted: the vertex shader
(returns the scene's position and attribute for vertex i), `tri_fill` (records the triangle it is handed and calls its scanline
callback twice) and `Target::rasterize` (records the call, returns Throughput{i: 5, o: 3}).

The main scene: nine triangles over twenty-four vertices with distinct summed depths, both windings and all vertex rotations, one vertex
shared between triangles, one triangle wholly outside the frustum, one crossing the x = w plane, one with a vertex behind the eye, one of
sub-pixel size. Four small side scenes (two settings each) cover the shapes of input the main scene cannot: NOTHING survives clipping
(triangles outside one plane, and one that no single plane rejects but that clips away to nothing), NO input at all, consecutive triangles whose first vertices are DIFFERENT vertices at the same position (a seam), and a batch in which
such a clipped-away triangle is FOLLOWED by partly visible ones (scratch state carried from one triangle to the next shows there).
What is read off afterwards: which triangles reached
tri_fill, in which order, with which screen positions and attributes; the number of rasterize calls; the context's statistics.

The specification (independent of how render() is written: helpers inlined or extracted, match / if-let / bool flags, ...):
  pipeline   every vertex is shaded exactly once, in order; a visible triangle reaches tri_fill with, per vertex,
             position = to_screen * (x/w, y/w, 1/w) and attribute = a/w (the SAME w); a triangle outside the frustum never does;
             whatever reaches tri_fill from a partly visible triangle lies inside the viewport
  order      depth_sort None: submission order; FrontToBack: ascending summed clip z; BackToFront: descending
  culling    None: both windings drawn; Back: exactly the triangles with (p1-p0) x (p2-p0) <= 0 on screen; Front: the others
             (the convention of the pinned tree's `is_backface`, taken as the reference)
  statistics calls + 1, prims.i + #triangles, verts.i + #vertices, prims.o + 1 and verts.o + 3 per triangle that reaches tri_fill,
             frags += every rasterize result, merged into ctx.stats once
"""
from . import absint as A, symalg as S, constfold as CF

RC = "retrofire_core::"
VEC = RC + "math::vec::Vector"
MAT = RC + "math::mat::Matrix"
NONE = A.NONE

# clip-space (x, y, z, w) per vertex
POS = [
    (-0.5, -0.5, 0.30, 1.0), (0.5, -0.5, 0.30, 1.0), (0.0, 0.5, 0.30, 1.0),        # T0: z sum 0.90
    (-0.8, -0.8, -0.30, 2.0), (0.0, 1.2, -0.20, 2.0), (0.8, -0.8, -0.25, 2.0),     # T1: other winding, w = 2, NEGATIVE clip z (sum -0.75)
    (0.6, 0.6, 1.50, 4.0), (-1.0, 0.2, 1.20, 4.0),                                 # T2 = (2, 6, 7): shares vertex 2, z sum 3.0
    (3.0, 0.0, 0.5, 1.0), (4.0, 0.0, 0.5, 1.0), (3.0, 1.0, 0.5, 1.0),              # T3: wholly beyond x = w
    (1.8, 0.1, 0.4, 1.0),                                                          # T4 = (0, 11, 2): crosses x = w
    (-0.5, -0.5, 0.31, 1.0), (0.5, -0.5, 0.31, 1.0), (0.0, 0.5, 0.31, 1.0),        # T5 = (13, 14, 12): T0's shape, rotated vertex order
    (-0.5, -0.5, 0.32, 1.0), (0.5, -0.5, 0.32, 1.0), (0.0, 0.5, 0.32, 1.0),        # T6 = (15, 17, 16): T0's shape, reversed vertex order
    (0.204, -0.204, 0.35, 1.0), (0.218, -0.206, 0.35, 1.0), (0.208, -0.218, 0.35, 1.0),   # T7: about 0.2 square pixels on screen
    (-0.3, -0.2, 0.3, 1.0), (0.4, -0.3, 0.3, 1.0), (0.2, 0.1, -1.0, -0.5),         # T8: one vertex behind the eye (w < 0): crosses the near plane
]
TRIS = [(0, 1, 2), (3, 4, 5), (2, 6, 7), (8, 9, 10), (0, 11, 2), (13, 14, 12), (15, 17, 16), (18, 19, 20), (21, 22, 23)]
HIDDEN = {3}
CLIPPED = {4, 8}
_CORNER = [(3.0, 0.0, 0.2, 1.0), (0.0, 3.0, 0.2, 1.0), (3.0, 3.0, 0.2, 1.0)]      # outside x = w resp. y = w vertex by vertex: no single plane rejects it, clipping leaves nothing
_OUT_X = [(3.0, 0.0, 0.5, 1.0), (4.0, 0.0, 0.5, 1.0), (3.0, 1.0, 0.5, 1.0)]
_OUT_Y = [(0.0, -3.0, 0.5, 1.0), (1.0, -4.0, 0.5, 1.0), (0.0, -5.0, 0.5, 1.0)]
_CROSS_X = [(-0.5, -0.5, 0.30, 1.0), (1.8, 0.1, 0.4, 1.0), (0.0, 0.5, 0.30, 1.0)]
_CROSS_Y = [(-0.4, 0.2, 0.6, 1.0), (0.4, 0.2, 0.6, 1.0), (0.0, 1.7, 0.6, 1.0)]
_INSIDE = [(-0.2, -0.6, 0.7, 1.0), (0.3, -0.6, 0.7, 1.0), (0.0, -0.1, 0.7, 1.0)]
# two consecutive triangles whose FIRST vertices are different vertices at the same clip-space position (a hard edge, a UV seam: per-face
# vertices): whatever is remembered from one triangle to the next must not be keyed by position alone. w = 2 there, so a/w shows.
_SEAM = [(0.1, 0.1, 0.4, 2.0), (0.5, -0.5, 0.30, 1.0), (0.0, 0.5, 0.30, 1.0),
         (0.1, 0.1, 0.4, 2.0), (-0.6, -0.4, 0.5, 1.0), (-0.2, 0.6, 0.5, 1.0),
         (0.5, -0.5, 0.30, 1.0), (0.1, 0.1, 0.4, 2.0), (0.7, 0.6, 0.2, 1.0)]      # ... and once more in SECOND position, after a first-position twin
_tri3 = lambda n: [(3 * k, 3 * k + 1, 3 * k + 2) for k in range(n)]      # noqa: E731
_NONE_ONLY = [("None", "None"), ("Back", "FrontToBack")]
SCENES = [
    dict(name="main", POS=POS, TRIS=TRIS, HIDDEN=HIDDEN, CLIPPED=CLIPPED, settings=None),
    dict(name="nothing visible", POS=_OUT_X + _CORNER + _OUT_Y, TRIS=_tri3(3), HIDDEN={0, 1, 2}, CLIPPED=set(), settings=_NONE_ONLY),
    dict(name="no input", POS=[], TRIS=[], HIDDEN=set(), CLIPPED=set(), settings=_NONE_ONLY),
    dict(name="coincident vertices of consecutive triangles", POS=_SEAM, TRIS=_tri3(3), HIDDEN=set(), CLIPPED=set(), settings=_NONE_ONLY),
    dict(name="clipped-away triangle first", POS=_CORNER + _CROSS_X + _INSIDE + _CROSS_Y, TRIS=_tri3(4), HIDDEN={0}, CLIPPED={1, 3}, settings=_NONE_ONLY),
]


def _use(scene):
    """the scene the helpers below (screen, is_back, zsum, which_triangle, run) refer to"""
    global POS, TRIS, HIDDEN, CLIPPED
    POS, TRIS, HIDDEN, CLIPPED = scene["POS"], scene["TRIS"], scene["HIDDEN"], scene["CLIPPED"]
# to_screen: x' = 50 x + 50, y' = -40 y + 45 (y points down on screen: the winding seen on screen is the mirror image of the NDC one)
MPOINT = {"m00": 50.0, "m03": 50.0, "m11": -40.0, "m13": 45.0, "m22": 1.0, "m33": 1.0}
for _r in range(4):
    for _c in range(4):
        MPOINT.setdefault("m%d%d" % (_r, _c), 0.0)


def fv(x):
    return ("f", float(x))


def _adt(prog, path, fields):
    v = prog.adts[path]["variants"][0]
    missing = [f for f in v["fields"] if f not in fields]
    if missing:
        raise A.Undecided("%s has fields the scenario does not provide: %s" % (path, missing))
    return ("adt", path, v["name"], [fields[f] for f in v["fields"]])


def screen(i):
    x, y, _z, w = POS[i]
    return (MPOINT["m00"] * (x / w) + MPOINT["m03"], MPOINT["m11"] * (y / w) + MPOINT["m13"], 1.0 / w)


def is_back(t):
    """back-facing = positive (p1-p0) x (p2-p0) on screen (the pinned tree's convention); for a triangle with a vertex behind the eye
    the winding of its visible part: sign of the homogeneous determinant |x y w| times the orientation of the viewport map"""
    (x0, y0, _a, w0), (x1, y1, _b, w1), (x2, y2, _c, w2) = (POS[i] for i in TRIS[t])
    det = x0 * (y1 * w2 - y2 * w1) - y0 * (x1 * w2 - x2 * w1) + w0 * (x1 * y2 - x2 * y1)
    return det * MPOINT["m00"] * MPOINT["m11"] > 0.0


def zsum(t):
    return sum(POS[i][2] for i in TRIS[t])


def point_oracle(op, a, b):
    """comparisons are decided at the reference viewport matrix (the matrix entries stay symbolic in the values)"""
    try:
        x, y = S.num_eval(a, MPOINT), S.num_eval(b, MPOINT)
    except Exception:
        return None
    return {"Lt": x < y, "Le": x <= y, "Gt": x > y, "Ge": x >= y, "Eq": x == y, "Ne": x != y}.get(op)


def m_sort(by_key, cached=False):
    """slice::sort_by / sort_unstable_by / sort_by_key / ...: insertion sort driven by the code's own comparator or key function (the scene has
    no ties, so stable and unstable sorts agree)"""
    def f(it, args, callee, depth):
        r = args[0]
        while isinstance(r, tuple) and r[0] == "ref" and isinstance(it.load_ref(r), tuple) and it.load_ref(r)[0] == "ref":
            r = it.load_ref(r)
        arr = it.load_ref(r)
        if not (isinstance(arr, tuple) and arr[0] == "array"):
            raise A.Undecided("sort of %r" % (str(arr)[:60],))
        items = list(arr[1])

        def cell(v):
            c = A.Frame(None)
            c.locals[0] = v
            return ("ref", c, 0, [])

        def key_cmp(a, b):
            """-1 / 0 / 1 for two sort keys: integers, float constants, tuples (lexicographic), cmp::Reverse"""
            a, b = A.deref_all(it, a), A.deref_all(it, b)
            if isinstance(a, int) and isinstance(b, int):
                return (a > b) - (a < b)
            if isinstance(a, tuple) and isinstance(b, tuple) and a[0] == "f" and b[0] == "f":
                return (a[1] > b[1]) - (a[1] < b[1])
            if isinstance(a, tuple) and isinstance(b, tuple) and a[0] == "adt" and b[0] == "adt" and a[1].endswith("cmp::Reverse"):
                return -key_cmp(a[3][0], b[3][0])
            if isinstance(a, tuple) and isinstance(b, tuple) and a[0] == b[0] and a[0] in ("tuple", "array"):
                for x_, y_ in zip(a[1], b[1]):
                    c_ = key_cmp(x_, y_)
                    if c_:
                        return c_
                return 0
            if isinstance(a, tuple) and isinstance(b, tuple) and a[0] == "adt" and b[0] == "adt" and a[1] == b[1] and len(a[3]) == 1:
                return key_cmp(a[3][0], b[3][0])          # a newtype around an ordered key
            raise A.Undecided("sort keys %r / %r cannot be ordered" % (str(a)[:40], str(b)[:40]))

        def less(x, y):
            if by_key:
                kx, ky = it.invoke(args[1], [cell(x)], depth), it.invoke(args[1], [cell(y)], depth)
                return key_cmp(kx, ky) < 0
            else:
                o = A.deref_all(it, it.invoke(args[1], [cell(x), cell(y)], depth))
                if not (isinstance(o, tuple) and o[0] == "adt" and o[2] in ("Less", "Equal", "Greater")):
                    raise A.Undecided("sort comparator returned %r" % (str(o)[:60],))
                return o[2] == "Less"
        out = []
        for x in items:
            pos = len(out)
            for j, y in enumerate(out):
                if less(x, y):
                    pos = j
                    break
            out.insert(pos, x)
        it._store(r[1], r[2], list(r[3]), ("array", out))
        return ("tuple", [])
    return f


def run(prog, face_cull, depth_sort):
    """-> dict(fills=[[(pos floats, attrib value) x3]..], rasterize=n, shaded=[i..], stats=Stats value, panic=None|str)"""
    n = len(POS)
    tris = ("array", [_adt(prog, RC + "geom::Tri", {"0": ("array", list(t))}) for t in TRIS])
    verts = ("array", [S.sym("vtx%d" % i) for i in range(n)])
    rec = {"fills": [], "rasterize": 0, "shaded": [], "panic": None}

    def m_shade_vertex(it, args, c, d):
        v = A.deref_all(it, args[1])
        if not (isinstance(v, tuple) and v[0] == "sym" and v[1].startswith("vtx")):
            raise A.Undecided("shade_vertex on something that is not one of the scene's vertices (%r)" % (str(v)[:60],))
        i = int(v[1][3:])
        rec["shaded"].append(i)
        return _adt(prog, RC + "geom::Vertex", {"pos": ("adt", VEC, "Vector", [("array", [fv(x) for x in POS[i]]), ("tuple", [])]), "attrib": S.sym("a%d" % i)})

    def m_tri_fill(it, args, c, d):
        vs = A.deref_all(it, args[0])
        tri = []
        vf = prog.adts[RC + "geom::Vertex"]["variants"][0]["fields"]
        for v in vs[1]:
            v = A.deref_all(it, v)
            pos = [A.deref_all(it, x) for x in S.components(it, v[3][vf.index("pos")])]
            tri.append((pos, A.deref_all(it, v[3][vf.index("attrib")])))
        rec["fills"].append(tri)
        for k in range(2):
            it.invoke(args[1], [("sym", "scanline%d" % k)], d)
        return ("tuple", [])

    def m_rasterize(it, args, c, d):
        rec["rasterize"] += 1
        return _adt(prog, RC + "render::stats::Throughput", {"i": 5, "o": 3})

    def opaque(name):
        return lambda it, args, c, d: ("sym", name)

    def m_borrow_mut(it, args, c, d):
        return args[0]          # the RefCell is modelled by its content

    def m_dur_add(it, args, c, d):
        r = args[0]
        if isinstance(r, tuple) and r[0] == "ref":
            it._store(r[1], r[2], list(r[3]), ("sym", "TIME'"))
        return ("tuple", [])
    tp = lambda p: _adt(prog, RC + "render::stats::Throughput", {"i": S.sym(p + "_i"), "o": S.sym(p + "_o")})  # noqa: E731
    sfields = {"time": ("sym", "TIME"), "calls": S.sym("calls"), "frames": S.sym("frames"), "objs": tp("objs"), "prims": tp("prims"),
               "verts": tp("verts"), "frags": tp("frags"), "start": NONE}
    names = prog.adts[RC + "render::stats::Stats"]["variants"][0]["fields"]
    stats = _adt(prog, RC + "render::stats::Stats", {k: v for k, v in sfields.items() if k in names})
    ctx = _adt(prog, RC + "render::ctx::Context", {"color_clear": NONE, "depth_clear": NONE, "face_cull": face_cull, "depth_sort": depth_sort, "depth_test": NONE,
                                                   "color_write": 1, "depth_write": 1, "stats": stats})
    ctxcell = A.Frame(None)
    ctxcell.locals[0] = ctx
    to_screen = ("adt", MAT, "Matrix", [("array", [("array", [S.sym("m%d%d" % (r, c)) for c in range(4)]) for r in range(4)]), ("tuple", [])])
    models = dict(CF.MODELS)
    models.update({"VertexShader::shade_vertex": m_shade_vertex, "raster::tri_fill": m_tri_fill, "Target::rasterize": m_rasterize,
                   "Instant::now": opaque("NOW"), "Instant::elapsed": opaque("ELAPSED"), "core::time::Duration as core::default::Default>::default": opaque("DUR0"),
                   "core::time::Duration as core::ops::arith::AddAssign>::add_assign": m_dur_add,
                   "core::cell::RefCell::<T>::borrow_mut": m_borrow_mut, "core::cell::RefCell::<T>::borrow": m_borrow_mut,
                   "DerefMut>::deref_mut": CF.m_deref, "Deref>::deref": CF.m_deref,
                   "$slice::<impl [T]>::sort_by": m_sort(False), "$slice::<impl [T]>::sort_unstable_by": m_sort(False),
                   "$slice::<impl [T]>::sort_by_key": m_sort(True), "$slice::<impl [T]>::sort_unstable_by_key": m_sort(True),
                   "$slice::<impl [T]>::sort_by_cached_key": m_sort(True)})
    it = S.interp(prog, models=models, oracle=point_oracle)
    it.cover = {}
    tcell, vcell = A.Frame(None), A.Frame(None)
    tcell.locals[0], vcell.locals[0] = tris, verts
    try:
        it.call_body(prog.body(RC + "render::render"), [("ref", tcell, 0, []), ("ref", vcell, 0, []), ("sym", "SHADER"), ("sym", "UNI"), to_screen,
                                                        ("sym", "TARGET"), ("ref", ctxcell, 0, [])], env={})
    except A.Panic as e:
        rec["panic"] = str(e)
    cf = prog.adts[RC + "render::ctx::Context"]["variants"][0]["fields"]
    rec["stats"] = A.deref_all(it, ctxcell.locals[0][3][cf.index("stats")])
    rec["stat_names"] = names
    rec["trace"] = sorted(set(it.trace))
    rec["cover"] = it.cover
    return rec


def attr_syms(v):
    out = set()

    def walk(x):
        if isinstance(x, tuple):
            if x and x[0] == "sym" and isinstance(x[1], str) and x[1].startswith("a") and x[1][1:].isdigit():
                out.add(int(x[1][1:]))
            for y in x[1:]:
                walk(y)
        elif isinstance(x, list):
            for y in x:
                walk(y)
    walk(v)
    return out


def which_triangle(tri):
    """the scene triangle a tri_fill argument stems from, by the attribute symbols it carries (None if they are mixed / foreign)"""
    owners = set()
    for _pos, att in tri:
        syms = set()

        def walk(v):
            if isinstance(v, tuple):
                if v[0] == "sym" and v[1].startswith("a") and v[1][1:].isdigit():
                    syms.add(int(v[1][1:]))
                for x in v[1:]:
                    walk(x)
            elif isinstance(v, list):
                for x in v:
                    walk(x)
        walk(att)
        cand = {t for t, vs in enumerate(TRIS) if syms and syms <= set(vs)}
        owners.add(frozenset(cand))
    common_ = set.intersection(*[set(o) for o in owners]) if owners else set()
    return common_


def setting_values(prog):
    fc = lambda n: A.some(("adt", RC + "render::ctx::FaceCull", n, []))       # noqa: E731
    ds = lambda n: A.some(("adt", RC + "render::ctx::DepthSort", n, []))      # noqa: E731
    return {"cull": [("None", NONE), ("Back", fc("Back")), ("Front", fc("Front"))],
            "sort": [("None", NONE), ("FrontToBack", ds("FrontToBack")), ("BackToFront", ds("BackToFront"))]}


def close(a, b, tol=1e-4):
    return abs(a - b) <= tol * max(1.0, abs(a), abs(b))


def check(prog):
    """-> (n_runs, findings [(clause, key, message)]); clauses: pipeline, order, cull, stats. Cached per program (C01, C06 and C07 share it)."""
    c = prog.__dict__.get("_render_sem")
    if c is None:
        try:
            c = ("ok", _check(prog))
        except A.Undecided as e:
            c = ("undecided", "%s%s" % (e, ("; in " + " < ".join(x for x in getattr(e, "stack", []) if not x.startswith("  "))[:300]) if getattr(e, "stack", None) else ""))
        prog.__dict__["_render_sem"] = c
    if c[0] == "undecided":
        raise A.Undecided(c[1])
    return c[1]


def _check(prog):
    sv = setting_values(prog)
    findings, seen = [], set()

    def add(clause, key, msg):
        if (clause, key) not in seen:
            seen.add((clause, key))
            findings.append((clause, key, msg))
    runs = 0
    cover = {}
    try:
        for scene in SCENES:
            _use(scene)
            runs += _check_scene(prog, scene, sv, add, cover)
    finally:
        _use(SCENES[0])
    prog.__dict__["_render_sem_cover"] = path_coverage(prog, cover)
    return runs, findings


def path_coverage(prog, cover):
    """which blocks of render() (its closures included) and of the batch clipper no scene executed. Counted are the blocks that lie on some
    path from the entry to a return (panic-only blocks and unwind cleanup are not paths a scene is meant to take).
    -> [(body path, reached, total, [source positions of unreached blocks])]"""
    out = []
    for path, body in sorted(prog.bodies.items()):
        if not (path == RC + "render::render" or path.startswith(RC + "render::render::{closure") or
                (path.startswith(RC + "render::clip::") or "render::clip::Clip>::clip" in path) and path in cover):
            continue
        fwd = body.reachable(0, unwind=False)
        rets = {i for i in fwd if body.blocks[i]["term"]["k"] == "Return"}
        preds = {}
        for i in fwd:
            for t in body.succs(i, unwind=False):
                preds.setdefault(t, []).append(i)
        can_ret, stack = set(rets), list(rets)
        while stack:
            for p_ in preds.get(stack.pop(), []):
                if p_ not in can_ret:
                    can_ret.add(p_)
                    stack.append(p_)
        universe = fwd & can_ret
        got = cover.get(path, set()) & universe
        miss = sorted(universe - got)
        out.append((path, len(got), len(universe), sorted({body.where(i, None) for i in miss})))
    return out


def _check_scene(prog, scene, sv, add, cover):
    runs = 0
    for cname, cull in sv["cull"]:
        for sname, srt in sv["sort"]:
            if scene["settings"] is not None and (cname, sname) not in scene["settings"]:
                continue
            tag = "face_cull=%s, depth_sort=%s" % (cname, sname)
            if scene["name"] != "main":
                tag += ", scene: " + scene["name"]
            rec = run(prog, cull, srt)
            runs += 1
            for p_, bs_ in rec["cover"].items():
                cover.setdefault(p_, set()).update(bs_)
            if rec["panic"]:
                add("pipeline", "panic", "render() panics on the reference scene (%s): %s" % (tag, rec["panic"][:100]))
                continue
            # ---- pipeline
            if rec["shaded"] != list(range(len(POS))):
                add("pipeline", "vertex-stage", "the vertex shader is not applied to every vertex exactly once in order (shaded: %s; %s)" % (rec["shaded"], tag))
            drawn = []
            for tri in rec["fills"]:
                try:
                    num = [[S.num_eval(c, MPOINT) for c in p] for p, _a in tri]
                except S.NotNumeric as e:
                    raise A.Undecided("a position handed to tri_fill is not a function of the scene and the viewport matrix (%s)" % e)
                own = which_triangle(tri)
                # identical shapes (T0 / T5 / T6) and shared vertices are told apart by the attribute symbols
                if len(own) != 1:
                    add("pipeline", "assembly", "tri_fill receives a triangle that is not one of the scene's (its vertices carry attributes of %s; %s)" % (sorted(own) or "different triangles", tag))
                    continue
                t = next(iter(own))
                drawn.append(t)
                if t in HIDDEN:
                    add("pipeline", "clip-bypassed", "a triangle wholly outside the frustum reaches tri_fill: rasterisation does not go through the clipper (%s)" % tag)
                    continue
                if t in CLIPPED:
                    xs_ = sorted((MPOINT["m03"] - abs(MPOINT["m00"]), MPOINT["m03"] + abs(MPOINT["m00"])))
                    ys_ = sorted((MPOINT["m13"] - abs(MPOINT["m11"]), MPOINT["m13"] + abs(MPOINT["m11"])))
                    for p in num:
                        if not (xs_[0] - 1e-3 <= p[0] <= xs_[1] + 1e-3 and ys_[0] - 1e-3 <= p[1] <= ys_[1] + 1e-3):
                            add("pipeline", "clip-bypassed", "a vertex of a partly visible triangle reaches tri_fill outside the viewport (%.2f, %.2f): it was not clipped (%s)" % (p[0], p[1], tag))
                    continue
                # each vertex of an unclipped triangle: position = M . (x/w, y/w, 1/w, 1) with M symbolic, attribute = a / w; any vertex order of
                # the same triangle is fine for the pipeline clause (the winding is the culling clause's business)
                for (p, att), pn in zip(tri, num):
                    cands = [i for i in TRIS[t] if close(pn[0], screen(i)[0]) and close(pn[1], screen(i)[1]) and close(pn[2], screen(i)[2])]
                    syms = attr_syms(att)
                    i = next((j for j in TRIS[t] if syms == {j}), None)
                    if i is None or i not in cands:
                        add("pipeline", "position", "a vertex carrying attribute %s reaches tri_fill at (%.3f, %.3f, %.4f); vertex %s belongs at to_screen * (x/w, y/w, 1/w) = %s (%s)"
                            % (sorted(syms), pn[0], pn[1], pn[2], i, "(%.3f, %.3f, %.4f)" % screen(i) if i is not None else "?", tag))
                        continue
                    x, y, _z, w = POS[i]
                    ok_pos = len(p) == 3
                    for r_ in range(3):
                        if not ok_pos:
                            break
                        try:
                            got = {k: float(c) for k, c in S.to_poly(p[r_]).items() if abs(float(c)) > 1e-9}
                        except S.NotPolynomial:
                            ok_pos = False
                            break
                        want = {("m%d0" % r_,): x / w, ("m%d1" % r_,): y / w, ("m%d2" % r_,): 1.0 / w, ("m%d3" % r_,): 1.0}
                        want = {k: c for k, c in want.items() if abs(c) > 1e-9}
                        ok_pos = set(got) == set(want) and all(close(got[k], want[k]) for k in want)
                    if not ok_pos:
                        add("pipeline", "viewport", "vertex %d's screen position is not to_screen * (x/w, y/w, 1/w, 1) as a function of the viewport matrix (%s)" % (i, tag))
                    try:
                        pa = S.to_poly(att)
                    except S.NotPolynomial:
                        pa = None
                    ok = pa is not None and set(pa) == {("a%d" % i,)} and close(float(pa[("a%d" % i,)]), 1.0 / w)
                    if not ok:
                        add("pipeline", "paired-division", "vertex %d's attribute reaches tri_fill as %s, expected a%d / w with the position's own w = %g (%s)"
                            % (i, S.fmt_trace([("Eq", att, 0, True)])[3:-6][:80], i, w, tag))
            # ---- culling (also decides which triangles must be there at all)
            visible = [t for t in range(len(TRIS)) if t not in HIDDEN]
            want_drawn = [t for t in visible if cname == "None" or (cname == "Back" and not is_back(t)) or (cname == "Front" and is_back(t))]
            got_set = [t for t in dict.fromkeys(drawn) if t not in HIDDEN]
            if set(got_set) != set(want_drawn):
                extra, missing = sorted(set(got_set) - set(want_drawn)), sorted(set(want_drawn) - set(got_set))
                if cname == "None":
                    add("pipeline", "dropped", "with culling off triangle(s) %s of the scene never reach tri_fill / %s reach it unexpectedly (%s)" % (missing, extra, tag))
                else:
                    add("cull", cname, "with face_cull = %s the triangles drawn are %s, expected %s (back-facing = positive (p1-p0) x (p2-p0) on screen: %s) (%s)"
                        % (cname, sorted(got_set), sorted(want_drawn), {t: is_back(t) for t in visible}, tag))
            # ---- order
            # (the sort keys of a clipped triangle's pieces are those of the pieces: only unclipped triangles are compared)
            want_order = [t for t in want_drawn if t not in CLIPPED]
            if sname != "None":
                want_order.sort(key=zsum, reverse=(sname == "BackToFront"))
            got_order = [t for t in dict.fromkeys(d for d in drawn if d in want_drawn and d not in CLIPPED)]
            if set(got_order) == set(want_order) and got_order != want_order:
                add("order", sname, "with depth_sort = %s the triangles are rasterised in the order %s, expected %s (summed clip z: %s) (%s)"
                    % (sname, got_order, want_order, {t: round(zsum(t), 2) for t in want_order}, tag))
            # ---- statistics
            nfill = len(rec["fills"])
            exp = {"calls": {("calls",): 1, (): 1}, "prims.i": {("prims_i",): 1, (): len(TRIS)}, "verts.i": {("verts_i",): 1, (): len(POS)},
                   "prims.o": {("prims_o",): 1, (): nfill}, "verts.o": {("verts_o",): 1, (): 3 * nfill},
                   "frags.i": {("frags_i",): 1, (): 5 * rec["rasterize"]}, "frags.o": {("frags_o",): 1, (): 3 * rec["rasterize"]},
                   "objs.i": {("objs_i",): 1}, "objs.o": {("objs_o",): 1}, "frames": {("frames",): 1}}
            if rec["rasterize"] != 2 * nfill:
                add("stats", "rasterize-calls", "%d scanlines were produced but Target::rasterize was called %d times (%s)" % (2 * nfill, rec["rasterize"], tag))
            st = rec["stats"]
            names = rec["stat_names"]
            tpn = prog.adts[RC + "render::stats::Throughput"]["variants"][0]["fields"]
            for key, want in exp.items():
                f, _, sub = key.partition(".")
                v = A.deref_all_static(st[3][names.index(f)]) if hasattr(A, "deref_all_static") else st[3][names.index(f)]
                if sub:
                    v = v[3][tpn.index(sub)]
                try:
                    got = S.to_poly(v)
                except S.NotPolynomial:
                    got = None
                want = {k: c for k, c in want.items() if c != 0}
                if got is None or {k: float(c) for k, c in got.items()} != {k: float(c) for k, c in want.items()}:
                    add("stats", key, "after render() ctx.stats.%s is %s, expected %s (%d triangle(s) reached tri_fill, %d rasterize call(s) returning {i: 5, o: 3}; %s)"
                        % (key, S.fmt_trace([("Eq", v, 0, True)])[3:-6][:80], " + ".join("%g*%s" % (c, "*".join(k) or "1") for k, c in want.items()), nfill, rec["rasterize"], tag))
    return runs
