"""Symbolic interpretation of the scan converter (raster.rs) for C04/C05.

Screen positions and vertex data are symbols; `round_up_to_half` is an opaque function
symbol RND(.); float->int casts of a rounded value are opaque TOINT(.) and the cast of a
difference of two rounded values (a count) is fixed by the scenario. Everything else is the
real arithmetic of the code itself, compared with exact rational-function identities."""
from . import absint as A, symalg as S, common

R = "retrofire_core::render::raster::"
PT = "retrofire_core::math::point::Point"
VTX = "retrofire_core::geom::Vertex"
RANGE = "core::ops::range::Range"
NEXT = "retrofire_core::<render::raster::ScanlineIter<V> as core::iter::traits::iterator::Iterator>::next"


def sym(n):
    return S.sym(n)


def add(a, b):
    return ("symop", "Add", a, b)


def mul(a, b):
    return ("symop", "Mul", a, b)


def sub(a, b):
    return ("symop", "Sub", a, b)


def div(a, b):
    return ("symop", "Div", a, b)


def plane(p, x, y):
    """p0*x + p1*y + p2"""
    return add(add(mul(sym(p + "x"), x), mul(sym(p + "y"), y)), sym(p + "c"))


def pt(x, y, z):
    return ("adt", PT, "Point", [("array", [x, y, z]), ("tuple", [])])


def rng(s, e):
    return ("adt", RANGE, "Range", [s, e])


def is_rnd(v):
    return isinstance(v, tuple) and v[0] == "symop" and v[1] == "RND"


def m_round(it, args, callee, depth):
    return ("symop", "RND", A.deref_all(it, args[0]), None)


def interp(prog, counts, log=None, extra_models=None):
    """counts: iterator of scenario counts handed out for casts of `RND(a) - RND(b)`"""
    # any other use of floor (a snapping step, say) is an opaque function of its argument
    m_floor = S._opaque("FLOOR")
    from . import constfold as CF
    models = dict(CF.MODELS)          # std containers / iterator adaptors / mem::swap ...
    models.update({"raster::round_up_to_half": m_round, "f32>::recip": S.m_recip,
              "f32>::floor": m_floor, "$float::fallback::floor": m_floor, "$::floorf": m_floor, "$float::mm::floor": m_floor, "$float::libm::floor": m_floor})
    models.update(extra_models or {})
    it = S.interp(prog, models=models)
    counts = iter(counts)
    # `floor(x + 0.5) + 0.5` written out (round_up_to_half inlined at its call sites) is the same opaque rounding function
    plain_binop = it.binop
    half = ("f", 0.5)

    def binop(op, a, b, ty):
        r = plain_binop(op, a, b, ty)
        if isinstance(r, tuple) and r[0] == "symop" and r[1] == "Add":
            for fl, h in ((r[2], r[3]), (r[3], r[2])):
                if h == half and isinstance(fl, tuple) and fl[0] == "symop" and fl[1] == "FLOOR":
                    inner = fl[2]
                    if isinstance(inner, tuple) and inner[0] == "symop" and inner[1] == "Add" and half in (inner[2], inner[3]):
                        return ("symop", "RND", inner[3] if inner[2] == half else inner[2], None)
        return r
    it.binop = binop

    def hook(v, to):
        if isinstance(v, tuple) and v[0] == "f":
            return None
        if is_rnd(v):
            return ("symop", "TOINT", v, None)
        if isinstance(v, tuple) and v[0] == "symop" and v[1] == "Sub" and (is_rnd(v[2]) or is_rnd(v[3])):
            # a count: the difference of two values (both should be rounded ones; the rules check that from the log)
            n = next(counts)
            if log is not None:
                log.append((v[2], v[3], n))
            return n
        if isinstance(v, tuple) and v[0] == "symop" and v[1] == "Add" and isinstance(v[3], tuple) and v[3][0] == "f":
            return ("symop", "TOINT", v, None)          # a rounded value advanced by whole steps (the row counter)
        raise A.Undecided("float->%s cast of %r is neither a rounded value nor a difference of two" % (to, v))
    it.float_to_int = hook
    return it


def planar_vertex(x, y):
    """(position with z on the plane g, attribute on the plane f)"""
    return ("tuple", [pt(x, y, plane("g", x, y)), plane("f", x, y)])


def run_scan(prog, rows, cols, fork=None):
    """scan() on a symbolic trapezoid with planar data; returns (interpreter, rows x cols fragments, scanlines, count log).
    `fork`: oracle for comparisons the code makes on symbolic values (see explore_scan)."""
    y0, y1 = sym("y0"), sym("y1")
    l0, l1 = planar_vertex(sym("lx0"), y0), planar_vertex(sym("lx1"), y1)
    r0, r1 = planar_vertex(sym("rx0"), y0), planar_vertex(sym("rx1"), y1)
    log = []
    it = interp(prog, [rows] + [cols] * rows, log)
    if fork is not None:
        it.oracle = fork
    try:
        sc = it.call_body(prog.body(R + "scan"), [rng(y0, y1), rng(S.ref_to(l0), S.ref_to(l1)), rng(S.ref_to(r0), S.ref_to(r1))], env={"V": "f32"})
        cell = A.Frame(None)
        cell.locals[0] = sc
        lines, frags = [], []
        for _k in range(rows + 1):
            o = A.deref_all(it, it.call_body(prog.body(NEXT), [("ref", cell, 0, [])], env={"V": "f32"}))
            if o[2] == "None":
                break
            line = o[3][0]
            lines.append(A.copy_val(line))
            c2 = A.Frame(None)
            c2.locals[0] = line
            fr = it.call_body(prog.body(R + "Scanline::<V>::fragments"), [("ref", c2, 0, [])], env={"V": "f32"})
            frags.append([A.deref_all(it, x) for x in S._drain(S.as_iter(it, fr), it, 0)])
    except (A.Undecided, A.Panic, S.NotPolynomial, IndexError, KeyError, TypeError) as e:
        raise common.Infra("raster: scan()/ScanlineIter::next/fragments could not be interpreted symbolically (%s)" % e)
    return it, frags, lines, log


def explore_scan(prog, rows, cols, max_paths=8):
    """[(trace, (it, frags, lines, log))]: one entry per way through the comparisons scan()/next()/fragments() make on symbolic
    values (none on the pristine code: a single entry with an empty trace). A guard added to the scan converter forks here."""
    try:
        return S.explore(lambda o: run_scan(prog, rows, cols, o), max_paths=max_paths)
    except A.Undecided as e:
        raise common.Infra("raster: scan() has more data-dependent branches than the rule explores (%s)" % e)


def scan_witness(trace, log, rows, cols, checks, tries=6000):
    """A concrete trapezoid + planes that (a) follows the forked path, (b) has the scenario's row and fragment counts and (c) on which
    one of the numeric `checks` [(label, kind, got, want)] deviates by more than the property's tolerance (kind 'px': 0.001 px;
    'depth' / 'attr': 0.5 % of the range of the corner values). Deterministic pseudo-random search; None if nothing is found.
    The values compared are the formulas extracted from the code; the search only exhibits an input, it never accepts a path."""
    import random
    rnd = random.Random(914)
    g = lambda p, x, y: p["gx"] * x + p["gy"] * y + p["gc"]  # noqa: E731
    f = lambda p, x, y: p["fx"] * x + p["fy"] * y + p["fc"]  # noqa: E731
    for _ in range(tries):
        y0 = rnd.uniform(0, 300)
        y1 = y0 + rows + rnd.uniform(-0.45, 0.45)
        lx0 = rnd.uniform(0, 1200)
        lx1 = lx0 + rnd.uniform(-1.5, 1.5) * rows
        w0, w1 = cols + rnd.uniform(-0.9, 0.9), cols + rnd.uniform(-0.9, 0.9)
        if _ % 2:
            # converging edges (towards an apex just below the last row): extrapolated one row further the edges have crossed
            y1 = y0 + rows + rnd.uniform(-0.95, 0.45)
            w0, w1 = rnd.uniform(cols - 0.9, 3.0 * cols), rnd.uniform(0.0, 1.0)
            lx1 = lx0 + rnd.uniform(0.0, 1.0) * (w0 - w1)
        p = {"y0": y0, "y1": y1, "lx0": lx0, "lx1": lx1, "rx0": lx0 + w0, "rx1": lx1 + w1,
             "gx": rnd.uniform(-3e-4, 3e-4), "gy": rnd.uniform(-3e-4, 3e-4), "gc": 1.0,
             "fx": rnd.uniform(-1, 1), "fy": rnd.uniform(-1, 1), "fc": rnd.uniform(-1, 1)}
        try:
            if not S.trace_holds(trace, p):
                continue
            if any(S.num_eval(a, p) - S.num_eval(b, p) != n for a, b, n in log):
                continue
            corners = [(p["lx0"], y0), (p["rx0"], y0), (p["lx1"], y1), (p["rx1"], y1)]
            gs = [g(p, x, y) for x, y in corners]
            if min(gs) <= 0.1:
                continue
            at = [f(p, x, y) / g(p, x, y) for x, y in corners]
            rng_ = {"px": None, "depth": max(gs) - min(gs), "attr": max(at) - min(at)}
            for label, kind, got, want in checks:
                a, b = S.num_eval(got, p), S.num_eval(want, p)
                tol = 1e-3 if kind == "px" else 5e-3 * rng_[kind]
                if not (abs(a - b) <= tol):
                    return {"input": {k: round(v, 6) for k, v in p.items()}, "check": label, "got": a, "want": b, "tolerance": tol}
        except (S.NotNumeric, ZeroDivisionError, OverflowError):
            continue
    return None
