"""Symbolic interpretation of the scan converter (raster.rs) for C04/C05.

Screen positions and vertex data are symbols; `round_up_to_half` is an opaque function
symbol RND(.); float->int casts of a rounded value are opaque TOINT(.) and the cast of a
difference of two rounded values (a count) is fixed by the scenario. Everything else is the
real arithmetic of the code itself, compared with exact rational-function identities."""
from . import absint as A, symalg as S, common

R = "retrofire_core::render::raster::"
PT = "retrofire_core::math::point::Point"
VTX = "retrofire_core::geom::Vertex"
RANGE = "core::ops::range::Range"
NEXT = "retrofire_core::<render::raster::ScanlineIter<V> as core::iter::traits::iterator::Iterator>::next"


def sym(n):
    return S.sym(n)


def add(a, b):
    return ("symop", "Add", a, b)


def mul(a, b):
    return ("symop", "Mul", a, b)


def sub(a, b):
    return ("symop", "Sub", a, b)


def div(a, b):
    return ("symop", "Div", a, b)


def plane(p, x, y):
    """p0*x + p1*y + p2"""
    return add(add(mul(sym(p + "x"), x), mul(sym(p + "y"), y)), sym(p + "c"))


def pt(x, y, z):
    return ("adt", PT, "Point", [("array", [x, y, z]), ("tuple", [])])


def rng(s, e):
    return ("adt", RANGE, "Range", [s, e])


def is_rnd(v):
    return isinstance(v, tuple) and v[0] == "symop" and v[1] == "RND"


def m_round(it, args, callee, depth):
    return ("symop", "RND", A.deref_all(it, args[0]), None)


def interp(prog, counts, log=None, extra_models=None):
    """counts: iterator of scenario counts handed out for casts of `RND(a) - RND(b)`"""
    models = {"raster::round_up_to_half": m_round, "f32>::recip": S.m_recip}
    models.update(extra_models or {})
    it = S.interp(prog, models=models)
    counts = iter(counts)

    def hook(v, to):
        if isinstance(v, tuple) and v[0] == "f":
            return None
        if is_rnd(v):
            return ("symop", "TOINT", v, None)
        if isinstance(v, tuple) and v[0] == "symop" and v[1] == "Sub" and (is_rnd(v[2]) or is_rnd(v[3])):
            # a count: the difference of two values (both should be rounded ones; the rules check that from the log)
            n = next(counts)
            if log is not None:
                log.append((v[2], v[3], n))
            return n
        if isinstance(v, tuple) and v[0] == "symop" and v[1] == "Add" and isinstance(v[3], tuple) and v[3][0] == "f":
            return ("symop", "TOINT", v, None)          # a rounded value advanced by whole steps (the row counter)
        raise A.Undecided("float->%s cast of %r is neither a rounded value nor a difference of two" % (to, v))
    it.float_to_int = hook
    return it


def planar_vertex(x, y):
    """(position with z on the plane g, attribute on the plane f)"""
    return ("tuple", [pt(x, y, plane("g", x, y)), plane("f", x, y)])


def run_scan(prog, rows, cols):
    """scan() on a symbolic trapezoid with planar data; returns (interpreter, rows x cols fragments, scanlines, count log)"""
    y0, y1 = sym("y0"), sym("y1")
    l0, l1 = planar_vertex(sym("lx0"), y0), planar_vertex(sym("lx1"), y1)
    r0, r1 = planar_vertex(sym("rx0"), y0), planar_vertex(sym("rx1"), y1)
    log = []
    it = interp(prog, [rows] + [cols] * rows, log)
    try:
        sc = it.call_body(prog.body(R + "scan"), [rng(y0, y1), rng(S.ref_to(l0), S.ref_to(l1)), rng(S.ref_to(r0), S.ref_to(r1))], env={"V": "f32"})
        cell = A.Frame(None)
        cell.locals[0] = sc
        lines, frags = [], []
        for _k in range(rows + 1):
            o = A.deref_all(it, it.call_body(prog.body(NEXT), [("ref", cell, 0, [])], env={"V": "f32"}))
            if o[2] == "None":
                break
            line = o[3][0]
            lines.append(A.copy_val(line))
            c2 = A.Frame(None)
            c2.locals[0] = line
            fr = it.call_body(prog.body(R + "Scanline::<V>::fragments"), [("ref", c2, 0, [])], env={"V": "f32"})
            frags.append([A.deref_all(it, x) for x in S._drain(S.as_iter(it, fr), it, 0)])
    except (A.Undecided, A.Panic, S.NotPolynomial, IndexError, KeyError, TypeError) as e:
        raise common.Infra("raster: scan()/ScanlineIter::next/fragments could not be interpreted symbolically (%s)" % e)
    return it, frags, lines, log
