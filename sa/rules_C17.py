"""C17 — `approximate()` terminates and is anchored at the curve's endpoints
(the structural clauses of the spline property).

Decides (engines D, P):
  R-term  do_approx is the only recursion in its call graph; every self-call
          passes `max_dep - 1` in the depth position, is reachable only on the
          `max_dep != 0` edge (which also discharges the unsigned underflow),
          and on the `max_dep == 0` edge no self-call is reachable. Ranking
          function: max_dep. The initial budget is 10 + len.ilog2().
  R-ctor  BezierSpline(..) is built only in `new`, after
          `len >= 4 && len % 3 == 1` on every path; from_rays returns through
          new. Hence len >= 4 wherever approximate runs: ilog2's zero panic,
          self.0[len-1], self.0[0] and last().unwrap() are in range.
  R-leaf  the only push in do_approx is control-dependent on
          `max_dep == 0 || halt(real - approx)`: every emitted piece met the
          caller's criterion or sits at the depth bound; what is pushed is
          eval(a) of that piece
  R-ends  approximate calls do_approx(0.0, 1.0, ..); the first self-call keeps
          `a`, the second keeps `b` (the midpoint is shared), so the left-most
          leaf pushes eval(0.0); eval/step return the first control point for
          t <= 0 (abstract interpretation over the orderings of t vs 0 and 1);
          after the recursion approximate pushes self.0[len-1] verbatim
Leaves: evaluator agreement, tangent, convex hull, continuity at joins.
"""
from . import facts, guards as G, term as T, common, absint as A, callgraph as CG

SP = "retrofire_core::math::spline::"
DO = SP + "BezierSpline::<T>::do_approx"
APPROX = SP + "BezierSpline::<T>::approximate"
NEW = SP + "BezierSpline::<T>::new"
ADT = SP + "BezierSpline"


def s(t):
    return T.strip(t, sites=False, refs=True)


def check_config(rep, prog):
    cfg = prog.config
    do = prog.body(DO)
    sl = T.Slicer(do)
    selfcalls = [(bi, t) for bi, t in do.calls(lambda c: c["path"] == DO)]
    rep.floor("C17.selfcalls.%s" % cfg, len(selfcalls), 1, "recursive calls in do_approx")
    # ---- R-term
    seen = CG.reachable(prog, [do])
    back = [p for p in seen if p != DO and any(True for _b, _t in prog.bodies[p].calls(lambda c: c["path"] == DO or c["path"] == APPROX))]
    rep.inst("C17.R-term", "bodies reachable from do_approx that call back into it (other than itself): %s" % back, config=cfg)
    if back:
        rep.violate("C17.R-term", "R-term|mutual", do.where(), "do_approx is part of a larger recursion cycle through %s" % back, config=cfg)
    zero_edges_t, zero_edges_f = [], []
    for sb, tr, fa in G.bool_edges(do, sl, lambda d: d[0] == "bin" and d[1] in ("Eq", "Ne", "Gt", "Lt", "Ge", "Le")
                                   and {s(d[2]), s(d[3])} == {("param", 4), ("const", "u32", 0)}):
        d, _n = G.strip_not(sl.operand(do.term(sb)["discr"]))
        a_is_dep = s(d[2]) == ("param", 4)
        # normalise to: zero_edges_t = edges where max_dep == 0
        if d[1] == "Eq":
            zero_edges_t += tr
            zero_edges_f += fa
        elif d[1] == "Ne":
            zero_edges_t += fa
            zero_edges_f += tr
        elif (d[1] == "Gt" and a_is_dep) or (d[1] == "Lt" and not a_is_dep):
            zero_edges_t += fa
            zero_edges_f += tr
        elif (d[1] == "Le" and a_is_dep) or (d[1] == "Ge" and not a_is_dep):
            zero_edges_t += tr
            zero_edges_f += fa
    if not zero_edges_f:
        rep.violate("C17.R-term", "R-term|no-depth-test", do.where(), "do_approx never tests its depth budget against zero", config=cfg)
    for bi, t in selfcalls:
        dep = s(sl.operand(t["args"][3]))
        core = dep
        while core[0] == "field" and core[2] == "0" and core[1][0] == "bin":
            core = core[1]
        dec = core[0] == "bin" and core[1].startswith("Sub") and s(core[2]) == ("param", 4) and core[3] == ("const", "u32", 1)
        guarded = bool(zero_edges_f) and G.guarded_by(do, bi, zero_edges_f)
        same_self = s(sl.operand(t["args"][0])) == ("param", 1) and s(sl.operand(t["args"][4])) == ("param", 5) and s(sl.operand(t["args"][5])) == ("param", 6)
        rep.inst("C17.R-term", "self-call at %s: depth argument %s is max_dep - 1: %s; only on the max_dep != 0 edge: %s; same spline/halt/accum: %s"
                 % (do.where(bi, None), T.show(dep)[:40], dec, guarded, same_self), config=cfg)
        if not dec:
            rep.violate("C17.R-term", "R-term|not-decreasing", do.where(bi, None), "recursive call does not pass max_dep - 1 (passes %s): no ranking function" % T.show(dep)[:60], config=cfg)
        if not guarded:
            rep.violate("C17.R-term", "R-term|unguarded", do.where(bi, None), "recursive call is reachable with max_dep == 0: unbounded recursion / underflow", config=cfg)
    # initial budget
    ap = prog.body(APPROX)
    asl = T.Slicer(ap)
    entry = [(bi, t) for bi, t in ap.calls(lambda c: c["path"] == DO)]
    rep.floor("C17.entry.%s" % cfg, len(entry), 1, "do_approx call in approximate")
    bi, t = entry[0]
    a0, b0 = asl.operand(t["args"][1]), asl.operand(t["args"][2])
    bud = s(asl.operand(t["args"][3]))
    fin = T.contains(bud, lambda q: q[0] == "call" and q[1].split(" => ")[0].endswith("::ilog2")) and T.contains(bud, lambda q: q == ("const", "u32", 10))
    ends = a0 == ("const", "f32", 0.0) and b0 == ("const", "f32", 1.0)
    rep.inst("C17.R-term", "approximate starts do_approx(0.0, 1.0, 10 + len.ilog2(), ..): interval=%s finite budget=%s" % (ends, fin), config=cfg)
    if not ends:
        rep.violate("C17.R-ends", "R-ends|interval", ap.where(bi, None), "approximate does not subdivide the whole parameter interval [0, 1] (%s, %s)" % (T.show(a0), T.show(b0)), config=cfg)
    if not fin:
        rep.violate("C17.R-term", "R-term|budget", ap.where(bi, None), "initial depth budget is not 10 + len.ilog2() (%s)" % T.show(bud)[:60], config=cfg)

    # ---- R-leaf
    pushes = [(pb, pt) for pb, pt in do.calls(lambda c: c["path"].endswith("Vec::<T, A>::push"))]
    halt_edges = G.bool_edges(do, sl, lambda d: d[0] == "call" and (d[1].startswith("<indirect>") or d[1].split(" => ")[0].endswith("function::Fn::call")))
    halt_true = [e for _b, tr, _f in halt_edges for e in tr]
    ok_leaf = len(pushes) == 1
    if ok_leaf:
        pb, pt = pushes[0]
        ok_leaf = G.guarded_by(do, pb, zero_edges_t + halt_true) and s(sl.operand(pt["args"][0])) == ("param", 6)
        val = s(sl.operand(pt["args"][1]))
        is_eval_a = val[0] == "call" and val[1].split(" => ")[0].endswith("BezierSpline::<T>::eval") and s(val[2][1]) == ("param", 2)
        # halt is asked about real - approx
        ok_halt = False
        for hb, _tr, _fa in halt_edges:
            d, _n = G.strip_not(sl.operand(do.term(hb)["discr"]))
            arg = d[2][1] if len(d[2]) > 1 else None
            if arg is not None:
                sub = [q for q in T.walk(arg) if q[0] == "call" and q[1].split(" => ")[0].endswith("space::Affine::sub")]
                if sub:
                    real, approx = s(sub[0][2][0]), s(sub[0][2][1])
                    ok_halt = real[0] == "call" and "::eval" in real[1] and approx[0] == "call" and "Lerp::lerp" in approx[1]
        rep.inst("C17.R-leaf", "the one push in do_approx is under `max_dep == 0 || halt(..)`: %s; pushes eval(a): %s; halt sees eval(mid) - lerp(eval(a), eval(b)): %s"
                 % (ok_leaf, is_eval_a, ok_halt), config=cfg)
        ok_leaf = ok_leaf and is_eval_a and ok_halt
    if not ok_leaf:
        rep.violate("C17.R-leaf", "R-leaf", do.where(), "a flattened piece can be emitted without having met the caller's criterion or the depth bound (or is not eval(a))", config=cfg)

    # ---- R-ends: sub-interval bookkeeping
    if len(selfcalls) == 2:
        order = sorted(selfcalls, key=lambda x: sum(1 for y in selfcalls if do.dominates(y[0], x[0])))
        (b1, t1), (b2, t2) = order
        a1, m1 = s(sl.operand(t1["args"][1])), s(sl.operand(t1["args"][2]))
        m2, bb2 = s(sl.operand(t2["args"][1])), s(sl.operand(t2["args"][2]))
        mid_ok = m1 == m2 and m1[0] == "call" and "Lerp::lerp" in m1[1] and s(m1[2][0]) == ("param", 2) and s(m1[2][1]) == ("param", 3) and m1[2][2] == ("const", "f32", 0.5)
        ok = a1 == ("param", 2) and bb2 == ("param", 3) and mid_ok and do.dominates(b1, b2)
        rep.inst("C17.R-ends", "recursion is do_approx(a, mid) then do_approx(mid, b) with mid = lerp(a, b, 0.5): %s" % ok, config=cfg)
        if not ok:
            rep.violate("C17.R-ends", "R-ends|bisection", do.where(), "the two recursive calls do not cover [a, mid] then [mid, b] in that order", config=cfg)
    else:
        rep.violate("C17.R-ends", "R-ends|bisection", do.where(), "do_approx does not make exactly two recursive calls", config=cfg)
    # final push of the last control point, after the recursion
    fp = [(pb, pt) for pb, pt in ap.calls(lambda c: c["path"].endswith("Vec::<T, A>::push"))]
    ok_last = False
    for pb, pt in fp:
        v = s(asl.operand(pt["args"][1]))
        # clone(self.0[len - 1])
        idx = [q for q in T.walk(v) if q[0] == "call" and "ops::index::Index" in q[1]]
        if idx:
            i = s(idx[0][2][1])
            while i[0] == "field" and i[2] == "0" and i[1][0] == "bin":
                i = i[1]
            is_last = i[0] == "bin" and i[1].startswith("Sub") and i[3] == ("const", "usize", 1) and T.contains(i[2], lambda q: q[0] == "call" and q[1].split(" => ")[0].endswith("::len"))
            on_pts = T.contains(idx[0][2][0], lambda q: q[0] == "field" and q[2] == "BezierSpline.0")
            after = ap.dominates(bi, pb) and all(ap.dominates(pb, r) for r in G.return_blocks(ap))
            same_vec = s(asl.operand(pt["args"][0])) == s(asl.operand(t["args"][5]))
            ok_last = is_last and on_pts and after and same_vec
    ret_same = s(asl.local(0)) == s(asl.operand(t["args"][5]))
    rep.inst("C17.R-ends", "approximate pushes self.0[len - 1] after the recursion into the vector it returns: %s / %s" % (ok_last, ret_same), config=cfg)
    if not (ok_last and ret_same):
        rep.violate("C17.R-ends", "R-ends|last-point", ap.where(), "the polyline does not end with the last control point pushed verbatim after the recursion", config=cfg)
    # step(): t <= 0 -> min, t >= 1 -> max (abstract interpretation over orderings)
    st = prog.body(SP + "step")
    table = {}
    bad = []
    for rel0, rel1, want in (("lt", "lt", "min"), ("eq", "lt", "min"), ("gt", "lt", "f"), ("gt", "eq", "max"), ("gt", "gt", "max")):
        def orc(op, a, b, rel0=rel0, rel1=rel1):
            tt = ("sym", "t")
            if a == tt and b == ("f", 0.0):
                r = rel0
            elif a == tt and b == ("f", 1.0):
                r = rel1
            elif b == tt and a == ("f", 0.0):
                r = {"lt": "gt", "eq": "eq", "gt": "lt"}[rel0]
            elif b == tt and a == ("f", 1.0):
                r = {"lt": "gt", "eq": "eq", "gt": "lt"}[rel1]
            else:
                return None
            return {"lt": {"Lt": 1, "Le": 1, "Gt": 0, "Ge": 0, "Eq": 0, "Ne": 1}, "eq": {"Lt": 0, "Le": 1, "Gt": 0, "Ge": 1, "Eq": 1, "Ne": 0},
                    "gt": {"Lt": 0, "Le": 0, "Gt": 1, "Ge": 1, "Eq": 0, "Ne": 1}}[r].get(op)
        it = A.Interp(prog, oracle=orc, models={"function::FnOnce::call_once": lambda it, args, c, d: ("sym", "f"),
                                                 "core::clone::Clone::clone": lambda it, args, c, d: A.deref_all(it, args[0])})
        cmin, cmax = A.Frame(None), A.Frame(None)
        cmin.locals[0] = ("sym", "min")
        cmax.locals[0] = ("sym", "max")
        try:
            r = it.call_body(st, [("sym", "t"), ("ref", cmin, 0, []), ("ref", cmax, 0, []), A.UNKNOWN])
        except (A.Undecided, A.Panic) as e:
            raise common.Infra("C17.R-ends: step() could not be evaluated abstractly (%s)" % e)
        got = r[1] if isinstance(r, tuple) and r[0] == "sym" else repr(r)
        table["t%s0,t%s1" % ({"lt": "<", "eq": "=", "gt": ">"}[rel0], {"lt": "<", "eq": "=", "gt": ">"}[rel1])] = got
        if got != want:
            bad.append((rel0, rel1, got, want))
    rep.inst("C17.R-ends", "step(t, min, max, f) over the orderings of t vs 0 and 1: %s" % table, config=cfg)
    for b_ in bad:
        rep.violate("C17.R-ends", "R-ends|step|%s%s" % (b_[0], b_[1]), st.where(), "step() returns %s where %s is required (t %s 0, t %s 1)" % (b_[2], b_[3], b_[0], b_[1]), config=cfg)
    # eval delegates to step(t, &self.0[0], last, ..)
    ev = prog.body(SP + "BezierSpline::<T>::eval")
    esl = T.Slicer(ev)
    sc = [(eb, et) for eb, et in ev.calls(lambda c: c["path"] == SP + "step")]
    ok_ev = False
    if len(sc) == 1:
        eb, et = sc[0]
        a = [s(esl.operand(x)) for x in et["args"]]
        first = T.contains(a[1], lambda q: q[0] == "call" and "ops::index::Index" in q[1] and s(q[2][1]) == ("const", "usize", 0)) or \
            T.contains(a[1], lambda q: q[0] == "call" and q[1].split(" => ")[0].endswith("<impl [T]>::first"))
        last = T.contains(a[2], lambda q: q[0] == "call" and q[1].split(" => ")[0].endswith("<impl [T]>::last"))
        ok_ev = a[0] == ("param", 2) and first and last and s(esl.local(0))[0] == "call" and s(esl.local(0))[3] == (ev.path, eb) if len(s(esl.local(0))) > 3 else False
        ok_ev = a[0] == ("param", 2) and first and last
    rep.inst("C17.R-ends", "BezierSpline::eval(t) = step(t, &self.0[0], self.0.last(), ..): %s" % ok_ev, config=cfg)
    if not ok_ev:
        rep.violate("C17.R-ends", "R-ends|eval-endpoints", ev.where(), "BezierSpline::eval does not clamp to the first/last control point through step()", config=cfg)

    # ---- E-exact: CubicBezier::eval / fast_eval return the end control points VERBATIM at and beyond the ends
    CB = SP + "CubicBezier"
    for fn in ("eval", "fast_eval"):
        body = prog.body(SP + "CubicBezier::<T>::" + fn)
        res = {}
        for rel0, rel1, want in (("lt", "lt", "p0"), ("eq", "lt", "p0"), ("gt", "eq", "p3"), ("gt", "gt", "p3")):
            def orc2(op, a, b, rel0=rel0, rel1=rel1):
                tt = ("sym", "t")
                if a == tt and b == ("f", 0.0):
                    r = rel0
                elif a == tt and b == ("f", 1.0):
                    r = rel1
                elif b == tt and a == ("f", 0.0):
                    r = {"lt": "gt", "eq": "eq", "gt": "lt"}[rel0]
                elif b == tt and a == ("f", 1.0):
                    r = {"lt": "gt", "eq": "eq", "gt": "lt"}[rel1]
                else:
                    return None
                return {"lt": {"Lt": 1, "Le": 1, "Gt": 0, "Ge": 0, "Eq": 0, "Ne": 1}, "eq": {"Lt": 0, "Le": 1, "Gt": 0, "Ge": 1, "Eq": 1, "Ne": 0},
                        "gt": {"Lt": 0, "Le": 0, "Gt": 1, "Ge": 1, "Eq": 0, "Ne": 1}}[r].get(op)
            it = A.Interp(prog, oracle=orc2, models={"core::clone::Clone::clone": lambda it, args, c, d: A.deref_all(it, args[0])})
            cell = A.Frame(None)
            cell.locals[0] = ("adt", CB, "CubicBezier", [("array", [("sym", "p%d" % i) for i in range(4)])])
            try:
                r = it.call_body(body, [("ref", cell, 0, []), ("sym", "t")])
                got = r[1] if isinstance(r, tuple) and r[0] == "sym" else "computed"
            except A.Undecided:
                got = "computed"
            except A.Panic as e:
                got = "panic"
            res["t%s0,t%s1" % ({"lt": "<", "eq": "=", "gt": ">"}[rel0], {"lt": "<", "eq": "=", "gt": ">"}[rel1])] = got
            if got != want:
                rep.violate("C17.E-exact", "E-exact|%s|%s" % (fn, want), body.where(),
                            "CubicBezier::%s does not return control point %s verbatim for t %s (it is %s): the curve's ends are no longer exact"
                            % (fn, want, "<= 0" if want == "p0" else ">= 1", got), config=cfg)
        rep.inst("C17.E-exact", "CubicBezier::%s at/beyond the ends returns the control point itself: %s" % (fn, res), config=cfg)

    # ---- R-ctor
    sites = []
    for b in prog.bodies.values():
        for cb, si, st_ in b.stmts():
            if st_["k"] == "Assign" and st_["rv"]["k"] == "Aggregate" and st_["rv"].get("adt") == ADT and "Clone>::clone" not in b.path:
                sites.append((b, cb, si))
    rep.floor("C17.R-ctor.%s" % cfg, len(sites), 1, "BezierSpline(..) construction sites")
    for b, cb, si in sites:
        if b.path != NEW:
            rep.violate("C17.R-ctor", "R-ctor|site|%s" % b.path, b.where(cb, si), "BezierSpline is constructed outside BezierSpline::new (length invariant unchecked)", config=cfg)
            continue
        nsl = T.Slicer(b)
        from . import panics as P
        conds = P.dominating_conditions(b, nsl, cb)
        ge4 = any(d[0] == "bin" and d[1] == "Ge" and tk and d[3] == ("const", "usize", 4) and T.contains(d[2], lambda q: q[0] == "un" and q[1] == "PtrMetadata" or (q[0] == "call" and "::len" in q[1])) for d, tk in conds)
        mod3 = any(d[0] == "bin" and d[1] == "Eq" and tk and d[3] == ("const", "usize", 1) and T.contains(d[2], lambda q: q[0] == "bin" and q[1] == "Rem" and q[3] == ("const", "usize", 3)) for d, tk in conds)
        rep.inst("C17.R-ctor", "BezierSpline::new constructs only after len >= 4 (%s) && len %% 3 == 1 (%s)" % (ge4, mod3), config=cfg)
        if not (ge4 and mod3):
            rep.violate("C17.R-ctor", "R-ctor|assert", b.where(cb, si), "BezierSpline::new no longer enforces len >= 4 && len % 3 == 1 before constructing", config=cfg)
    fr = prog.body(SP + "BezierSpline::<T>::from_rays")
    fsl = T.Slicer(fr)
    rt = s(fsl.local(0))
    ok_fr = rt[0] == "call" and rt[1] == NEW
    rep.inst("C17.R-ctor", "from_rays returns BezierSpline::new(..): %s" % ok_fr, config=cfg)
    if not ok_fr:
        rep.violate("C17.R-ctor", "R-ctor|from_rays", fr.where(), "from_rays does not return through BezierSpline::new", config=cfg)


def algebra_rules(rep, prog):
    """The algebraic clauses, decided as polynomial identities in t and the control points (scalars; the code is generic
    over Affine/Linear and is interpreted at T = f32):
      E-agree    for 0 < t < 1, eval (De Casteljau) = fast_eval (Horner) = the Bernstein form
                 sum C(3,k) t^k (1-t)^(3-k) p_k  (so the value is a convex combination: inside the bounding box)
      E-tangent  tangent(t) = d/dt of the Bernstein form
      S-seg      BezierSpline::segment(t): for every segment count 1..4 and every position of t (floor(t*n) = j for
                 j = 0..n-1, and t = 1 exactly) it returns control points 3i..3i+3 and a local parameter u with
                 i + u = t*n as an identity, i = j inside the curve and i = n-1, u = 1 at the end: the spline passes
                 through every third control point and joins are continuous
      S-eval     BezierSpline::eval/tangent evaluate the cubic of exactly that segment at exactly that parameter"""
    from fractions import Fraction
    from . import symalg as S, poly as PL
    cfg = prog.config
    CB = SP + "CubicBezier"
    t = S.sym("t")

    def inside(op, a, b):
        if a == t and b == ("f", 0.0):
            return {"Le": False, "Lt": False, "Gt": True, "Ge": True, "Eq": False, "Ne": True}.get(op)
        if a == t and b == ("f", 1.0):
            return {"Le": True, "Lt": True, "Gt": False, "Ge": False, "Eq": False, "Ne": True}.get(op)
        return None

    def req(ok, rule, key, where, what):
        rep.inst("C17." + rule, "%s: %s" % (what, "holds" if ok else "FAILS"), config=cfg)
        if not ok:
            rep.violate("C17." + rule, "%s|%s" % (rule, key), where, "%s does not hold as a polynomial identity" % what, config=cfg)
    cb = ("adt", CB, "CubicBezier", [("array", [S.sym("p%d" % i) for i in range(4)])])
    polys = {}
    for fn in ("eval", "fast_eval", "tangent"):
        b = prog.body(SP + "CubicBezier::<T>::" + fn)
        it = S.interp(prog, oracle=inside, models={"$f32>::clamp": lambda it_, args, c, d: A.deref_all(it_, args[0])})   # clamp is the identity inside (0, 1)
        try:
            polys[fn] = S.to_poly(A.deref_all(it, it.call_body(b, [S.ref_to(A.copy_val(cb)), t], env={"T": "f32"})))
        except (A.Undecided, A.Panic, S.NotPolynomial) as e:
            raise common.Infra("C17.E-agree: CubicBezier::%s could not be evaluated symbolically (%s)" % (fn, e))
    T1 = {("t",): Fraction(1)}
    U1 = {(): Fraction(1), ("t",): Fraction(-1)}

    def ppow(p_, n):
        r = {(): Fraction(1)}
        for _ in range(n):
            r = PL.pmul(r, p_)
        return r
    bern = {}
    for k, c in enumerate((1, 3, 3, 1)):
        bern = PL.padd(bern, PL.pmul({("p%d" % k,): Fraction(c)}, PL.pmul(ppow(T1, k), ppow(U1, 3 - k))))
    deriv = {}
    for mono, c in bern.items():
        n = mono.count("t")
        if n:
            lst = list(mono)
            lst.remove("t")
            deriv = PL.padd(deriv, {tuple(lst): c * n})
    eb = prog.body(SP + "CubicBezier::<T>::eval")
    req(polys["eval"] == bern, "E-agree", "eval", eb.where(), "CubicBezier::eval(t) = sum C(3,k) t^k (1-t)^(3-k) p_k for 0 < t < 1")
    req(polys["fast_eval"] == bern, "E-agree", "fast_eval", prog.body(SP + "CubicBezier::<T>::fast_eval").where(), "CubicBezier::fast_eval(t) = the Bernstein form = eval(t) for 0 < t < 1")
    req(polys["tangent"] == deriv, "E-tangent", "tangent", prog.body(SP + "CubicBezier::<T>::tangent").where(), "CubicBezier::tangent(t) = d/dt of the Bernstein form")
    # ---- spline
    seg_b = prog.body(SP + "BezierSpline::<T>::segment")
    n_scen = 0
    for segs in (1, 2, 3, 4):
        npts = 3 * segs + 1
        for j in range(segs + 1):
            at_end = (j == segs)
            tv = ("f", 1.0) if at_end else t
            sp = ("adt", ADT, "BezierSpline", [("array", [S.sym("p%d" % i) for i in range(npts)])])
            fl = lambda it_, args, c, d, j=j: ("f", float(j))  # noqa: E731
            pos = lambda op, a_, b_, j=j, segs=segs: inside(op, a_, b_)  # noqa: E731  (t strictly inside (0, 1) unless it is the constant 1)
            it = S.interp(prog, oracle=pos, models={"$f32>::floor": fl, "$::floorf": fl, "$float::mm::floor": fl, "$float::fallback::floor": fl, "$float::libm::floor": fl})
            it.float_to_int = lambda v, to, j=j: j if not (isinstance(v, tuple) and v[0] == "f") else None
            try:
                r = A.deref_all(it, it.call_body(seg_b, [S.ref_to(sp), tv], env={"T": "f32"}))
                u, pts = A.deref_all(it, r[1][0]), A.deref_all(it, r[1][1])
                names = [p_[1] for p_ in pts[1]]

                def unrem(v):
                    """x % m with x/m = t*n is x - floor(t*n)*m = x - j*m in this scenario (real arithmetic)"""
                    if not (isinstance(v, tuple) and v[0] == "symop"):
                        return v
                    if v[1] == "Rem":
                        x_, m_ = unrem(v[2]), unrem(v[3])
                        rx, rm = S.to_ratio(x_), S.to_ratio(m_)
                        tn_ = ({(): Fraction(segs)} if at_end else {("t",): Fraction(segs)}, {(): Fraction(1)})
                        if S.ratio_eq((PL.pmul(rx[0], rm[1]), PL.pmul(rx[1], rm[0])), tn_):
                            return ("symop", "Sub", x_, ("symop", "Mul", ("f", float(j)), m_))
                        return v
                    return (v[0], v[1]) + tuple(unrem(x_) if isinstance(x_, tuple) else x_ for x_ in v[2:])
                n_, d_ = S.to_ratio(unrem(u))
                if set(d_) != {()}:
                    raise S.NotPolynomial("local parameter is a genuine rational function")
                up = {m_: c_ / d_[()] for m_, c_ in n_.items()}
                if any(sy.startswith("?") for m_ in up for sy in m_):
                    raise S.NotPolynomial("local parameter contains an operation outside the ring domain: %s" % [m_ for m_ in up if any(sy.startswith("?") for sy in m_)][:1])
            except (A.Undecided, A.Panic, S.NotPolynomial, IndexError, TypeError) as e:
                raise common.Infra("C17.S-seg: BezierSpline::segment could not be evaluated for %d segments, floor(t*n) = %d (%s)" % (segs, j, e))
            n_scen += 1
            i_want = min(j, segs - 1)
            ok_pts = names == ["p%d" % (3 * i_want + k) for k in range(4)]
            tn = {(): Fraction(segs)} if at_end else {("t",): Fraction(segs)}
            ok_u = PL.padd(up, {(): Fraction(i_want)}) == tn
            what = "%d segment(s), %s" % (segs, "t = 1" if at_end else "floor(t*n) = %d" % j)
            rep.inst("C17.S-seg", "segment(): %s -> points %s, local parameter %s: %s" % (what, names, up, "consistent" if ok_pts and ok_u else "INCONSISTENT"), config=cfg)
            if not ok_pts:
                rep.violate("C17.S-seg", "S-seg|points", seg_b.where(), "BezierSpline::segment with %s returns control points %s instead of p%d..p%d" % (what, names, 3 * i_want, 3 * i_want + 3), config=cfg)
            if not ok_u:
                rep.violate("C17.S-seg", "S-seg|parameter", seg_b.where(),
                            "BezierSpline::segment with %s returns the local parameter %s for segment %d: segment index + local parameter must equal t*n "
                            "(the curve would jump or stall at that position)" % (what, up, i_want), config=cfg)
    rep.floor("C17.S-seg.%s" % cfg, n_scen, 14, "segment() scenarios")
    # S-eval: eval = CubicBezier(segment(t).1).fast_eval(segment(t).0) / tangent likewise (provenance)
    for fn, inner in (("eval", ("fast_eval", "eval")), ("tangent", ("tangent",))):
        b = prog.body(SP + "BezierSpline::<T>::" + fn)
        ok = False
        for fb in prog.family(b.path):
            sl = T.Slicer(fb)
            for bi, tcall in fb.calls(lambda c: any(c["path"].endswith("CubicBezier::<T>::" + x) for x in inner)):
                recv = T.strip(sl.operand(tcall["args"][0]), sites=True, refs=True)
                par = T.strip(sl.operand(tcall["args"][1]), sites=True, refs=True)
                from_seg = lambda q: T.contains(q, lambda r_: r_[0] == "call" and r_[1].split(" => ")[0].endswith("BezierSpline::<T>::segment"))  # noqa: E731
                f_recv, f_par = T.fields_in(recv), T.fields_in(par)
                ok = from_seg(recv) and from_seg(par) and "1" in [f.rsplit(".", 1)[-1] for f in f_recv] and "0" in [f.rsplit(".", 1)[-1] for f in f_par]
        req(ok, "S-eval", fn, b.where(), "BezierSpline::%s evaluates CubicBezier(segment(t).1) at segment(t).0" % fn)


def check(rep, args):
    configs = ["ws"] if rep.tier == "quick" else common.ALL_CONFIGS
    rep.configs = configs
    for cfg in configs:
        rep.guard(check_config, rep, facts.program(cfg))
        rep.guard(algebra_rules, rep, facts.program(cfg))
    cov = {
        "explanation": "syntactic ranking argument for do_approx (decreasing, zero-guarded depth budget; sole recursion), constructor invariant, "
                       "control dependence of the only push, interval bookkeeping, and abstract interpretation of step() over orderings",
        "evaluations": len(rep.instances),
        "distinct_nontrivial": len({i["what"] for i in rep.instances}),
        "rules": ["R-term", "R-ctor", "R-leaf", "R-ends", "E-exact", "E-agree", "E-tangent", "S-seg", "S-eval"],
    }
    return "other", cov, ["the caller's `halt` closure terminates", "identities hold over the reals: float rounding of the evaluators and of t*n at joins is not decided"]
