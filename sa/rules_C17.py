"""C17 — `approximate()` terminates and is anchored at the curve's endpoints
(the structural clauses of the spline property).

Decides (engines D, P):
  R-term  do_approx is the only recursion in its call graph. The body is interpreted
          over symbolic a, b with eval / halt / the self-call uninterpreted, in the four
          scenarios (budget == 0 | > 0) x (halt yes | no): with budget 0 no self-call
          (and no underflow panic) is reachable; otherwise every self-call passes
          budget - 1 and the same spline / criterion / accumulator. Ranking function:
          max_dep. The initial budget is 10 + len.ilog2(). Independent of how the tests
          are spelled (||, match, early return, loop over the halves).
  R-ctor  BezierSpline(..) is built only in `new`, after
          `len >= 4 && len % 3 == 1` on every path; from_rays returns through
          new. Hence len >= 4 wherever approximate runs: ilog2's zero panic,
          self.0[len-1], self.0[0] and last().unwrap() are in range.
  R-leaf  same interpretation: with budget 0 or an accepting halt exactly eval(a) is
          pushed and nothing else; otherwise nothing is pushed and the piece is
          subdivided; halt is asked about eval(mid) - (eval(a) + eval(b)) / 2
  R-ends  approximate calls do_approx(0.0, 1.0, ..); the self-calls cover [a, mid]
          then [mid, b] with mid = (a + b) / 2 (same interpretation), so the left-most
          leaf pushes eval(0.0); eval/step return the first control point for
          t <= 0 (abstract interpretation over the orderings of t vs 0 and 1);
          after the recursion approximate pushes self.0[len-1] verbatim
Leaves: evaluator agreement, tangent, convex hull, continuity at joins.
"""
from fractions import Fraction

from . import facts, guards as G, term as T, common, absint as A, callgraph as CG

SP = "retrofire_core::math::spline::"
DO = SP + "BezierSpline::<T>::do_approx"
APPROX = SP + "BezierSpline::<T>::approximate"
NEW = SP + "BezierSpline::<T>::new"
ADT = SP + "BezierSpline"


def s(t):
    return T.strip(t, sites=False, refs=True)



def do_approx_contract(rep, prog, do):
    """R-term / R-leaf / R-ends(bisection), decided on do_approx's behaviour rather than its shape: the body is interpreted over
    symbolic a, b with `eval`, `halt` and the recursive call as uninterpreted functions, once per scenario
    (budget == 0 | budget > 0) x (halt says yes | no). However the tests and the recursion are written (||, match, early return,
    a loop over the two halves), it must
      - with budget 0, or when halt accepts: push exactly eval(a) and not recurse;
      - otherwise: push nothing and call itself on [a, mid] then [mid, b], mid = (a + b) / 2, with budget - 1 and the same
        spline, criterion and accumulator;
      - ask halt about eval(mid) - (eval(a) + eval(b)) / 2."""
    from . import symalg as S, absint as A, constfold as CF
    cfg = prog.config
    half = Fraction(1, 2)

    def scenario(dep_zero, halt_val, fork_oracle=None):
        calls, halts, evals = [], [], []
        cell = A.Frame(None)
        cell.locals[0] = ("array", [])
        accum = ("ref", cell, 0, [])
        scell = A.Frame(None)
        scell.locals[0] = ("adt", ADT, "BezierSpline", [("symvec", "n")])
        selfref = ("ref", scell, 0, [])
        hcell = A.Frame(None)
        hcell.locals[0] = ("sym", "halt")
        haltref = ("ref", hcell, 0, [])

        def root(it, r):
            while isinstance(r, tuple) and r[0] == "ref" and isinstance(it.load_ref(r), tuple) and it.load_ref(r)[0] == "ref":
                r = it.load_ref(r)
            return (id(r[1]), r[2], tuple(map(str, r[3]))) if isinstance(r, tuple) and r[0] == "ref" else r

        def m_self(it, args, c, d):
            calls.append((root(it, args[0]), A.deref_all(it, args[1]), A.deref_all(it, args[2]), A.deref_all(it, args[3]),
                          root(it, args[4]), root(it, args[5]), len(cell.locals[0][1])))
            return ("tuple", [])

        def m_eval(it, args, c, d):
            t = A.deref_all(it, args[1])
            evals.append(t)
            return ("symop", "eval", t, None)

        def m_halt(it, args, c, d):
            tup = A.deref_all(it, args[1])
            halts.append(A.deref_all(it, tup[1][0]) if isinstance(tup, tuple) and tup[0] == "tuple" and tup[1] else tup)
            return int(halt_val)

        def orc(op, a, b):
            # budget > 0: comparisons of d against 0 (and the ones against 1 that follow from d >= 1) are decided
            for x, y, flip in ((a, b, False), (b, a, True)):
                if x == ("sym", "d") and isinstance(y, int) and y in (0, 1):
                    res = {"Eq": None if y == 1 else False, "Ne": None if y == 1 else True, "Lt": False, "Ge": True,
                           "Gt": True if y == 0 else None, "Le": False if y == 0 else None}
                    if flip:
                        res = {"Eq": res["Eq"], "Ne": res["Ne"], "Gt": res["Lt"], "Le": res["Ge"], "Lt": res["Gt"], "Ge": res["Le"]}
                    return res.get(op)
            return fork_oracle(op, a, b) if fork_oracle is not None else None
        models = dict(CF.MODELS)
        models.update({DO: m_self, "BezierSpline::<T>::eval": m_eval, "ops::function::Fn::call": m_halt})
        it = S.interp(prog, models=models, oracle=orc)
        panic = None
        try:
            it.call_body(do, [selfref, S.sym("a"), S.sym("b"), 0 if dep_zero else S.sym("d"), haltref, accum], env={"T": "f32"})
        except A.Panic as e:
            panic = str(e)
        return dict(calls=calls, halts=halts, evals=evals, pushed=list(cell.locals[0][1]), panic=panic,
                    roots=(root(it, selfref), root(it, haltref), root(it, accum)))

    def poly(v):
        try:
            return S.to_poly(v)
        except S.NotPolynomial:
            return None
    pa, pb_ = {("a",): Fraction(1)}, {("b",): Fraction(1)}
    pmid = {("a",): half, ("b",): half}
    state = {"ok": True, "n": 0}

    def bad(rule, key, msg):
        state["ok"] = False
        rep.violate(rule, key, do.where(), msg, config=cfg)

    def judge(r, tag, dep_zero, halt_val):
        if r["panic"]:
            bad("C17.R-term", "R-term|unguarded", "do_approx panics with %s (%s): the recursion is reachable with an exhausted budget" % (tag, r["panic"][:80]))
            return
        if dep_zero or halt_val:
            if r["calls"] and dep_zero:
                bad("C17.R-term", "R-term|unguarded", "recursive call is reachable with max_dep == 0 (%s): unbounded recursion / underflow" % tag)
            elif r["calls"]:
                bad("C17.R-leaf", "R-leaf|recurse-after-halt", "do_approx subdivides a piece that the caller's criterion accepted (%s)" % tag)
            if [poly(x) for x in r["pushed"]] != [poly(("symop", "eval", S.sym("a"), None))]:
                bad("C17.R-leaf", "R-leaf", "with %s do_approx pushes %s instead of exactly eval(a)" % (tag, [str(x)[:60] for x in r["pushed"]] or "nothing"))
        else:
            if r["pushed"]:
                bad("C17.R-leaf", "R-leaf", "a flattened piece can be emitted without having met the caller's criterion or the depth bound (%s: pushes %s)"
                    % (tag, [str(x)[:60] for x in r["pushed"]]))
            if not r["calls"]:
                if not r["pushed"]:
                    bad("C17.R-leaf", "R-leaf|dropped", "with %s do_approx neither emits the piece nor subdivides it" % tag)
            elif [(poly(c[1]), poly(c[2])) for c in r["calls"]] != [(pa, pmid), (pmid, pb_)]:
                bad("C17.R-ends", "R-ends|bisection", "with %s the recursive calls do not cover [a, mid] then [mid, b] with mid = (a + b) / 2 (intervals: %s)"
                    % (tag, [(str(c[1])[:40], str(c[2])[:40]) for c in r["calls"]]))
            for c in r["calls"]:
                if poly(c[3]) != {("d",): Fraction(1), (): Fraction(-1)}:
                    bad("C17.R-term", "R-term|not-decreasing", "recursive call does not pass max_dep - 1 (passes %s): no ranking function" % str(c[3])[:60])
                if (c[0], c[4], c[5]) != r["roots"]:
                    bad("C17.R-term", "R-term|other-state", "recursive call does not pass on the same spline, criterion and accumulator")
        if r["halts"] or (not dep_zero and not r["pushed"]):
            # whenever a piece is subdivided, and whenever halt is consulted at all, it is about this piece's flatness
            mids = [m for m in r["evals"] if poly(m) == pmid]
            want_h = None
            if mids:
                ends = P_add(poly(("symop", "eval", S.sym("a"), None)), poly(("symop", "eval", S.sym("b"), None)))
                want_h = P_add(poly(("symop", "eval", mids[0], None)), {k: -half * v for k, v in ends.items()})
            if not r["halts"] or want_h is None or any(poly(h) != want_h for h in r["halts"]):
                bad("C17.R-leaf", "R-leaf|criterion", "halt is not asked about eval(mid) - lerp(eval(a), eval(b), 0.5) (%s: %s)" % (tag, [str(h)[:80] for h in r["halts"]] or "not asked"))

    for dep_zero in (True, False):
        for halt_val in (True, False):
            try:
                # any further comparison (the budget against another constant, say) forks; a fork is judged when some budget 1..64 follows it
                paths = S.explore(lambda o: scenario(dep_zero, halt_val, o), max_paths=16)
            except A.Undecided as e:
                raise common.Infra("C17.R-term: do_approx could not be interpreted for budget %s, halt=%s (%s)" % ("0" if dep_zero else "> 0", halt_val, e))
            for trace, r in paths:
                wit = None
                if trace:
                    for dv in ([0] if dep_zero else range(1, 65)):
                        try:
                            if S.trace_holds(trace, {"d": float(dv), "a": 0.25, "b": 0.75, "n": 7.0}):
                                wit = dv
                                break
                        except S.NotNumeric:
                            break
                    if wit is None:
                        continue
                state["n"] += 1
                judge(r, "budget %s, halt says %s" % ("== 0" if dep_zero else ("> 0" if wit is None else "= %d" % wit), "yes" if halt_val else "no"), dep_zero, halt_val)
    ok_all, n_scn = state["ok"], state["n"]
    rep.inst("C17.R-term", "do_approx interpreted in %d scenarios (budget == 0 | > 0) x (halt yes | no): leaf pushes exactly eval(a) without recursing; otherwise "
             "recursion on [a,mid],[mid,b] with budget - 1, same state; halt sees eval(mid) - (eval(a)+eval(b))/2: %s" % (n_scn, ok_all), config=cfg)
    return ok_all


def approximate_scenarios(rep, prog, deep):
    """R-term / R-leaf / R-ends for `approximate()` as a whole, whatever drives the subdivision (recursion or an explicit stack):
    approximate() is interpreted on a four-point spline with `eval` uninterpreted and `halt` answering from a fixed subdivision
    tree; the points it returns must be eval(a) of the tree's leaves from left to right, followed by the last control point, and
    halt must be asked about eval(mid) - (eval(a) + eval(b)) / 2 of the node at hand. With `deep`, halt never accepts and the
    budget is 10 (ilog2 modelled as 0): exactly the 1024 pieces of depth 10 come out - the subdivision stops at the budget."""
    import re
    from . import symalg as S, absint as A
    cfg = prog.config
    ap = prog.body(APPROX)
    half = Fraction(1, 2)

    ilog_args, entries, depth_box = [], [], [10]

    def run(accept, ilog=0, npts=4, intercept=False):
        asked = []
        # the logarithm the budget is built from: the model's answer where the code calls ilog2, the real floor(log2(len)) where it
        # computes it another way (BITS - 1 - leading_zeros, a loop)
        depth_box[0] = 10 + npts.bit_length() - 1
        scell = A.Frame(None)
        scell.locals[0] = ("adt", ADT, "BezierSpline", [("array", [S.sym("p%d" % i) for i in range(npts)])])

        def m_ilog(it, args, c, d):
            ilog_args.append((npts, A.deref_all(it, args[0])))
            depth_box[0] = 10 + ilog
            return ilog

        def m_do(it, args, c, d):
            entries.append((depth_box[0], [A.deref_all(it, x) for x in args[1:4]]))
            return ("tuple", [])

        def m_eval(it, args, c, d):
            t = A.deref_all(it, args[1])
            if not (isinstance(t, tuple) and t[0] == "f"):
                raise A.Undecided("eval at a parameter that is not a constant (%r)" % (str(t)[:60],))
            return ("symop", "eval", t, None)

        def m_halt(it, args, c, d):
            tup = A.deref_all(it, args[1])
            arg = A.deref_all(it, tup[1][0]) if isinstance(tup, tuple) and tup[0] == "tuple" and tup[1] else tup
            try:
                p_ = S.to_poly(arg)
            except S.NotPolynomial:
                raise A.Undecided("halt is asked about something that is not a combination of curve points")
            node = {}
            for mono, cf in p_.items():
                m_ = re.match(r"^\?\('symop', 'eval', \('f', ([-+0-9.e]+)\), None\)$", mono[0]) if len(mono) == 1 else None
                if m_ is None:
                    raise A.Undecided("halt is asked about %s" % (str(arg)[:80],))
                node[float(m_.group(1))] = cf
            mids = [t for t, cf in node.items() if cf == 1]
            ends = sorted(t for t, cf in node.items() if cf == -half)
            ok = len(mids) == 1 and len(ends) == 2 and len(node) == 3 and ends[0] < mids[0] < ends[1] and ends[0] + ends[1] == 2 * mids[0]
            asked.append((tuple(ends), ok))
            if len(asked) > 2 ** (depth_box[0] + 1) + 200 or (len(ends) == 2 and ends[1] - ends[0] < 2.0 ** -(depth_box[0] + 1)):
                raise TooDeep()          # more pieces than exist down to depth 10, or a piece narrower than depth 10 allows
            return int(accept(mids[0] if mids else None, tuple(ends)))
        models = {"BezierSpline::<T>::eval": m_eval, "ops::function::Fn::call": m_halt, ">::ilog2": m_ilog}
        if intercept:
            models["BezierSpline::<T>::do_approx"] = m_do
        it = S.interp(prog, models=models)
        it.fuel = 20000000
        r = A.deref_all(it, it.call_body(ap, [("ref", scell, 0, []), ("sym", "HALT")], env={"T": "f32"}))
        if not (isinstance(r, tuple) and r[0] == "array"):
            raise A.Undecided("approximate() did not return a vector (%r)" % (str(r)[:60],))
        return [A.deref_all(it, x) for x in r[1]], asked

    class TooDeep(Exception):
        pass

    def ev(t):
        return ("symop", "eval", ("f", float(t)), None)
    scen = [("halt always accepts", lambda m, e: True, [ev(0.0)], [(0.0, 1.0)]),
            ("halt accepts [0, .5], [.5, .75] and [.75, 1] only", lambda m, e: e in ((0.0, 0.5), (0.5, 0.75), (0.75, 1.0)),
             [ev(0.0), ev(0.5), ev(0.75)], [(0.0, 1.0), (0.0, 0.5), (0.5, 1.0), (0.5, 0.75), (0.75, 1.0)])]
    ok_all = True
    for name, acc, leaves, nodes, npts in [x + (4,) for x in scen] + [scen[1] + (7,)]:
        try:
            out, asked = run(acc, npts=npts)
        except (A.Undecided, A.Panic) as e:
            raise common.Infra("C17.R-leaf: approximate() could not be interpreted in the scenario '%s' (%s)" % (name, e))
        want = leaves + [S.sym("p%d" % (npts - 1))]
        if out[:-1] == want[:-1] and out[-1:] != want[-1:]:
            ok_all = False
            rep.violate("C17.R-ends", "R-ends|last-point", ap.where(), "when %s, the polyline approximate() returns for a spline of %d control points ends with %s instead of the last "
                        "control point p%d" % (name, npts, str(out[-1])[:40] if out else "nothing", npts - 1), config=cfg)
        elif out != want:
            ok_all = False
            rep.violate("C17.R-leaf", "R-leaf|polyline", ap.where(), "when %s, approximate() returns %s instead of eval(a) of the accepted pieces from left to right followed by the last "
                        "control point (%s)" % (name, [str(x)[:40] for x in out][:6], [str(x)[:40] for x in want]), config=cfg)
        if [a_ for a_, _ok in asked] != nodes or not all(ok_ for _a, ok_ in asked):
            ok_all = False
            rep.violate("C17.R-leaf", "R-leaf|criterion", ap.where(), "when %s, halt is consulted about the pieces %s (expected %s, each as eval(mid) - (eval(a) + eval(b)) / 2)"
                        % (name, [a_ for a_, _ok in asked][:8], nodes), config=cfg)
    # the initial budget: 10 + ilog2(number of control points), over [0, 1]
    if any(True for _b, _t in ap.calls(lambda c: c["path"] == DO)):
        for ilog_ in (0, 3):
            try:
                run(lambda m, e: True, ilog=ilog_, npts=7, intercept=True)
            except (A.Undecided, A.Panic) as e:
                raise common.Infra("C17.R-term: approximate() could not be interpreted up to its do_approx call (%s)" % e)
        got = [(il, v) for il, v in entries]
        ok_ends = bool(got) and all(v[0] == ("f", 0.0) and v[1] == ("f", 1.0) for _il, v in got)
        ok_bud = bool(got) and all(v[2] == want_ for want_, v in got)
        rep.inst("C17.R-term", "approximate starts do_approx(0.0, 1.0, 10 + ilog2(len), ..): interval=%s budget=%s (expected %s, got %s)"
                 % (ok_ends, ok_bud, [w_ for w_, _v in got], [v[2] for _w, v in got]), config=cfg)
        if not ok_ends:
            ok_all = False
            rep.violate("C17.R-ends", "R-ends|interval", ap.where(), "approximate does not subdivide the whole parameter interval [0, 1] (%s)" % [str(v[:2])[:60] for _il, v in got][:1], config=cfg)
        if not ok_bud:
            ok_all = False
            rep.violate("C17.R-term", "R-term|budget", ap.where(), "initial depth budget is not 10 + ilog2(number of control points): expected %s, it is %s"
                        % ([w_ for w_, _v in got], [str(v[2])[:30] for _w, v in got]), config=cfg)
    bad_ilog = sorted({(n_, str(a_)[:30]) for n_, a_ in ilog_args if a_ != n_})
    rep.inst("C17.R-term", "ilog2 in approximate() is taken of the number of control points (%d evaluations): %s" % (len(ilog_args), not bad_ilog), config=cfg)
    if bad_ilog:
        ok_all = False
        rep.violate("C17.R-term", "R-term|budget", ap.where(), "the depth budget's logarithm is taken of %s for a spline of %d control points, not of their number" % (bad_ilog[0][1], bad_ilog[0][0]), config=cfg)
    n_deep = None
    if deep:
        try:
            out, asked = run(lambda m, e: False, ilog=0)
        except TooDeep:
            ok_all = False
            rep.violate("C17.R-term", "R-term|budget-exhaustion", ap.where(), "with a criterion that never accepts and a budget of %d, approximate() subdivides below that depth (a piece narrower than 2^-%d, or more "
                        "pieces than exist down to that depth): the subdivision does not stop at the depth budget" % (depth_box[0], depth_box[0]), config=cfg)
            out, asked = None, []
        except (A.Undecided, A.Panic) as e:
            raise common.Infra("C17.R-term: approximate() could not be interpreted with a criterion that never accepts (%s)" % e)
        if out is None:
            rep.inst("C17.R-leaf", "approximate() against fixed subdivision trees: budget exhaustion FAILED", config=cfg)
            return False
        n_deep = len(out)
        n_leaves = 2 ** depth_box[0]
        want = [ev(k / float(n_leaves)) for k in range(n_leaves)] + [S.sym("p3")]
        if out != want:
            ok_all = False
            rep.violate("C17.R-term", "R-term|budget-exhaustion", ap.where(), "with a criterion that never accepts and a budget of %d, approximate() returns %d points instead of the %d "
                        "pieces of that depth plus the last control point: the subdivision does not stop at (or does not reach) the depth budget" % (depth_box[0], len(out), n_leaves), config=cfg)
    rep.inst("C17.R-leaf", "approximate() interpreted against fixed subdivision trees (%d scenarios%s): returns eval(a) of the leaves left to right + last control point; "
             "halt sees eval(mid) - (eval(a)+eval(b))/2 of each node: %s" % (len(scen) + 1, "; never-accepting criterion: %d points" % n_deep if n_deep else "", ok_all), config=cfg)
    return ok_all


def P_add(a, b):
    from . import poly as PL
    return PL.padd(a, b)


def check_config(rep, prog):
    cfg = prog.config
    do = prog.body(DO)
    sl = T.Slicer(do)
    selfcalls = [(bi, t) for bi, t in do.calls(lambda c: c["path"] == DO)]
    recursive = bool(selfcalls)
    if not recursive:
        rep.notes.append("C17: do_approx does not call itself in this tree (the subdivision is driven by a loop): R-term / R-leaf / R-ends(bisection) are decided on "
                         "approximate() as a whole against fixed subdivision trees, including budget exhaustion")
    rep.guard(approximate_scenarios, rep, prog, not recursive or rep.tier == "thorough")
    # ---- R-term
    seen = CG.reachable(prog, [do])
    back = [p for p in seen if p != DO and any(True for _b, _t in prog.bodies[p].calls(lambda c: c["path"] == DO or c["path"] == APPROX))]
    rep.inst("C17.R-term", "bodies reachable from do_approx that call back into it (other than itself): %s" % back, config=cfg)
    if back:
        rep.violate("C17.R-term", "R-term|mutual", do.where(), "do_approx is part of a larger recursion cycle through %s" % back, config=cfg)
    if recursive:
        do_approx_contract(rep, prog, do)
    ap = prog.body(APPROX)
    rep.floor("C17.entry.%s" % cfg, len([1 for _b, _t in ap.calls(lambda c: c["path"] == DO)]), 1, "do_approx call in approximate")
    # step(): t <= 0 -> min, t >= 1 -> max (abstract interpretation over orderings)
    st = prog.body(SP + "step")
    table = {}
    bad = []
    for rel0, rel1, want in (("lt", "lt", "min"), ("eq", "lt", "min"), ("gt", "lt", "f"), ("gt", "eq", "max"), ("gt", "gt", "max")):
        def orc(op, a, b, rel0=rel0, rel1=rel1):
            tt = ("sym", "t")
            if a == tt and b == ("f", 0.0):
                r = rel0
            elif a == tt and b == ("f", 1.0):
                r = rel1
            elif b == tt and a == ("f", 0.0):
                r = {"lt": "gt", "eq": "eq", "gt": "lt"}[rel0]
            elif b == tt and a == ("f", 1.0):
                r = {"lt": "gt", "eq": "eq", "gt": "lt"}[rel1]
            else:
                return None
            return {"lt": {"Lt": 1, "Le": 1, "Gt": 0, "Ge": 0, "Eq": 0, "Ne": 1}, "eq": {"Lt": 0, "Le": 1, "Gt": 0, "Ge": 1, "Eq": 1, "Ne": 0},
                    "gt": {"Lt": 0, "Le": 0, "Gt": 1, "Ge": 1, "Eq": 0, "Ne": 1}}[r].get(op)
        it = A.Interp(prog, oracle=orc, models={"function::FnOnce::call_once": lambda it, args, c, d: ("sym", "f"),
                                                 "core::clone::Clone::clone": lambda it, args, c, d: A.deref_all(it, args[0])})
        cmin, cmax = A.Frame(None), A.Frame(None)
        cmin.locals[0] = ("sym", "min")
        cmax.locals[0] = ("sym", "max")
        try:
            r = it.call_body(st, [("sym", "t"), ("ref", cmin, 0, []), ("ref", cmax, 0, []), A.UNKNOWN])
        except (A.Undecided, A.Panic) as e:
            raise common.Infra("C17.R-ends: step() could not be evaluated abstractly (%s)" % e)
        got = r[1] if isinstance(r, tuple) and r[0] == "sym" else repr(r)
        table["t%s0,t%s1" % ({"lt": "<", "eq": "=", "gt": ">"}[rel0], {"lt": "<", "eq": "=", "gt": ">"}[rel1])] = got
        if got != want:
            bad.append((rel0, rel1, got, want))
    rep.inst("C17.R-ends", "step(t, min, max, f) over the orderings of t vs 0 and 1: %s" % table, config=cfg)
    for b_ in bad:
        rep.violate("C17.R-ends", "R-ends|step|%s%s" % (b_[0], b_[1]), st.where(), "step() returns %s where %s is required (t %s 0, t %s 1)" % (b_[2], b_[3], b_[0], b_[1]), config=cfg)
    # BezierSpline::eval itself, interpreted on a seven-point spline over the orderings of t against 0 and 1 (whether it goes through step(),
    # an if-chain or a match): t <= 0 returns the first control point verbatim, t >= 1 the last one
    from . import symalg as S2
    ev = prog.body(SP + "BezierSpline::<T>::eval")
    pts = [S2.sym("p%d" % i) for i in range(7)]
    bad_ev = []
    for rel0, rel1, want in (("lt", "lt", pts[0]), ("eq", "lt", pts[0]), ("gt", "eq", pts[6]), ("gt", "gt", pts[6])):
        tt = ("sym", "t")

        def orc2(op, a_, b_, rel0=rel0, rel1=rel1, tt=tt):
            for x, y, flip in ((a_, b_, False), (b_, a_, True)):
                if x == tt and y in (("f", 0.0), ("f", 1.0), 0, 1):
                    r_ = rel0 if y in (("f", 0.0), 0) else rel1
                    if flip:
                        r_ = {"lt": "gt", "eq": "eq", "gt": "lt"}[r_]
                    return {"lt": {"Lt": 1, "Le": 1, "Gt": 0, "Ge": 0, "Eq": 0, "Ne": 1}, "eq": {"Lt": 0, "Le": 1, "Gt": 0, "Ge": 1, "Eq": 1, "Ne": 0},
                            "gt": {"Lt": 0, "Le": 0, "Gt": 1, "Ge": 1, "Eq": 0, "Ne": 1}}[r_].get(op)
            return None
        scell = A.Frame(None)
        scell.locals[0] = ("adt", ADT, "BezierSpline", [("array", list(pts))])
        it2 = S2.interp(prog, oracle=orc2)
        try:
            got = A.deref_all(it2, it2.call_body(ev, [("ref", scell, 0, []), tt], env={"T": "f32"}))
        except (A.Undecided, A.Panic) as e:
            raise common.Infra("C17.R-ends: BezierSpline::eval could not be interpreted for t %s 0, t %s 1 (%s)" % (rel0, rel1, e))
        if got != want:
            bad_ev.append("t %s 0 and t %s 1: returns %s, not the %s control point" % ({"lt": "<", "eq": "=", "gt": ">"}[rel0], {"lt": "<", "eq": "=", "gt": ">"}[rel1], str(got)[:60],
                                                                                     "first" if want == pts[0] else "last"))
    rep.inst("C17.R-ends", "BezierSpline::eval(t) returns the first control point verbatim for t <= 0 and the last for t >= 1: %s" % (not bad_ev), config=cfg)
    if bad_ev:
        rep.violate("C17.R-ends", "R-ends|eval-endpoints", ev.where(), "BezierSpline::eval does not return the end control points verbatim at and beyond the ends (%s)" % bad_ev[0], config=cfg)

    # ---- E-exact: CubicBezier::eval / fast_eval return the end control points VERBATIM at and beyond the ends
    CB = SP + "CubicBezier"
    for fn in ("eval", "fast_eval"):
        body = prog.body(SP + "CubicBezier::<T>::" + fn)
        res = {}
        for rel0, rel1, want in (("lt", "lt", "p0"), ("eq", "lt", "p0"), ("gt", "eq", "p3"), ("gt", "gt", "p3")):
            def orc2(op, a, b, rel0=rel0, rel1=rel1):
                tt = ("sym", "t")
                if a == tt and b == ("f", 0.0):
                    r = rel0
                elif a == tt and b == ("f", 1.0):
                    r = rel1
                elif b == tt and a == ("f", 0.0):
                    r = {"lt": "gt", "eq": "eq", "gt": "lt"}[rel0]
                elif b == tt and a == ("f", 1.0):
                    r = {"lt": "gt", "eq": "eq", "gt": "lt"}[rel1]
                else:
                    return None
                return {"lt": {"Lt": 1, "Le": 1, "Gt": 0, "Ge": 0, "Eq": 0, "Ne": 1}, "eq": {"Lt": 0, "Le": 1, "Gt": 0, "Ge": 1, "Eq": 1, "Ne": 0},
                        "gt": {"Lt": 0, "Le": 0, "Gt": 1, "Ge": 1, "Eq": 0, "Ne": 1}}[r].get(op)
            it = A.Interp(prog, oracle=orc2, models={"core::clone::Clone::clone": lambda it, args, c, d: A.deref_all(it, args[0])})
            cell = A.Frame(None)
            cell.locals[0] = ("adt", CB, "CubicBezier", [("array", [("sym", "p%d" % i) for i in range(4)])])
            try:
                r = it.call_body(body, [("ref", cell, 0, []), ("sym", "t")])
                got = r[1] if isinstance(r, tuple) and r[0] == "sym" else "computed"
            except A.Undecided:
                got = "computed"
            except A.Panic as e:
                got = "panic"
            res["t%s0,t%s1" % ({"lt": "<", "eq": "=", "gt": ">"}[rel0], {"lt": "<", "eq": "=", "gt": ">"}[rel1])] = got
            if got != want:
                rep.violate("C17.E-exact", "E-exact|%s|%s" % (fn, want), body.where(),
                            "CubicBezier::%s does not return control point %s verbatim for t %s (it is %s): the curve's ends are no longer exact"
                            % (fn, want, "<= 0" if want == "p0" else ">= 1", got), config=cfg)
        rep.inst("C17.E-exact", "CubicBezier::%s at/beyond the ends returns the control point itself: %s" % (fn, res), config=cfg)

    # ---- R-ctor
    sites = []
    for b in prog.bodies.values():
        for cb, si, st_ in b.stmts():
            if st_["k"] == "Assign" and st_["rv"]["k"] == "Aggregate" and st_["rv"].get("adt") == ADT and "Clone>::clone" not in b.path:
                sites.append((b, cb, si))
    rep.floor("C17.R-ctor.%s" % cfg, len(sites), 1, "BezierSpline(..) construction sites")
    for b, cb, si in sites:
        if b.path != NEW:
            rep.violate("C17.R-ctor", "R-ctor|site|%s" % b.path, b.where(cb, si), "BezierSpline is constructed outside BezierSpline::new (length invariant unchecked)", config=cfg)
            continue
        nsl = T.Slicer(b)
        from . import panics as P
        conds = P.dominating_conditions(b, nsl, cb)
        ge4 = any(d[0] == "bin" and d[1] == "Ge" and tk and d[3] == ("const", "usize", 4) and T.contains(d[2], lambda q: q[0] == "un" and q[1] == "PtrMetadata" or (q[0] == "call" and "::len" in q[1])) for d, tk in conds)
        mod3 = any(d[0] == "bin" and d[1] == "Eq" and tk and d[3] == ("const", "usize", 1) and T.contains(d[2], lambda q: q[0] == "bin" and q[1] == "Rem" and q[3] == ("const", "usize", 3)) for d, tk in conds)
        rep.inst("C17.R-ctor", "BezierSpline::new constructs only after len >= 4 (%s) && len %% 3 == 1 (%s)" % (ge4, mod3), config=cfg)
        if not (ge4 and mod3):
            rep.violate("C17.R-ctor", "R-ctor|assert", b.where(cb, si), "BezierSpline::new no longer enforces len >= 4 && len % 3 == 1 before constructing", config=cfg)
    fr = prog.body(SP + "BezierSpline::<T>::from_rays")
    fsl = T.Slicer(fr)
    rt = s(fsl.local(0))
    ok_fr = rt[0] == "call" and rt[1] == NEW
    rep.inst("C17.R-ctor", "from_rays returns BezierSpline::new(..): %s" % ok_fr, config=cfg)
    if not ok_fr:
        rep.violate("C17.R-ctor", "R-ctor|from_rays", fr.where(), "from_rays does not return through BezierSpline::new", config=cfg)


def algebra_rules(rep, prog):
    """The algebraic clauses, decided as polynomial identities in t and the control points (scalars; the code is generic
    over Affine/Linear and is interpreted at T = f32):
      E-agree    for 0 < t < 1, eval (De Casteljau) = fast_eval (Horner) = the Bernstein form
                 sum C(3,k) t^k (1-t)^(3-k) p_k  (so the value is a convex combination: inside the bounding box)
      E-tangent  tangent(t) = d/dt of the Bernstein form
      S-seg      BezierSpline::segment(t): for every segment count 1..4 and every position of t (floor(t*n) = j for
                 j = 0..n-1, and t = 1 exactly) it returns control points 3i..3i+3 and a local parameter u with
                 i + u = t*n as an identity, i = j inside the curve and i = n-1, u = 1 at the end: the spline passes
                 through every third control point and joins are continuous
      S-out      BezierSpline::tangent(t) for t < 0 / t > 1 asks the first / last segment's cubic at a parameter <= 0 / >= 1 (end tangent)
      S-eval     BezierSpline::eval/tangent evaluate the cubic of exactly that segment at exactly that parameter"""
    from fractions import Fraction
    from . import symalg as S, poly as PL
    cfg = prog.config
    CB = SP + "CubicBezier"
    t = S.sym("t")

    def inside(op, a, b):
        if a == t and b == ("f", 0.0):
            return {"Le": False, "Lt": False, "Gt": True, "Ge": True, "Eq": False, "Ne": True}.get(op)
        if a == t and b == ("f", 1.0):
            return {"Le": True, "Lt": True, "Gt": False, "Ge": False, "Eq": False, "Ne": True}.get(op)
        return None

    def req(ok, rule, key, where, what):
        rep.inst("C17." + rule, "%s: %s" % (what, "holds" if ok else "FAILS"), config=cfg)
        if not ok:
            rep.violate("C17." + rule, "%s|%s" % (rule, key), where, "%s does not hold as a polynomial identity" % what, config=cfg)
    cb = ("adt", CB, "CubicBezier", [("array", [S.sym("p%d" % i) for i in range(4)])])
    polys = {}
    for fn in ("eval", "fast_eval", "tangent"):
        b = prog.body(SP + "CubicBezier::<T>::" + fn)
        it = S.interp(prog, oracle=inside, models={"$f32>::clamp": lambda it_, args, c, d: A.deref_all(it_, args[0])})   # clamp is the identity inside (0, 1)
        try:
            polys[fn] = S.to_poly(A.deref_all(it, it.call_body(b, [S.ref_to(A.copy_val(cb)), t], env={"T": "f32"})))
        except (A.Undecided, A.Panic, S.NotPolynomial) as e:
            raise common.Infra("C17.E-agree: CubicBezier::%s could not be evaluated symbolically (%s)" % (fn, e))
    T1 = {("t",): Fraction(1)}
    U1 = {(): Fraction(1), ("t",): Fraction(-1)}

    def ppow(p_, n):
        r = {(): Fraction(1)}
        for _ in range(n):
            r = PL.pmul(r, p_)
        return r
    bern = {}
    for k, c in enumerate((1, 3, 3, 1)):
        bern = PL.padd(bern, PL.pmul({("p%d" % k,): Fraction(c)}, PL.pmul(ppow(T1, k), ppow(U1, 3 - k))))
    deriv = {}
    for mono, c in bern.items():
        n = mono.count("t")
        if n:
            lst = list(mono)
            lst.remove("t")
            deriv = PL.padd(deriv, {tuple(lst): c * n})
    eb = prog.body(SP + "CubicBezier::<T>::eval")
    req(polys["eval"] == bern, "E-agree", "eval", eb.where(), "CubicBezier::eval(t) = sum C(3,k) t^k (1-t)^(3-k) p_k for 0 < t < 1")
    req(polys["fast_eval"] == bern, "E-agree", "fast_eval", prog.body(SP + "CubicBezier::<T>::fast_eval").where(), "CubicBezier::fast_eval(t) = the Bernstein form = eval(t) for 0 < t < 1")
    req(polys["tangent"] == deriv, "E-tangent", "tangent", prog.body(SP + "CubicBezier::<T>::tangent").where(), "CubicBezier::tangent(t) = d/dt of the Bernstein form")
    # beyond the ends the cubic's tangent is the end tangent ("clamps t to [0, 1]"): 3 (p1 - p0) for t < 0, 3 (p3 - p2) for t > 1
    tb = prog.body(SP + "CubicBezier::<T>::tangent")
    for side, want in (("t < 0", {("p1",): Fraction(3), ("p0",): Fraction(-3)}), ("t > 1", {("p3",): Fraction(3), ("p2",): Fraction(-3)})):
        lo = side == "t < 0"

        def orc_out(op, a_, b_, lo=lo):
            if a_ == t and b_ in (("f", 0.0), ("f", 1.0)):
                return {"Le": lo, "Lt": lo, "Gt": not lo, "Ge": not lo, "Eq": False, "Ne": True}.get(op)
            return None
        cl_out = lambda it_, args, c, d, lo=lo: (A.deref_all(it_, args[1]) if lo else A.deref_all(it_, args[2])) if A.deref_all(it_, args[0]) == t else NotImplemented  # noqa: E731
        it = S.interp(prog, oracle=orc_out, models={"$f32>::clamp": cl_out})
        try:
            got = S.to_poly(A.deref_all(it, it.call_body(tb, [S.ref_to(A.copy_val(cb)), t], env={"T": "f32"})))
        except (A.Undecided, A.Panic, S.NotPolynomial) as e:
            raise common.Infra("C17.E-tangent: CubicBezier::tangent could not be evaluated for %s (%s)" % (side, e))
        req(got == want, "E-tangent", "tangent-" + ("below" if lo else "above"), tb.where(), "CubicBezier::tangent(t) = the tangent at the %s end for %s" % ("first" if lo else "last", side))
    # ---- spline
    seg_b = prog.body(SP + "BezierSpline::<T>::segment")
    n_scen = 0
    for segs in (1, 2, 3, 4):
        npts = 3 * segs + 1
        for j in range(segs + 1):
            at_end = (j == segs)
            tv = ("f", 1.0) if at_end else t
            sp = ("adt", ADT, "BezierSpline", [("array", [S.sym("p%d" % i) for i in range(npts)])])
            fl = lambda it_, args, c, d, j=j: ("f", float(j))  # noqa: E731
            pos = lambda op, a_, b_, j=j, segs=segs: inside(op, a_, b_)  # noqa: E731  (t strictly inside (0, 1) unless it is the constant 1)
            it = S.interp(prog, oracle=pos, models={"$f32>::floor": fl, "$::floorf": fl, "$float::mm::floor": fl, "$float::fallback::floor": fl, "$float::libm::floor": fl})
            it.float_to_int = lambda v, to, j=j: j if not (isinstance(v, tuple) and v[0] == "f") else None
            try:
                r = A.deref_all(it, it.call_body(seg_b, [S.ref_to(sp), tv], env={"T": "f32"}))
                u, pts = A.deref_all(it, r[1][0]), A.deref_all(it, r[1][1])
                while isinstance(pts, tuple) and pts[0] == "adt" and len(pts[3]) == 1:
                    pts = A.deref_all(it, pts[3][0])          # the four points already wrapped in a CubicBezier
                names = [A.deref_all(it, p_)[1] for p_ in pts[1]]

                def unrem(v):
                    """x % m with x/m = t*n is x - floor(t*n)*m = x - j*m in this scenario (real arithmetic)"""
                    if not (isinstance(v, tuple) and v[0] == "symop"):
                        return v
                    if v[1] == "Rem":
                        x_, m_ = unrem(v[2]), unrem(v[3])
                        rx, rm = S.to_ratio(x_), S.to_ratio(m_)
                        tn_ = ({(): Fraction(segs)} if at_end else {("t",): Fraction(segs)}, {(): Fraction(1)})
                        if S.ratio_eq((PL.pmul(rx[0], rm[1]), PL.pmul(rx[1], rm[0])), tn_):
                            return ("symop", "Sub", x_, ("symop", "Mul", ("f", float(j)), m_))
                        return v
                    return (v[0], v[1]) + tuple(unrem(x_) if isinstance(x_, tuple) else x_ for x_ in v[2:])
                n_, d_ = S.to_ratio(unrem(u))
                if set(d_) != {()}:
                    raise S.NotPolynomial("local parameter is a genuine rational function")
                up = {m_: c_ / d_[()] for m_, c_ in n_.items()}
                if any(sy.startswith("?") for m_ in up for sy in m_):
                    raise S.NotPolynomial("local parameter contains an operation outside the ring domain: %s" % [m_ for m_ in up if any(sy.startswith("?") for sy in m_)][:1])
            except (A.Undecided, A.Panic, S.NotPolynomial, IndexError, TypeError) as e:
                raise common.Infra("C17.S-seg: BezierSpline::segment could not be evaluated for %d segments, floor(t*n) = %d (%s)" % (segs, j, e))
            n_scen += 1
            i_want = min(j, segs - 1)
            ok_pts = names == ["p%d" % (3 * i_want + k) for k in range(4)]
            tn = {(): Fraction(segs)} if at_end else {("t",): Fraction(segs)}
            ok_u = PL.padd(up, {(): Fraction(i_want)}) == tn
            what = "%d segment(s), %s" % (segs, "t = 1" if at_end else "floor(t*n) = %d" % j)
            rep.inst("C17.S-seg", "segment(): %s -> points %s, local parameter %s: %s" % (what, names, up, "consistent" if ok_pts and ok_u else "INCONSISTENT"), config=cfg)
            if not ok_pts:
                rep.violate("C17.S-seg", "S-seg|points", seg_b.where(), "BezierSpline::segment with %s returns control points %s instead of p%d..p%d" % (what, names, 3 * i_want, 3 * i_want + 3), config=cfg)
            if not ok_u:
                rep.violate("C17.S-seg", "S-seg|parameter", seg_b.where(),
                            "BezierSpline::segment with %s returns the local parameter %s for segment %d: segment index + local parameter must equal t*n "
                            "(the curve would jump or stall at that position)" % (what, up, i_want), config=cfg)
    rep.floor("C17.S-seg.%s" % cfg, n_scen, 14, "segment() scenarios")
    # ---- S-out: BezierSpline::tangent beyond the ends ("clamps t to [0, 1]"; the property quantifies over t < 0 and t > 1): interpreted with
    # t < 0 (floor(t*n) = -1) resp. t > 1 (floor(t*n) = n), CubicBezier::tangent uninterpreted: it must be asked for the FIRST segment at a
    # parameter <= 0 resp. the LAST segment at a parameter >= 1 (where the cubic's own clamp pins it to the end tangent)
    tg_b = prog.body(SP + "BezierSpline::<T>::tangent")
    for segs in (1, 2, 3):
        npts = 3 * segs + 1
        for side, j in (("t < 0", -1), ("t > 1", segs)):
            sp = ("adt", ADT, "BezierSpline", [("array", [S.sym("p%d" % i) for i in range(npts)])])
            asked = []

            def m_ctan(it_, args, c, d):
                cbv = A.deref_all(it_, args[0])
                pts_ = cbv
                while isinstance(pts_, tuple) and pts_[0] == "adt" and len(pts_[3]) == 1:
                    pts_ = A.deref_all(it_, pts_[3][0])
                asked.append(([A.deref_all(it_, p_) for p_ in pts_[1]], A.deref_all(it_, args[1])))
                return ("sym", "TANGENT")

            def orc(op, a_, b_, side=side):
                lo = side == "t < 0"
                if a_ == t and b_ == ("f", 0.0):
                    return {"Le": lo, "Lt": lo, "Gt": not lo, "Ge": not lo, "Eq": False, "Ne": True}.get(op)
                if a_ == t and b_ == ("f", 1.0):
                    return {"Le": lo, "Lt": lo, "Gt": not lo, "Ge": not lo, "Eq": False, "Ne": True}.get(op)
                return None
            fl = lambda it_, args, c, d, j=j: ("f", float(j))  # noqa: E731
            cl = lambda it_, args, c, d, side=side: (A.deref_all(it_, args[1]) if side == "t < 0" else A.deref_all(it_, args[2])) if A.deref_all(it_, args[0]) == t else NotImplemented  # noqa: E731
            it = S.interp(prog, oracle=orc, models={"$f32>::floor": fl, "$::floorf": fl, "$float::mm::floor": fl, "$float::fallback::floor": fl, "$float::libm::floor": fl,
                                                    "CubicBezier::<T>::tangent": m_ctan, "$f32>::clamp": cl})
            it.float_to_int = lambda v, to, j=j: (max(j, 0) if to.startswith("u") else j) if not (isinstance(v, tuple) and v[0] == "f") else None
            try:
                it.call_body(tg_b, [S.ref_to(sp), t], env={"T": "f32"})
            except (A.Undecided, A.Panic, IndexError, TypeError) as e:
                raise common.Infra("C17.S-out: BezierSpline::tangent could not be interpreted for %d segment(s), %s (%s)" % (segs, side, e))
            what = "%d segment(s), %s" % (segs, side)
            if len(asked) != 1:
                rep.inst("C17.S-out", "tangent(): %s -> CubicBezier::tangent asked %d times: not decided" % (what, len(asked)), config=cfg)
                continue
            pts_, u_ = asked[0]
            names = [p_[1] if isinstance(p_, tuple) and p_[0] == "sym" else "?" for p_ in pts_]
            i_want = 0 if side == "t < 0" else segs - 1
            ok_pts = names == ["p%d" % (3 * i_want + k) for k in range(4)]
            vals = []
            try:
                for fr_ in (0.01, 0.5, 0.99):
                    tv_ = (j + fr_) / segs           # floor(t*n) = j
                    vals.append(S.num_eval(u_, {"t": tv_}) if not isinstance(u_, (int, float)) else float(u_))
            except (S.NotNumeric, KeyError, TypeError, ZeroDivisionError) as e:
                raise common.Infra("C17.S-out: the parameter handed to CubicBezier::tangent for %s is not a function of t (%s)" % (what, e))
            ok_u = all(v <= 1e-9 for v in vals) if side == "t < 0" else all(v >= 1.0 - 1e-9 for v in vals)
            rep.inst("C17.S-out", "tangent(): %s -> cubic of points %s at a parameter %s (samples %s): %s"
                     % (what, names, "<= 0" if side == "t < 0" else ">= 1", [round(v, 3) for v in vals], "end tangent" if ok_pts and ok_u else "NOT the end tangent"), config=cfg)
            if not (ok_pts and ok_u):
                rep.violate("C17.S-out", "S-out|%s" % ("below" if side == "t < 0" else "above"), tg_b.where(),
                            "BezierSpline::tangent(t) with %s evaluates the cubic of %s at parameter values %s: beyond the ends it must give the tangent at the end "
                            "(first segment at a parameter <= 0, last segment at a parameter >= 1)" % (what, names, [round(v, 3) for v in vals]), config=cfg)
    # S-eval: eval = CubicBezier(segment(t).1).fast_eval(segment(t).0) / tangent likewise (provenance)
    for fn, inner in (("eval", ("fast_eval", "eval")), ("tangent", ("tangent",))):
        b = prog.body(SP + "BezierSpline::<T>::" + fn)
        ok = False
        for fb in prog.family(b.path):
            sl = T.Slicer(fb)
            for bi, tcall in fb.calls(lambda c: any(c["path"].endswith("CubicBezier::<T>::" + x) for x in inner)):
                recv = T.strip(sl.operand(tcall["args"][0]), sites=True, refs=True)
                par = T.strip(sl.operand(tcall["args"][1]), sites=True, refs=True)
                from_seg = lambda q: T.contains(q, lambda r_: r_[0] == "call" and r_[1].split(" => ")[0].endswith("BezierSpline::<T>::segment"))  # noqa: E731
                f_recv, f_par = T.fields_in(recv), T.fields_in(par)
                ok = from_seg(recv) and from_seg(par) and "1" in [f.rsplit(".", 1)[-1] for f in f_recv] and "0" in [f.rsplit(".", 1)[-1] for f in f_par]
        req(ok, "S-eval", fn, b.where(), "BezierSpline::%s evaluates CubicBezier(segment(t).1) at segment(t).0" % fn)


def check(rep, args):
    configs = ["ws"] if rep.tier == "quick" else common.ALL_CONFIGS
    rep.configs = configs
    for cfg in configs:
        rep.guard(check_config, rep, facts.program(cfg))
        rep.guard(algebra_rules, rep, facts.program(cfg))
    cov = {
        "explanation": "ranking argument for do_approx by interpretation in (budget x halt) scenarios and of approximate() on fixed subdivision trees "
                       "(recursive or explicit-stack form alike), sole-cycle rule, constructor invariant, abstract interpretation of step() over orderings, "
                       "polynomial identities for the evaluators and segment()",
        "evaluations": len(rep.instances),
        "distinct_nontrivial": len({i["what"] for i in rep.instances}),
        "rules": ["R-term", "R-ctor", "R-leaf", "R-ends", "E-exact", "E-agree", "E-tangent", "S-seg", "S-out", "S-eval"],
    }
    return "other", cov, ["the caller's `halt` closure terminates", "identities hold over the reals: float rounding of the evaluators and of t*n at joins is not decided"]
