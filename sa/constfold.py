"""Constant propagation through input-free builder functions (the platonic build() recipes of C15.T2).

The abstract domain is the flat constant lattice of sa/absint.py over the MIR facts: every operand of these functions is a literal,
a constant table or a value computed from those, so the fixed point is a single constant store. This module only adds the transfer
functions (models) for the std items such a recipe may use: Vec construction/growth, iterator adaptors, f32 intrinsics. It is the
general replacement for the two-loop recipe reconstruction in rules_C15.build_mesh, which it backs up whenever the recipe has another
shape (helpers, iterator chains, push_faces/push_verts).
"""
import math

from . import absint as A, symalg as S


def _f(it, v):
    v = A.deref_all(it, v)
    if isinstance(v, tuple) and v[0] == "f":
        return float(v[1])
    if isinstance(v, int):
        return float(v)
    try:
        return float(S.num_eval(v, {}))
    except Exception:
        raise A.Undecided("not a float constant: %r" % (v,))


def _f1(fn):
    def m(it, args, callee, depth):
        return ("f", fn(*[_f(it, a) for a in args]))
    return m


def _root_ref(it, r):
    while isinstance(r, tuple) and r[0] == "ref" and isinstance(it.load_ref(r), tuple) and it.load_ref(r)[0] == "ref":
        r = it.load_ref(r)
    if not (isinstance(r, tuple) and r[0] == "ref"):
        raise A.Undecided("mutation through %r" % (r,))
    return r


def _vec(it, r):
    v = it.load_ref(r)
    if v == A.UNKNOWN or v is None:
        return []
    if isinstance(v, tuple) and v[0] == "array":
        return list(v[1])
    raise A.Undecided("Vec operation on %r" % (v,))


def m_vec_new(it, args, callee, depth):
    return ("array", [])


def m_vec_push(it, args, callee, depth):
    r = _root_ref(it, args[0])
    it._store(r[1], r[2], list(r[3]), ("array", _vec(it, r) + [args[1]]))
    return ("tuple", [])


def m_vec_extend(it, args, callee, depth):
    r = _root_ref(it, args[0])
    items = S._drain(S.as_iter(it, args[1]), it, depth)
    it._store(r[1], r[2], list(r[3]), ("array", _vec(it, r) + items))
    return ("tuple", [])


def m_vec_append(it, args, callee, depth):
    r = _root_ref(it, args[0])
    o = _root_ref(it, args[1])
    it._store(r[1], r[2], list(r[3]), ("array", _vec(it, r) + _vec(it, o)))
    it._store(o[1], o[2], list(o[3]), ("array", []))
    return ("tuple", [])


class FlatMapIt(S.It):
    def __init__(self, a, f):
        self.a, self.f, self.cur = a, f, None

    def next(self, it, depth):
        while True:
            if self.cur is not None:
                x = self.cur.next(it, depth)
                if x is not None:
                    return x
                self.cur = None
            o = self.a.next(it, depth)
            if o is None:
                return None
            self.cur = S.as_iter(it, it.invoke(self.f, [o], depth) if self.f is not None else o)


def m_flat_map(it, args, callee, depth):
    return ("iter", FlatMapIt(S.as_iter(it, args[0]), args[1]))


def m_flatten(it, args, callee, depth):
    return ("iter", FlatMapIt(S.as_iter(it, args[0]), None))


def m_zip_fn(it, args, callee, depth):
    return ("iter", S.ZipIt(S.as_iter(it, args[0]), S.as_iter(it, args[1])))


class CopiedIt(S.It):
    def __init__(self, a):
        self.a = a

    def next(self, it, depth):
        x = self.a.next(it, depth)
        return None if x is None else A.copy_val(A.deref_all(it, x))


def m_copied(it, args, callee, depth):
    return ("iter", CopiedIt(S.as_iter(it, args[0])))


MODELS = {
    "alloc::vec::Vec::<T>::new": m_vec_new,
    "alloc::vec::Vec::<T>::with_capacity": m_vec_new,
    "alloc::vec::Vec::<T, A>::push": m_vec_push,
    "alloc::vec::Vec::<T, A>::append": m_vec_append,
    "core::iter::traits::collect::Extend::extend": m_vec_extend,
    "Iterator::flat_map": m_flat_map,
    "Iterator::flatten": m_flatten,
    "Iterator::copied": m_copied,
    "Iterator::cloned": m_copied,
    "$core::iter::zip": m_zip_fn,
    "$iter::adapters::zip::zip": m_zip_fn,
    "f32>::sqrt": _f1(math.sqrt),
    "f32>::sin": _f1(math.sin),
    "f32>::cos": _f1(math.cos),
    "f32>::abs": _f1(abs),
    "f32>::recip": _f1(lambda x: 1.0 / x),
    "f32>::powf": _f1(lambda x, y: x ** y),
    "f32>::powi": _f1(lambda x, n: x ** int(n)),
    "f32>::mul_add": _f1(lambda a, b, c: a * b + c),
}


def m_tuple_ctor(path):
    def m(it, args, callee, depth):
        return ("adt", path, path.split("::")[-1], list(args))
    return m


def const_oracle(op, a, b):
    """comparisons between folded constants"""
    try:
        x, y = S.num_eval(a, {}), S.num_eval(b, {})
    except Exception:
        return None
    return {"Lt": x < y, "Le": x <= y, "Gt": x > y, "Ge": x >= y, "Eq": x == y, "Ne": x != y}.get(op)


def interp(prog, models=None):
    m = dict(MODELS)
    # tuple-struct constructors used as functions (`.map(Tri)`)
    for path, adt in prog.adts.items():
        vs = adt.get("variants") or []
        if adt.get("kind") == "Struct" and len(vs) == 1 and vs[0].get("fields") and all(f.isdigit() for f in vs[0]["fields"]):
            m["$" + path] = m_tuple_ctor(path)
    m.update(models or {})
    return S.interp(prog, models=m, oracle=const_oracle)


def as_float(it, v):
    return _f(it, v)


def floats_of(it, v):
    """flatten a Vector/Point/array/tuple constant to a list of floats"""
    v = A.deref_all(it, v)
    if isinstance(v, tuple) and v[0] == "adt" and v[3]:
        return floats_of(it, v[3][0])
    if isinstance(v, tuple) and v[0] in ("array", "tuple"):
        out = []
        for x in v[1]:
            out += floats_of(it, x)
        return out
    return [_f(it, v)]
