"""Constant propagation through input-free builder functions (the platonic build() recipes of C15.T2).

The abstract domain is the flat constant lattice of sa/absint.py over the MIR facts: every operand of these functions is a literal,
a constant table or a value computed from those, so the fixed point is a single constant store. This module only adds the transfer
functions (models) for the std items such a recipe may use: Vec construction/growth, iterator adaptors, f32 intrinsics. It is the
general replacement for the two-loop recipe reconstruction in rules_C15.build_mesh, which it backs up whenever the recipe has another
shape (helpers, iterator chains, push_faces/push_verts).
"""
import math

from . import absint as A, symalg as S


def _f(it, v):
    v = A.deref_all(it, v)
    if isinstance(v, tuple) and v[0] == "f":
        return float(v[1])
    if isinstance(v, int):
        return float(v)
    try:
        return float(S.num_eval(v, {}))
    except Exception:
        raise A.Undecided("not a float constant: %r" % (v,))


def _f1(fn):
    def m(it, args, callee, depth):
        try:
            return ("f", fn(*[_f(it, a) for a in args]))
        except A.Undecided:
            return NotImplemented            # symbolic argument: leave it to the ring domain's own model
    return m


def _root_ref(it, r):
    while isinstance(r, tuple) and r[0] == "ref" and isinstance(it.load_ref(r), tuple) and it.load_ref(r)[0] == "ref":
        r = it.load_ref(r)
    if not (isinstance(r, tuple) and r[0] == "ref"):
        raise A.Undecided("mutation through %r" % (r,))
    return r


def _vec(it, r):
    v = it.load_ref(r)
    if v == A.UNKNOWN or v is None:
        return []
    if isinstance(v, tuple) and v[0] == "array":
        return list(v[1])
    raise A.Undecided("Vec operation on %r" % (v,))


def m_vec_new(it, args, callee, depth):
    return ("array", [])


def m_vec_push(it, args, callee, depth):
    r = _root_ref(it, args[0])
    it._store(r[1], r[2], list(r[3]), ("array", _vec(it, r) + [args[1]]))
    return ("tuple", [])


def m_vec_extend(it, args, callee, depth):
    r = _root_ref(it, args[0])
    items = S._drain(S.as_iter(it, args[1]), it, depth)
    it._store(r[1], r[2], list(r[3]), ("array", _vec(it, r) + items))
    return ("tuple", [])


def m_vec_append(it, args, callee, depth):
    r = _root_ref(it, args[0])
    o = _root_ref(it, args[1])
    it._store(r[1], r[2], list(r[3]), ("array", _vec(it, r) + _vec(it, o)))
    it._store(o[1], o[2], list(o[3]), ("array", []))
    return ("tuple", [])


def _seq(it, v):
    """the element list behind a (reference to a) Vec / slice / array / window"""
    v = A.deref_all(it, v)
    if isinstance(v, tuple) and v[0] == "array":
        return v
    if v == A.UNKNOWN or v is None:
        return None
    raise A.Undecided("sequence operation on %r" % (v,))


def m_from_elem(it, args, callee, depth):
    """vec![x; n]"""
    n = A.deref_all(it, args[1])
    if not isinstance(n, int) or isinstance(n, bool) or n > 100000:
        return NotImplemented
    return ("array", [A.copy_val(A.deref_all(it, args[0])) for _ in range(n)])


def m_copy_from_slice(it, args, callee, depth):
    """dst.copy_from_slice(src): element-wise store through the destination (a window writes through to its parent); lengths must agree"""
    dst, src = args[0], _seq(it, args[1])
    dv = _seq(it, dst)
    if dv is None or src is None:
        return NotImplemented
    if len(dv[1]) != len(src[1]):
        raise A.Panic("copy_from_slice: source slice length (%d) does not match destination slice length (%d)" % (len(src[1]), len(dv[1])))
    r = dst
    while isinstance(r, tuple) and r[0] == "ref" and isinstance(it.load_ref(r), tuple) and it.load_ref(r)[0] == "ref":
        r = it.load_ref(r)
    for i, x in enumerate(src[1]):
        val = A.copy_val(A.deref_all(it, x))
        tgt = dv[1][i]
        if len(dv) > 2 and dv[2] == "window" and isinstance(tgt, tuple) and tgt[0] == "ref":
            it._store(tgt[1], tgt[2], list(tgt[3]), val)
        else:
            it._store(r[1], r[2], list(r[3]) + [{"ci": i, "ml": 0, "fe": False}], val)
    return ("tuple", [])


def m_vec_is_empty(it, args, callee, depth):
    v = _seq(it, args[0])
    return NotImplemented if v is None else int(len(v[1]) == 0)


def m_vec_clear(it, args, callee, depth):
    r = _root_ref(it, args[0])
    it._store(r[1], r[2], list(r[3]), ("array", []))
    return ("tuple", [])


def m_vec_truncate(it, args, callee, depth):
    r = _root_ref(it, args[0])
    n = A.deref_all(it, args[1])
    if not isinstance(n, int):
        raise A.Undecided("truncate to %r" % (n,))
    it._store(r[1], r[2], list(r[3]), ("array", _vec(it, r)[:n]))
    return ("tuple", [])


def m_vec_pop(it, args, callee, depth):
    r = _root_ref(it, args[0])
    v = _vec(it, r)
    if not v:
        return A.NONE
    it._store(r[1], r[2], list(r[3]), ("array", v[:-1]))
    return A.some(v[-1])


def m_vec_drain(it, args, callee, depth):
    r = _root_ref(it, args[0])
    v = _vec(it, r)
    rg = A.deref_all(it, args[1])
    lo, hi = 0, len(v)
    if isinstance(rg, tuple) and rg[0] == "adt" and "ops::range::Range" in rg[1]:
        kind = rg[1].rsplit("::", 1)[-1]
        if kind == "Range":
            lo, hi = rg[3][0], rg[3][1]
        elif kind == "RangeFrom":
            lo = rg[3][0]
        elif kind == "RangeTo":
            hi = rg[3][0]
        elif kind != "RangeFull":
            raise A.Undecided("drain(%s)" % kind)
    if not (isinstance(lo, int) and isinstance(hi, int)):
        raise A.Undecided("drain with undecided bounds")
    if lo > hi or hi > len(v):
        raise A.Panic("drain range out of bounds")
    it._store(r[1], r[2], list(r[3]), ("array", v[:lo] + v[hi:]))
    return ("iter", S.ListIt(v[lo:hi]))


def m_slice_first_last(which):
    def f(it, args, callee, depth):
        r = args[0]
        while isinstance(r, tuple) and r[0] == "ref" and isinstance(it.load_ref(r), tuple) and it.load_ref(r)[0] == "ref":
            r = it.load_ref(r)
        v = _seq(it, r)
        if v is None:
            return NotImplemented
        n = len(v[1])
        if which in ("first", "last"):
            if n == 0:
                return A.NONE
            i = 0 if which == "first" else n - 1
            return A.some(_elem_ref(it, r, v, i))
        if which in ("split_first", "split_last"):
            if n == 0:
                return A.NONE
            rest = A.Frame(None)
            idx = list(range(1, n)) if which == "split_first" else list(range(0, n - 1))
            rest.locals[0] = ("array", [_elem_ref(it, r, v, i) for i in idx], "window")
            return A.some(("tuple", [_elem_ref(it, r, v, 0 if which == "split_first" else n - 1), ("ref", rest, 0, [])]))
        return NotImplemented
    return f


def m_slice_get(it, args, callee, depth):
    r = args[0]
    while isinstance(r, tuple) and r[0] == "ref" and isinstance(it.load_ref(r), tuple) and it.load_ref(r)[0] == "ref":
        r = it.load_ref(r)
    v = _seq(it, r)
    i = A.deref_all(it, args[1])
    if v is None or not isinstance(i, int):
        return NotImplemented
    return A.some(_elem_ref(it, r, v, i)) if 0 <= i < len(v[1]) else A.NONE


def _elem_ref(it, r, v, i):
    if len(v) > 2 and v[2] == "window":
        return v[1][i]
    return ("ref", r[1], r[2], list(r[3]) + [{"ci": i, "ml": 0, "fe": False}])


class WindowsIt(S.It):
    def __init__(self, refs, n, step, partial=False):
        self.refs, self.n, self.step, self.pos, self.partial = refs, n, step, 0, partial

    def next(self, it, depth):
        if self.pos + self.n > len(self.refs) and not (self.partial and self.pos < len(self.refs)):
            return None           # (`chunks` ends with the shorter remainder, `chunks_exact` / `windows` do not)
        cell = A.Frame(None)
        cell.locals[0] = ("array", self.refs[self.pos:self.pos + self.n], "window")
        self.pos += self.step
        return ("ref", cell, 0, [])


def m_windows(chunks, partial=False):
    def f(it, args, callee, depth):
        r = args[0]
        while isinstance(r, tuple) and r[0] == "ref" and isinstance(it.load_ref(r), tuple) and it.load_ref(r)[0] == "ref":
            r = it.load_ref(r)
        v = _seq(it, r)
        n = A.deref_all(it, args[1])
        if v is None or not isinstance(n, int):
            return NotImplemented
        if n == 0:
            raise A.Panic("window/chunk size 0")
        refs = [_elem_ref(it, r, v, i) for i in range(len(v[1]))]
        return ("iter", WindowsIt(refs, n, n if chunks else 1, partial))
    return f


class FilterIt(S.It):
    def __init__(self, a, f):
        self.a, self.f = a, f

    def next(self, it, depth):
        while True:
            x = self.a.next(it, depth)
            if x is None:
                return None
            cell = A.Frame(None)
            cell.locals[0] = x
            keep = A.deref_all(it, it.invoke(self.f, [("ref", cell, 0, [])], depth))
            if not isinstance(keep, int):
                raise A.Undecided("filter predicate returned an undecided value %r" % (str(keep)[:60],))
            if keep:
                return cell.locals[0]


def m_filter(it, args, callee, depth):
    return ("iter", FilterIt(S.as_iter(it, args[0]), args[1]))


class FilterMapIt(S.It):
    def __init__(self, a, f):
        self.a, self.f = a, f

    def next(self, it, depth):
        while True:
            x = self.a.next(it, depth)
            if x is None:
                return None
            o = A.deref_all(it, it.invoke(self.f, [x], depth))
            if not (isinstance(o, tuple) and o[0] == "adt" and o[2] in ("Some", "None")):
                raise A.Undecided("filter_map closure returned %r" % (str(o)[:60],))
            if o[2] == "Some":
                return o[3][0]


def m_filter_map(it, args, callee, depth):
    return ("iter", FilterMapIt(S.as_iter(it, args[0]), args[1]))


def m_to_bits(it, args, callee, depth):
    import struct
    v = A.deref_all(it, args[0])
    if isinstance(v, tuple) and v[0] == "f":
        return struct.unpack("<I", struct.pack("<f", v[1]))[0]
    try:
        # a sum / product of constants that is not exactly representable stays an expression: its bit pattern is that of the rounded value
        return struct.unpack("<I", struct.pack("<f", S.num_eval(v, {})))[0]
    except (S.NotNumeric, OverflowError, struct.error):
        return NotImplemented


def m_abs_any(it, args, callee, depth):
    v = A.deref_all(it, args[0])
    if isinstance(v, tuple) and v[0] == "f":
        return ("f", abs(v[1]))
    return S.m_abs(it, args, callee, depth)


class FromFnIt(S.It):
    """core::iter::from_fn(f): f() until it returns None"""
    def __init__(self, f):
        self.f = f

    def next(self, it, depth):
        o = A.deref_all(it, it.invoke(self.f, [], depth))
        if not (isinstance(o, tuple) and o[0] == "adt" and o[2] in ("Some", "None")):
            raise A.Undecided("iter::from_fn closure returned %r" % (str(o)[:60],))
        return o[3][0] if o[2] == "Some" else None


def m_reduce(it, args, callee, depth):
    itr = S.as_iter(it, args[0])
    acc = itr.next(it, depth)
    if acc is None:
        return A.NONE
    n = 0
    while True:
        x = itr.next(it, depth)
        if x is None:
            return A.some(acc)
        acc = it.invoke(args[1], [acc, x], depth)
        n += 1
        if n > 4096:
            raise A.Undecided("reduce over too long an iterator")


def m_iter_from_fn(it, args, callee, depth):
    return ("iter", FromFnIt(args[0]))


class RepeatWithIt(S.It):
    def __init__(self, f):
        self.f = f

    def next(self, it, depth):
        return it.invoke(self.f, [], depth)


def m_repeat_with(it, args, callee, depth):
    return ("iter", RepeatWithIt(args[0]))


class TakeWhileIt(S.It):
    def __init__(self, a, f):
        self.a, self.f, self.done = a, f, False

    def next(self, it, depth):
        if self.done:
            return None
        x = self.a.next(it, depth)
        if x is None:
            return None
        cell = A.Frame(None)
        cell.locals[0] = x
        keep = A.deref_all(it, it.invoke(self.f, [("ref", cell, 0, [])], depth))
        if not isinstance(keep, int):
            raise A.Undecided("take_while predicate returned an undecided value %r" % (str(keep)[:60],))
        if not keep:
            self.done = True
            return None
        return cell.locals[0]


def m_take_while(it, args, callee, depth):
    return ("iter", TakeWhileIt(S.as_iter(it, args[0]), args[1]))


class SkipIt(S.It):
    def __init__(self, a, n):
        self.a, self.n = a, n

    def next(self, it, depth):
        while self.n > 0:
            self.n -= 1
            if self.a.next(it, depth) is None:
                return None
        return self.a.next(it, depth)


def m_skip(it, args, callee, depth):
    n = A.deref_all(it, args[1])
    if not isinstance(n, int):
        raise A.Undecided("skip(%r)" % (n,))
    return ("iter", SkipIt(S.as_iter(it, args[0]), n))


def m_mem_swap(it, args, callee, depth):
    a, b = args[0], args[1]
    if not (isinstance(a, tuple) and a[0] == "ref" and isinstance(b, tuple) and b[0] == "ref"):
        raise A.Undecided("mem::swap through %r / %r" % (a, b))
    va, vb = it.load_ref(a), it.load_ref(b)
    it._store(a[1], a[2], list(a[3]), vb)
    it._store(b[1], b[2], list(b[3]), va)
    return ("tuple", [])


def m_mem_take(it, args, callee, depth):
    a = args[0]
    if not (isinstance(a, tuple) and a[0] == "ref"):
        raise A.Undecided("mem::take through %r" % (a,))
    va = it.load_ref(a)
    if isinstance(va, tuple) and va[0] == "array":
        it._store(a[1], a[2], list(a[3]), ("array", []))
        return va
    return NotImplemented


class FlatMapIt(S.It):
    def __init__(self, a, f):
        self.a, self.f, self.cur = a, f, None

    def next(self, it, depth):
        while True:
            if self.cur is not None:
                x = self.cur.next(it, depth)
                if x is not None:
                    return x
                self.cur = None
            o = self.a.next(it, depth)
            if o is None:
                return None
            self.cur = S.as_iter(it, it.invoke(self.f, [o], depth) if self.f is not None else o)


def m_flat_map(it, args, callee, depth):
    return ("iter", FlatMapIt(S.as_iter(it, args[0]), args[1]))


def m_flatten(it, args, callee, depth):
    return ("iter", FlatMapIt(S.as_iter(it, args[0]), None))


def m_zip_fn(it, args, callee, depth):
    return ("iter", S.ZipIt(S.as_iter(it, args[0]), S.as_iter(it, args[1])))


class CopiedIt(S.It):
    def __init__(self, a):
        self.a = a

    def next(self, it, depth):
        x = self.a.next(it, depth)
        return None if x is None else A.copy_val(A.deref_all(it, x))


def m_copied(it, args, callee, depth):
    return ("iter", CopiedIt(S.as_iter(it, args[0])))


def m_box_new_uninit(it, args, callee, depth):
    """Box::<T>::new_uninit(): a box whose pointer designates a fresh, not yet initialised cell (the expansion of `vec![a, b, ..]`
    writes the array through it and hands the box to box_assume_init_into_vec_unsafe)"""
    cell = A.Frame(None)
    cell.locals[0] = A.UNKNOWN
    uniq = ("adt", "core::ptr::unique::Unique", "Unique", [("ref", cell, 0, [])])
    return ("adt", "alloc::boxed::Box", "Box", [uniq])


def _first_array(v, depth=0):
    if isinstance(v, tuple) and v[0] == "array":
        return v
    if depth < 6 and isinstance(v, tuple) and v[0] == "adt":
        for x in v[3]:
            r = _first_array(x, depth + 1)
            if r is not None:
                return r
    return None


def m_box_into_vec(it, args, callee, depth):
    b = A.deref_all(it, args[0])
    try:
        ptr = b[3][0][3][0]
    except (IndexError, TypeError):
        return NotImplemented
    if not (isinstance(ptr, tuple) and ptr[0] == "ref"):
        return NotImplemented
    arr = _first_array(it.load_ref(ptr))
    if arr is None:
        raise A.Undecided("vec![..]: the boxed array was not initialised before being turned into a Vec")
    return ("array", list(arr[1]))


def m_deref(it, args, callee, depth):
    """Deref::deref / DerefMut::deref_mut on a reference-like value: `&mut &mut [T]` -> the inner reference; on an owning
    container modelled as an array (Vec) -> a reference to its contents"""
    r = args[0]
    if isinstance(r, tuple) and r[0] == "ref":
        inner = it.load_ref(r)
        if isinstance(inner, tuple) and inner[0] == "ref":
            return inner
        if isinstance(inner, tuple) and inner[0] in ("array", "symvec"):
            return r
    return NotImplemented


MODELS = {
    "core::ops::deref::DerefMut::deref_mut": m_deref,
    "core::ops::deref::Deref::deref": m_deref,
    "$slice::<impl [T]>::len": S.m_len,
    "alloc::vec::Vec::<T>::new": m_vec_new,
    "alloc::vec::Vec::<T>::with_capacity": m_vec_new,
    "alloc::vec::Vec::<T, A>::push": m_vec_push,
    "alloc::vec::Vec::<T, A>::append": m_vec_append,
    "alloc::boxed::Box::<T>::new_uninit": m_box_new_uninit,
    "alloc::boxed::box_assume_init_into_vec_unsafe": m_box_into_vec,
    "slice::<impl [T]>::into_vec": m_box_into_vec,
    "alloc::vec::Vec::<T, A>::is_empty": m_vec_is_empty,
    "$slice::<impl [T]>::is_empty": m_vec_is_empty,
    "alloc::vec::Vec::<T, A>::clear": m_vec_clear,
    "alloc::vec::Vec::<T, A>::truncate": m_vec_truncate,
    "alloc::vec::Vec::<T, A>::pop": m_vec_pop,
    "alloc::vec::Vec::<T, A>::drain": m_vec_drain,
    "$slice::<impl [T]>::get": m_slice_get,
    "$slice::<impl [T]>::get_mut": m_slice_get,
    "$slice::<impl [T]>::first": m_slice_first_last("first"),
    "$slice::<impl [T]>::last": m_slice_first_last("last"),
    "$slice::<impl [T]>::split_first": m_slice_first_last("split_first"),
    "$slice::<impl [T]>::split_last": m_slice_first_last("split_last"),
    "$slice::<impl [T]>::windows": m_windows(False),
    "$slice::<impl [T]>::chunks": m_windows(True, partial=True),
    "$slice::<impl [T]>::chunks_exact": m_windows(True),
    "$slice::<impl [T]>::chunks_exact_mut": m_windows(True),
    "$slice::<impl [T]>::chunks_mut": m_windows(True, partial=True),
    "$slice::<impl [T]>::copy_from_slice": m_copy_from_slice,
    "$slice::<impl [T]>::clone_from_slice": m_copy_from_slice,
    "alloc::vec::from_elem": m_from_elem,
    "Iterator::skip": m_skip,
    "Iterator::take_while": m_take_while,
    "Iterator::reduce": m_reduce,
    "$iter::sources::from_fn::from_fn": m_iter_from_fn,
    "$core::iter::from_fn": m_iter_from_fn,
    "$iter::sources::repeat_with::repeat_with": m_repeat_with,
    "$core::iter::repeat_with": m_repeat_with,
    "Iterator::filter_map": m_filter_map,
    "Iterator::filter": m_filter,
    "core::mem::swap": m_mem_swap,
    "core::mem::take": m_mem_take,
    "core::iter::traits::collect::Extend::extend": m_vec_extend,
    "Iterator::flat_map": m_flat_map,
    "Iterator::flatten": m_flatten,
    "Iterator::copied": m_copied,
    "Iterator::cloned": m_copied,
    "$core::iter::zip": m_zip_fn,
    "$iter::adapters::zip::zip": m_zip_fn,
    "f32>::sqrt": _f1(math.sqrt),
    "f32>::sin": _f1(math.sin),
    "f32>::cos": _f1(math.cos),
    "f32>::abs": m_abs_any,
    "f32>::to_bits": m_to_bits,
    "f32>::recip": _f1(lambda x: 1.0 / x),
    "f32>::powf": _f1(lambda x, y: x ** y),
    "f32>::powi": _f1(lambda x, n: x ** int(n)),
    "f32>::mul_add": _f1(lambda a, b, c: a * b + c),
}


def m_tuple_ctor(path):
    def m(it, args, callee, depth):
        return ("adt", path, path.split("::")[-1], list(args))
    return m


def const_oracle(op, a, b):
    """comparisons between folded constants"""
    try:
        x, y = S.num_eval(a, {}), S.num_eval(b, {})
    except Exception:
        return None
    return {"Lt": x < y, "Le": x <= y, "Gt": x > y, "Ge": x >= y, "Eq": x == y, "Ne": x != y}.get(op)


def interp(prog, models=None):
    m = dict(MODELS)
    # tuple-struct constructors used as functions (`.map(Tri)`)
    for path, adt in prog.adts.items():
        vs = adt.get("variants") or []
        if adt.get("kind") == "Struct" and len(vs) == 1 and vs[0].get("fields") and all(f.isdigit() for f in vs[0]["fields"]):
            m["$" + path] = m_tuple_ctor(path)
    m.update(models or {})
    return S.interp(prog, models=m, oracle=const_oracle)


def as_float(it, v):
    return _f(it, v)


def floats_of(it, v):
    """flatten a Vector/Point/array/tuple constant to a list of floats"""
    v = A.deref_all(it, v)
    if isinstance(v, tuple) and v[0] == "adt" and v[3]:
        return floats_of(it, v[3][0])
    if isinstance(v, tuple) and v[0] in ("array", "tuple"):
        out = []
        for x in v[1]:
            out += floats_of(it, x)
        return out
    return [_f(it, v)]
