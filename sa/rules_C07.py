"""C07 — culling, write masks and statistics behave as configured.

Decides (static, engine D + finite-domain abstract interpretation):
  F1  each buffer write is control-dependent on its flag: colour on
      Context.color_write, depth on Context.depth_write, both on the Some edge
      of the fragment shader's result; the flags are independent (depth is
      still written with colour writes off and vice versa); with the flag on,
      the write cannot be skipped
  F2  Throughput.o is incremented exactly where the colour is written (same
      guards, once, loop-free), starts at 0; Throughput.i is the length of the
      span actually cut; the counter struct is what rasterize returns
  F3  cull polarity, by reachability of tri_fill from each FaceCull arm with the
      is_backface outcome fixed
  F4  statistics: calls = 1, inputs counted from the slice lengths, outputs
      counted (+1 prim, +3 verts) iff tri_fill runs, every rasterize result
      accumulated into frags, stats merged into ctx.stats on every return
  F5  Stats += Stats adds every counter field-wise (abstract interpretation with
      symbolic counters)

Leaves (not decided): the sign convention of is_backface, image comparisons.
"""
from . import facts, guards as G, term as T, common, absint as A
from .render_common import (TargetImpl, FB_RASTERIZE, BUF_RASTERIZE, RENDER, is_call_to,
                            capture_terms, in_cycle)


def flag_rules(rep, prog, impl, name):
    cfg = prog.config
    n_col = n_dep = n_cnt = 0
    for b in impl.bodies:
        sl = impl.sl[b.path]
        stores = [s for s in impl.stores if s["body"] is b]
        cw_t, cw_f = impl.flag_edges(b, "color_write")
        dw_t, dw_f = impl.flag_edges(b, "depth_write")
        some_e, none_e = impl.shade_edges(b)
        rets = G.return_blocks(b)

        # counter increments: stores into a captured &mut Throughput.o (or direct field)
        caps = capture_terms(prog, b) if b.kind == "Closure" else {}
        counters = []
        for bi, si, s in b.stmts():
            if s["k"] != "Assign":
                continue
            lt = sl.place(s["lhs"])
            is_o = False
            if lt[0] == "upvar":
                for idx, (n, _r) in sl.upvars().items():
                    if n == lt[1] and idx in caps and "Throughput.o" in T.fields_in(caps[idx]):
                        is_o = True
            if lt[0] == "field" and lt[2] == "Throughput.o":
                is_o = True
            if is_o:
                counters.append((bi, si, s, sl.rvalue(s["rv"], 0, ())))

        for s in stores:
            if s["kind"] == "colour":
                n_col += 1
                flag_t, fname = cw_t, "color_write"
            else:
                n_dep += 1
                flag_t, fname = dw_t, "depth_write"
            g_flag = bool(flag_t) and G.guarded_by(b, s["bb"], flag_t)
            g_some = bool(some_e) and G.guarded_by(b, s["bb"], some_e)
            rep.inst("C07.F1", "%s: %s write at %s: under Context.%s=%s, under shader Some=%s"
                     % (name, s["kind"], s["where"], fname, g_flag, g_some), config=cfg)
            if not g_flag:
                rep.violate("C07.F1", "F1|%s|%s|flag" % (name, s["kind"]), s["where"],
                            "%s buffer write in %s is not control-dependent on Context.%s" % (s["kind"], name, fname),
                            config=cfg)
            if not g_some:
                rep.violate("C07.F1", "F1|%s|%s|discard" % (name, s["kind"]), s["where"],
                            "%s buffer write in %s happens even if the fragment shader returns None" % (s["kind"], name),
                            config=cfg)
            # independence of the two flags
            other_t = dw_t if s["kind"] == "colour" else cw_t
            oname = "depth_write" if s["kind"] == "colour" else "color_write"
            if other_t and s["bb"] not in G.reachable_without(b, other_t):
                rep.violate("C07.F1", "F1|%s|%s|coupled" % (name, s["kind"]), s["where"],
                            "%s write in %s is only reachable when Context.%s is true: the two write masks are not independent"
                            % (s["kind"], name, oname), config=cfg)
            # flag on => write cannot be skipped (normal control flow)
            blocks = [x["bb"] for x in stores if x["kind"] == s["kind"]]
            for (src, dst, _lab) in flag_t:
                if not G.must_pass(b, dst, blocks, rets) and src != dst:
                    # ignore unwind paths: recompute on normal edges only
                    r = b.reachable(dst, removed_blocks=set(blocks), unwind=False)
                    if any(x in r for x in rets):
                        rep.violate("C07.F1", "F1|%s|%s|skippable" % (name, s["kind"]), b.where(src, None),
                                    "with Context.%s true a path reaches the return without the %s write" % (fname, s["kind"]),
                                    config=cfg)

        # F2 counter pairing
        col_stores = [s for s in stores if s["kind"] == "colour"]
        for (bi, si, s, val) in counters:
            n_cnt += 1
            g_flag = bool(cw_t) and G.guarded_by(b, bi, cw_t)
            g_some = bool(some_e) and G.guarded_by(b, bi, some_e)
            incr_by_one = (val[0] == "field" or True) and T.contains(val, lambda x: x[0] == "bin" and x[1].startswith("Add") and ("const", "usize", 1) in (x[2], x[3]))
            paired = any(b.dominates(bi, cs["bb"]) or b.dominates(cs["bb"], bi) for cs in col_stores)
            # same control region: every edge set that guards the colour store guards the counter and vice versa
            same_region = all(
                (cs["bb"] in b.reachable(bi, unwind=False) or bi in b.reachable(cs["bb"], unwind=False))
                and G.must_pass(b, bi, [cs["bb"]], rets) if b.dominates(bi, cs["bb"]) else True
                for cs in col_stores)
            # once per colour write: no cycle runs through the increment without passing a colour store, and none through a colour
            # store without passing the increment (the per-fragment loop itself may be a `for` loop in this very body)
            cs_bbs = {cs["bb"] for cs in col_stores}
            once = bi not in b.reachable_from_succs(bi, removed_blocks=cs_bbs - {bi}, unwind=False) or bi in cs_bbs
            once = once and all(cs["bb"] == bi or cs["bb"] not in b.reachable_from_succs(cs["bb"], removed_blocks={bi}, unwind=False) for cs in col_stores)
            ok = g_flag and g_some and incr_by_one and paired and same_region and once
            rep.inst("C07.F2", "%s: Throughput.o update at %s: +1=%s under color_write=%s under Some=%s paired with colour store=%s"
                     % (name, b.where(bi, si), incr_by_one, g_flag, g_some, paired and same_region), config=cfg)
            if not ok:
                rep.violate("C07.F2", "F2|%s|counter" % name, b.where(bi, si),
                            "fragments-written counter is not incremented exactly where the colour is written "
                            "(+1=%s color_write=%s some=%s paired=%s)" % (incr_by_one, g_flag, g_some, paired and same_region),
                            config=cfg)
            if impl.has_depth:
                calls, edges = impl.depth_tests(b)
                pass_edges = [e for _bb, tr, _fa in edges for e in tr]
                if not (pass_edges and G.guarded_by(b, bi, pass_edges)):
                    rep.violate("C07.F2", "F2|%s|counter-depth" % name, b.where(bi, si),
                                "fragments-written counter is incremented for fragments that fail the depth test", config=cfg)
        if col_stores and b.kind == "Closure" and not counters:
            rep.violate("C07.F2", "F2|%s|no-counter" % name, col_stores[0]["where"],
                        "colour is written but the fragments-written counter is never incremented", config=cfg)
    if n_col == 0:
        rep.violate("C07.F1", "F1|%s|no-colour-store" % name, impl.root.where(),
                    "%s never writes the colour buffer" % name, config=cfg)
    if impl.has_depth and n_dep == 0:
        rep.violate("C07.F1", "F1|%s|no-depth-store" % name, impl.root.where(),
                    "%s never writes the depth buffer" % name, config=cfg)

    # F2: Throughput{ i: x1 - x0, o: 0 } and it is the return value
    root = impl.root
    rsl = impl.sl[root.path]
    aggs = [(bi, si, s) for bi, si, s in root.stmts()
            if s["k"] == "Assign" and s["rv"]["k"] == "Aggregate" and s["rv"].get("adt", "").endswith("stats::Throughput")]
    rep.floor("C07.F2.throughput_init.%s" % name, len(aggs), 1, "Throughput{..} construction in rasterize")
    # the range actually cut
    ranges = []
    for bi, t in root.calls(lambda c: facts.callee_matches(c, "IndexMut<I> for [T]>::index_mut", "Index<I> for [T]>::index")):
        rt = rsl.operand(t["args"][1])
        if rt[0] == "agg" and rt[1].endswith("Range::Range"):
            ranges.append(rt)
    for bi, si, s in aggs:
        ops = [rsl.operand(o) for o in s["rv"]["ops"]]
        names = s["rv"]["fields"]
        i_t = ops[names.index("i")]
        o_t = ops[names.index("o")]
        i_core = i_t
        while i_core[0] == "field" and i_core[2] in ("0",):
            i_core = i_core[1]
        ok_i = any(i_core[0] == "bin" and i_core[1].startswith("Sub") and T.strip(i_core[2]) == T.strip(r[2][1]) and T.strip(i_core[3]) == T.strip(r[2][0])
                   for r in ranges)
        # ... or the length of that very range (Range::len / ExactSizeIterator::len)
        ic = T.strip(i_core, sites=True, refs=True)
        if not ok_i and ic[0] == "call" and ic[1].split(" => ")[0].rsplit("::", 1)[-1] == "len" and ic[2]:
            ok_i = any(T.strip(ic[2][0], sites=True, refs=True) == T.strip(r, sites=True, refs=True) for r in ranges)
        ok_o = o_t == ("const", "usize", 0)
        rep.inst("C07.F2", "%s: Throughput init i=%s o=%s ; spans cut with %s" % (name, T.show(i_t), T.show(o_t), [T.show(r) for r in ranges][:2]), config=cfg)
        if not ok_i:
            rep.violate("C07.F2", "F2|%s|input-count" % name, root.where(bi, si),
                        "Throughput.i (%s) is not end - start of the span actually sliced" % T.show(i_t), config=cfg)
        if not ok_o:
            rep.violate("C07.F2", "F2|%s|output-init" % name, root.where(bi, si),
                        "Throughput.o does not start at 0 (%s)" % T.show(o_t), config=cfg)
    # return value is the counter struct
    ret_t = rsl.local(0)
    agg_locals = {s["lhs"]["l"] for _b, _s, s in aggs if not s["lhs"]["p"]}
    ret_ok = False
    for bi, si, s in root.stmts():
        if s["k"] == "Assign" and s["lhs"]["l"] == 0 and not s["lhs"]["p"] and s["rv"]["k"] == "Use":
            pl = s["rv"]["a"].get("c") or s["rv"]["a"].get("m")
            if pl and pl["l"] in agg_locals and not pl["p"]:
                ret_ok = True
    rep.inst("C07.F2", "%s: returns the Throughput it counted in: %s" % (name, ret_ok), config=cfg)
    if not ret_ok:
        rep.violate("C07.F2", "F2|%s|return" % name, root.where(), "rasterize does not return the Throughput it counted in (%s)" % T.show(ret_t), config=cfg)
    return n_col, n_dep, n_cnt


def _render_inlined(prog):
    """render() with its private same-file helpers seen through (a cull predicate, a per-vertex function), the named anchors kept"""
    r0 = prog.body(RENDER)
    keep = ("is_backface", "depth_sort")
    return prog.inlined(r0, depth=2, pred=lambda cb: (not cb.is_pub) and cb.file == r0.file and cb.path.rsplit("::", 1)[-1] not in keep and not cb.path.rsplit("::", 1)[-1].startswith("sort"))


def must_fill_rule(rep, prog):
    """F3c (structural complement of the scene-based F3): with culling off every clipped triangle is rasterised. In render() with all its
    private helpers inlined, from the None edge of the switch on ctx.face_cull no path reaches the next loop iteration (or the return)
    without passing tri_fill, except through a test of some quantity against exactly 0.0. This sees a size / count THRESHOLD that the
    reference scene does not trip."""
    cfg = prog.config
    r0 = prog.body(RENDER)
    rn = prog.inlined(r0, depth=3, pred=lambda cb: (not cb.is_pub) and cb.file == r0.file)
    sl = T.Slicer(rn)
    live = set(rn.reachable(0))
    fills = [bi for bi, _t in rn.calls(lambda c: facts.callee_matches(c, "raster::tri_fill")) if bi in live]
    heads = [bi for bi, _t in rn.calls(lambda c: facts.callee_matches(c, "Iterator::next")) if bi in live and any(f in rn.natural_loop(bi) for f in fills)]
    is_fc = lambda p: T.contains(p, lambda f: f[0] == "field" and f[2] == "Context.face_cull")  # noqa: E731
    some_e, none_e = G.option_edges(rn, sl, lambda p: p[0] == "field" and p[2] == "Context.face_cull")
    if not (fills and heads and none_e):
        rep.notes.append("C07.F3c: render() has no `match`/`if let` on ctx.face_cull inside a loop that calls tri_fill (anchors: fills=%d loops=%d None-edges=%d); "
                         "the threshold by-pass rule is not applicable to this form, F3 on the reference scene stands alone" % (len(fills), len(heads), len(none_e)))
        rep.inst("C07.F3", "F3c must-fill rule: not applicable to this form of render()", config=cfg)
        return
    FC = "retrofire_core::render::ctx::FaceCull"
    inner = lambda p: p[0] == "field" and p[1][0] == "downcast" and is_fc(p)  # noqa: E731
    back_e = G.variant_edges(prog, rn, sl, inner, FC, "Back")
    front_e = G.variant_edges(prog, rn, sl, inner, FC, "Front")
    rets = G.return_blocks(rn)
    skip = False
    for (_s, dst, _l) in none_e:
        r = rn.reachable_sensitive(dst, removed_edges=(set(back_e) | set(front_e) | set(some_e)) - set(none_e), removed_blocks=set(fills), unwind=False)
        if any(h in r for h in heads) or any(x in r for x in rets):
            skip = True
            none_reach = r
    if skip:
        guards = []
        for bi_, blk_ in enumerate(rn.blocks):
            t_ = blk_["term"]
            if t_["k"] != "SwitchInt" or bi_ not in live or bi_ not in none_reach:
                continue
            succ = [tg for _v, tg in t_["targets"]] + [t_["otherwise"]]
            byp = [s_ for s_ in succ if any(h in rn.reachable(s_, removed_blocks=set(fills), unwind=False) for h in heads) and not
                   any(f in rn.reachable(s_, removed_blocks=set(heads), unwind=False) for f in fills)]
            if byp and len(byp) < len(succ):
                guards.append(T.strip(sl.operand(t_["discr"]), sites=True, refs=True))
        is_fc_guard = lambda g: T.contains(g, lambda q: q[0] == "field" and q[2] == "Context.face_cull")  # noqa: E731
        exact_zero = lambda g: g[0] == "bin" and g[1] in ("Eq", "Ne") and (("const", "f32", 0.0) in (g[2], g[3]))  # noqa: E731
        other = [g for g in guards if not is_fc_guard(g) and not exact_zero(g)]
        if guards and not other:
            rep.notes.append("C07.F3: triangles are skipped on an exact-zero test only (%s): no pixel centre is lost" % [T.show(g)[:60] for g in guards])
            skip = False
    rep.inst("C07.F3", "F3c: with face_cull = None every path from the cull decision to the next triangle passes tri_fill: %s" % (not skip), config=cfg)
    if skip:
        rep.violate("C07.F3", "F3|None/dropped", rn.where(),
                    "with face_cull = None a clipped triangle can reach the next iteration without being handed to tri_fill: something other than face culling drops triangles",
                    config=cfg)


def cull_rules(rep, prog):
    cfg = prog.config
    rn0 = prog.body(RENDER)
    sl0 = T.Slicer(rn0)
    is_fc0 = lambda p: T.contains(p, lambda f: f[0] == "field" and f[2] == "Context.face_cull")  # noqa: E731
    # Form B: the cull decision is a call to a local predicate fed with ctx.face_cull (`if is_culled(ctx.face_cull, &vs) { continue }`)
    pred_edges = G.bool_edges(rn0, sl0, lambda d: d[0] == "call" and any(is_fc0(a_) for a_ in d[2]) and prog.lookup(d[1].split(" => ")[-1]) is not None)
    some0, none0 = G.option_edges(rn0, sl0, lambda p: p[0] == "field" and p[2] == "Context.face_cull")
    if pred_edges and not (some0 or none0):
        return cull_rules_predicate(rep, prog, rn0, sl0, pred_edges)
    rn = _render_inlined(prog)
    sl = T.Slicer(rn)
    fills = [bi for bi, _t in rn.calls(lambda c: facts.callee_matches(c, "raster::tri_fill"))]
    heads = [bi for bi, _t in rn.calls(lambda c: facts.callee_matches(c, "Iterator::next"))]
    rep.floor("C07.F3.anchors", min(len(fills), len(heads)), 1, "tri_fill call and loop head in render()")
    bf_edges = G.bool_edges(rn, sl, lambda d: is_call_to(d, "render::is_backface"))
    bf_true = [e for _b, tr, _fa in bf_edges for e in tr]
    bf_false = [e for _b, _tr, fa in bf_edges for e in fa]
    is_fc = lambda p: T.contains(p, lambda f: f[0] == "field" and f[2] == "Context.face_cull")  # noqa: E731
    some_e, none_e = G.option_edges(rn, sl, lambda p: p[0] == "field" and p[2] == "Context.face_cull")
    FC = "retrofire_core::render::ctx::FaceCull"
    inner = lambda p: p[0] == "field" and p[1][0] == "downcast" and is_fc(p)  # noqa: E731
    back_e = G.variant_edges(prog, rn, sl, inner, FC, "Back")
    front_e = G.variant_edges(prog, rn, sl, inner, FC, "Front")
    rep.floor("C07.F3.arms", min(len(some_e), len(none_e), len(back_e), len(front_e)), 1, "face_cull None/Some/Back/Front edges")
    # F3c: with culling off EVERY clipped triangle is rasterised: from the None arm no path reaches the next iteration (or the
    # return) without passing tri_fill — face culling is the only reason a triangle may be dropped after clipping
    rets = G.return_blocks(rn)
    skip = False
    for (_s, dst, _l) in none_e:
        r = rn.reachable(dst, removed_edges=(set(back_e) | set(front_e)) - set(none_e), removed_blocks=set(fills), unwind=False)
        if any(h in r for h in heads) or any(x in r for x in rets):
            skip = True
    if skip:
        # which branches open the by-pass? a test of some quantity against exactly 0.0 (a degenerate triangle covers no pixel centre)
        # leaves every image unchanged; anything else (a threshold, a flag) drops triangles that have pixels
        guards = []
        for bi_, blk_ in enumerate(rn.blocks):
            t_ = blk_["term"]
            if t_["k"] != "SwitchInt":
                continue
            succ = [tg for _v, tg in t_["targets"]] + [t_["otherwise"]]
            byp = [s_ for s_ in succ if any(h in rn.reachable(s_, removed_blocks=set(fills), unwind=False) for h in heads) and not
                   any(f in rn.reachable(s_, removed_blocks=set(heads), unwind=False) for f in fills)]
            if byp and len(byp) < len(succ):
                guards.append(T.strip(sl.operand(t_["discr"]), sites=True, refs=True))
        is_fc_guard = lambda g: T.contains(g, lambda q: q[0] == "field" and q[2] == "Context.face_cull") or T.contains(g, lambda q: q[0] == "call" and "is_backface" in q[1])  # noqa: E731
        exact_zero = lambda g: g[0] == "bin" and g[1] in ("Eq", "Ne") and (("const", "f32", 0.0) in (g[2], g[3]))  # noqa: E731
        other = [g for g in guards if not is_fc_guard(g) and not exact_zero(g)]
        if guards and not other:
            rep.notes.append("C07.F3: triangles are skipped on an exact-zero test only (%s): no pixel centre is lost" % [T.show(g)[:60] for g in guards])
            skip = False
    rep.inst("C07.F3", "with face_cull = None every path from the cull decision to the next triangle passes tri_fill: %s" % (not skip), config=cfg)
    if skip:
        rep.violate("C07.F3", "F3|None/dropped", rn.where(),
                    "with face_cull = None a clipped triangle can reach the next iteration without being handed to tri_fill: something other than face culling drops triangles",
                    config=cfg)
    rep.floor("C07.F3.is_backface", len(bf_edges), 1, "branches on is_backface()")

    def fill_reach(start_edges, removed):
        res = False
        for (_s, dst, _l) in start_edges:
            r = rn.reachable(dst, removed_edges=set(removed), removed_blocks=set(heads), unwind=False)
            if any(f in r for f in fills):
                res = True
        return res
    # edges of *other* arms must not be used when exploring one arm
    def others(mine):
        allv = set(back_e) | set(front_e) | set(none_e)
        return allv - set(mine)
    table = {
        "Back/backface": fill_reach(back_e, set(bf_false) | others(back_e)),
        "Back/frontface": fill_reach(back_e, set(bf_true) | others(back_e)),
        "Front/backface": fill_reach(front_e, set(bf_false) | others(front_e)),
        "Front/frontface": fill_reach(front_e, set(bf_true) | others(front_e)),
        "None/backface": fill_reach(none_e, set(bf_false) | others(none_e)),
        "None/frontface": fill_reach(none_e, set(bf_true) | others(none_e)),
    }
    want = {"Back/backface": False, "Back/frontface": True, "Front/backface": True, "Front/frontface": False,
            "None/backface": True, "None/frontface": True}
    rep.inst("C07.F3", "tri_fill reachable per (face_cull arm / is_backface outcome): %s" % table, config=cfg)
    for k in want:
        if table[k] != want[k]:
            rep.violate("C07.F3", "F3|%s" % k, rn.where(),
                        "with face_cull = %s and a %s triangle, tri_fill is %s (expected %s)"
                        % (k.split("/")[0], k.split("/")[1], "reachable" if table[k] else "unreachable",
                           "reachable" if want[k] else "unreachable"), config=cfg)
    # F3b: every is_backface call inspects the very screen-space triangle that is then filled
    # (the winding that counts is the ON-SCREEN one, i.e. after the viewport transform)
    fill_args = [T.strip(sl.operand(t["args"][0]), sites=False, refs=True, casts=True) for _bi, t in rn.calls(lambda c: facts.callee_matches(c, "raster::tri_fill"))]
    for bi, t in rn.calls(lambda c: facts.callee_matches(c, "render::is_backface")):
        a = T.strip(sl.operand(t["args"][0]), sites=False, refs=True, casts=True)
        same = a in fill_args
        def applies_matrix(cpath):
            cb_ = prog.bodies.get(cpath)
            if cb_ is None:
                return False
            cbi = prog.inlined(cb_, depth=2, pred=lambda x: (not x.is_pub) and x.file == cb_.file)
            return any(True for _b, _t in cbi.calls(lambda c: "mat::Matrix" in c["path"] and c["path"].endswith("::apply")))
        screen = T.contains(a, lambda q: (q[0] == "agg" and q[1].startswith("closure:") and applies_matrix(q[1][8:])) or
                            (q[0] == "fnptr" and applies_matrix(q[1].split(" => ")[-1])))
        rep.inst("C07.F3", "is_backface at %s inspects the triangle handed to tri_fill: %s (screen-space, after the viewport transform: %s)" % (rn.where(bi, None), same, screen), config=cfg)
        if not (same and screen):
            rep.violate("C07.F3", "F3|winding-space", rn.where(bi, None),
                        "the cull decision is taken on %s, not on the screen-space vertices that are rasterised: a mirroring viewport flips the on-screen winding"
                        % T.show(a)[:100], config=cfg)
    return fills, heads


def cull_rules_predicate(rep, prog, rn, sl, pred_edges):
    """Form B of F3: `if <pred>(ctx.face_cull, &vs) { continue }`. The predicate is evaluated abstractly for every
    (cull mode, is_backface outcome): it must be false for None, is_backface for Back and its negation for Front; in render() the
    true side must not reach tri_fill in this iteration and the false side must pass it."""
    cfg = prog.config
    fills = [bi for bi, _t in rn.calls(lambda c: facts.callee_matches(c, "raster::tri_fill"))]
    heads = [bi for bi, _t in rn.calls(lambda c: facts.callee_matches(c, "Iterator::next"))]
    rep.floor("C07.F3.anchors", min(len(fills), len(heads)), 1, "tri_fill call and loop head in render()")
    rets = G.return_blocks(rn)
    FC = "retrofire_core::render::ctx::FaceCull"
    for bb, tr, fa in pred_edges:
        dterm = T.strip(sl.operand(rn.blocks[bb]["term"]["discr"]), sites=False, refs=True)
        calls = [q for q in T.walk(dterm) if q[0] == "call" and prog.lookup(q[1].split(" => ")[-1]) is not None]
        fbody = prog.lookup(calls[0][1].split(" => ")[-1])
        fc_idx = [i_ for i_, a_ in enumerate(calls[0][2]) if T.contains(a_, lambda f: f[0] == "field" and f[2] == "Context.face_cull")][0]
        table = {}
        for mode in ("None", "Back", "Front"):
            for bf in (0, 1):
                it = A.Interp(prog, models={"render::is_backface": lambda *_a, bf=bf: bf})
                mv = A.NONE if mode == "None" else A.some(("adt", FC, mode, []))
                args = [A.UNKNOWN] * fbody.argc
                args[fc_idx] = mv
                try:
                    r = it.call_body(fbody, args)
                except (A.Undecided, A.Panic) as e:
                    raise common.Infra("C07.F3: the cull predicate %s could not be evaluated abstractly (%s)" % (fbody.path, e))
                if not isinstance(r, int):
                    raise common.Infra("C07.F3: the cull predicate %s returned an undecided value" % fbody.path)
                table["%s/%s" % (mode, "backface" if bf else "frontface")] = bool(r)
        want = {"None/backface": False, "None/frontface": False, "Back/backface": True, "Back/frontface": False, "Front/backface": False, "Front/frontface": True}
        rep.inst("C07.F3", "cull predicate %s evaluated over (mode, is_backface): culled = %s" % (fbody.path.rsplit("::", 1)[-1], table), config=cfg)
        for k_ in want:
            if table[k_] != want[k_]:
                rep.violate("C07.F3", "F3|%s" % k_, fbody.where(), "with face_cull = %s and a %s triangle, the triangle is %s (expected %s)"
                            % (k_.split("/")[0], k_.split("/")[1], "culled" if table[k_] else "drawn", "culled" if want[k_] else "drawn"), config=cfg)
        # in render(): culled side never fills in this iteration, kept side always does
        culled_fills = any(any(f in rn.reachable(dst, removed_blocks=set(heads), unwind=False) for f in fills) for (_s, dst, _l) in tr)
        kept_skips = False
        for (_s, dst, _l) in fa:
            r_ = rn.reachable(dst, removed_blocks=set(fills), unwind=False)
            if any(h in r_ for h in heads) or any(x in r_ for x in rets):
                kept_skips = True
        rep.inst("C07.F3", "in render(): a culled triangle reaches tri_fill: %s; a kept triangle can skip tri_fill: %s" % (culled_fills, kept_skips), config=cfg)
        if culled_fills:
            rep.violate("C07.F3", "F3|culled-drawn", rn.where(bb, None), "a triangle the cull predicate rejects still reaches tri_fill", config=cfg)
        if kept_skips:
            rep.violate("C07.F3", "F3|None/dropped", rn.where(bb, None), "a triangle the cull predicate keeps can reach the next iteration without being handed to tri_fill", config=cfg)
        # winding space: what the predicate (and through it is_backface) inspects is the screen-space triangle handed to tri_fill
        fill_args = [T.strip(sl.operand(t["args"][0]), sites=False, refs=True, casts=True) for _bi, t in rn.calls(lambda c: facts.callee_matches(c, "raster::tri_fill"))]
        other = [T.strip(a_, sites=False, refs=True, casts=True) for i_, a_ in enumerate(calls[0][2]) if i_ != fc_idx]
        same = any(a_ in fill_args for a_ in other)
        rep.inst("C07.F3", "the cull predicate inspects the triangle handed to tri_fill: %s" % same, config=cfg)
        if not same:
            rep.violate("C07.F3", "F3|winding-space", rn.where(bb, None), "the cull decision is not taken on the screen-space vertices that are rasterised", config=cfg)
    return fills, heads


def stats_rules(rep, prog, fills, heads):
    cfg = prog.config
    rn = _render_inlined(prog)
    sl = T.Slicer(rn)
    rets = G.return_blocks(rn)
    found = {}
    for bi, si, s in rn.stmts():
        if s["k"] != "Assign":
            continue
        lt = sl.place(s["lhs"])
        fl = T.fields_in(lt)
        if not fl or not fl[-1].startswith("Stats.") and not any(f.startswith("Stats.") for f in fl):
            continue
        key = ".".join(f.split(".", 1)[1] for f in reversed(fl) if f.startswith("Stats.") or f.startswith("Throughput."))
        found.setdefault(key, []).append((bi, si, s, sl.rvalue(s["rv"], 0, ())))
    rep.inst("C07.F4", "Stats fields assigned in render(): %s" % sorted(found), config=cfg)

    def need(key):
        if key not in found:
            rep.violate("C07.F4", "F4|missing|%s" % key, rn.where(), "render() never updates stats.%s" % key, config=cfg)
            return []
        return found[key]
    # calls = 1
    for bi, si, s, v in need("calls"):
        ok = v == ("const", "f32", 1.0) and all(rn.dominates(bi, r) for r in rets) and not in_cycle(rn, bi)
        rep.inst("C07.F4", "stats.calls = %s at %s once-per-call=%s" % (T.show(v), rn.where(bi, si), ok), config=cfg)
        if not ok:
            rep.violate("C07.F4", "F4|calls", rn.where(bi, si), "stats.calls is not set to 1 exactly once per render() call", config=cfg)
    # inputs
    for key, param in (("prims.i", 1), ("verts.i", 2)):
        for bi, si, s, v in need(key):
            lens = T.calls_in(v, "::len")
            from_param = any(T.contains(c, lambda x: x == ("param", param)) for c in lens)
            is_add = T.contains(v, lambda x: x[0] == "bin" and x[1].startswith("Add"))
            once = all(rn.dominates(bi, r) for r in rets) and not in_cycle(rn, bi)
            rep.inst("C07.F4", "stats.%s += %s at %s: from len(arg%d)=%s once=%s" % (key, T.show(v)[:120], rn.where(bi, si), param, from_param, once), config=cfg)
            if not (from_param and is_add and once):
                rep.violate("C07.F4", "F4|%s" % key, rn.where(bi, si),
                            "stats.%s is not incremented once by the length of the submitted %s slice" % (key, "triangle" if param == 1 else "vertex"),
                            config=cfg)
    # outputs
    for key, inc in (("prims.o", 1), ("verts.o", 3)):
        for bi, si, s, v in need(key):
            by = T.contains(v, lambda x: x[0] == "bin" and x[1].startswith("Add") and ("const", "usize", inc) in (x[2], x[3]))
            dom = all(rn.dominates(bi, f) for f in fills)
            # every normal path from the increment to the next iteration / return runs tri_fill
            must = G.must_pass(rn, bi, fills, heads + rets) if bi not in fills else True
            if bi in fills:
                must = True
            else:
                r = rn.reachable_from_succs(bi, removed_blocks=set(fills), unwind=False)
                must = not any(x in r for x in heads + rets)
            rep.inst("C07.F4", "stats.%s += %d at %s: +%d=%s dominates tri_fill=%s tri_fill unavoidable afterwards=%s"
                     % (key, inc, rn.where(bi, si), inc, by, dom, must), config=cfg)
            if not (by and dom and must):
                rep.violate("C07.F4", "F4|%s" % key, rn.where(bi, si),
                            "stats.%s is not incremented by %d exactly for the triangles that reach tri_fill (+%d=%s, dominates=%s, unavoidable=%s)"
                            % (key, inc, inc, by, dom, must), config=cfg)
    # frags accumulation in the scanline closure(s)
    n_rast = n_acc = 0
    for b in prog.family(RENDER):
        bsl = T.Slicer(b)
        rast = [(bi, t) for bi, t in b.calls(lambda c: facts.callee_matches(c, "render::target::Target::rasterize"))]
        for bi, t in rast:
            n_rast += 1
            dest = t["dest"]["l"]
            used = False
            for bj, t2 in b.calls(lambda c: facts.callee_matches(c, "AddAssign::add_assign")):
                a0 = bsl.operand(t2["args"][0])
                a1 = bsl.operand(t2["args"][1])
                hits_frags = T.contains(a0, lambda x: (x[0] == "upvar" and "frags" in x[1]) or (x[0] == "field" and x[2] == "Stats.frags"))
                if b.kind == "Closure":
                    caps = capture_terms(prog, b)
                    for idx, (n, _r) in bsl.upvars().items():
                        if T.contains(a0, lambda x: x == ("upvar", n)) and idx in caps and "Stats.frags" in T.fields_in(caps[idx]):
                            hits_frags = True
                from_rast = T.contains(a1, lambda x: x[0] == "call" and "Target::rasterize" in x[1] and x[3] == (b.path, bi))
                if hits_frags and from_rast and b.dominates(bi, bj):
                    used = True
            rep.inst("C07.F4", "rasterize result at %s accumulated into stats.frags: %s" % (b.where(bi, None), used), config=cfg)
            if used:
                n_acc += 1
            else:
                rep.violate("C07.F4", "F4|frags-dropped|%s" % b.path, b.where(bi, None),
                            "the Throughput returned by Target::rasterize is not added to stats.frags", config=cfg)
    rep.floor("C07.F4.rasterize_sites", n_rast, 1, "Target::rasterize call sites under render()")
    # final merge on every return
    merges = []
    for bi, t in rn.calls(lambda c: facts.callee_matches(c, "AddAssign::add_assign")):
        a0 = sl.operand(t["args"][0])
        a1 = sl.operand(t["args"][1])
        if T.contains(a0, lambda x: x[0] == "field" and x[2] == "Context.stats") and T.calls_in(a1, "Stats::finish"):
            merges.append(bi)
    ok = bool(merges) and all(any(rn.dominates(m, r) for m in merges) for r in rets) and not any(in_cycle(rn, m) for m in merges)
    rep.inst("C07.F4", "`*ctx.stats.borrow_mut() += stats.finish()` dominates every return of render(), once: %s" % ok, config=cfg)
    if not ok:
        rep.violate("C07.F4", "F4|merge", rn.where(), "render() can return without merging its statistics into ctx.stats exactly once", config=cfg)


def addassign_rules(rep, prog):
    """F5 by abstract interpretation: run `Stats += Stats` on symbolic counters."""
    cfg = prog.config
    body = prog.body("retrofire_core::<render::stats::Stats as core::ops::arith::AddAssign>::add_assign")
    SP = "retrofire_core::render::stats::Stats"
    TP = "retrofire_core::render::stats::Throughput"
    adt = prog.adt(SP)
    names = adt["variants"][0]["fields"]

    def mk(who):
        vals = []
        for n in names:
            if n in ("objs", "prims", "verts", "frags"):
                vals.append(("adt", TP, "Throughput", [("sym", "%s.%s.i" % (who, n)), ("sym", "%s.%s.o" % (who, n))]))
            elif n in ("calls", "frames"):
                vals.append(("sym", "%s.%s" % (who, n)))
            else:
                vals.append(A.UNKNOWN)
        return ("adt", SP, "Stats", vals)

    def m_range_next(it, args, callee, depth):
        r = args[0]
        v = it.load_ref(r)
        if isinstance(v, tuple) and v[0] == "adt" and v[1].endswith("Range") and isinstance(v[3][0], int) and isinstance(v[3][1], int):
            if v[3][0] < v[3][1]:
                cur = v[3][0]
                v[3][0] = cur + 1
                return A.some(cur)
            return A.NONE
        raise A.Undecided("Iterator::next on %r" % (v,))
    from . import symalg as S, constfold as CF
    it = S.interp(prog, models=dict(CF.MODELS))       # the ring domain's interpreter: index loops, zips of the counter arrays, destructuring alike
    cell = A.Frame(None)
    cell.locals[0] = mk("a")
    try:
        it.call_body(body, [("ref", cell, 0, []), mk("b")])
    except (A.Undecided, A.Panic) as e:
        raise common.Infra("C07.F5: Stats::add_assign could not be evaluated abstractly (%s)" % e)
    res = cell.locals[0]
    bad = []
    checked = []

    def expect(path, got):
        a, b = ("sym", "a." + path), ("sym", "b." + path)
        try:
            ok = S.to_poly(A.deref_all(it, got)) == S.to_poly(("symop", "Add", a, b))
        except S.NotPolynomial:
            ok = False
        checked.append((path, ok))
        if not ok:
            bad.append((path, got))
    for i, n in enumerate(names):
        if n in ("objs", "prims", "verts", "frags"):
            expect(n + ".i", res[3][i][3][0])
            expect(n + ".o", res[3][i][3][1])
        elif n in ("calls", "frames"):
            expect(n, res[3][i])
    rep.inst("C07.F5", "Stats += Stats on symbolic counters: %s" % checked, config=cfg)
    for path, got in bad:
        rep.violate("C07.F5", "F5|%s" % path, body.where(),
                    "after `a += b`, a.%s is %r instead of a.%s + b.%s" % (path, got, path, path), config=cfg)


def winding_rules(rep, prog):
    """F6: is_backface decides by the sign of ONE polynomial P(v0,v1,v2) in the screen x,y of the
    three vertices with P(v0,v2,v1) = -P(v0,v1,v2) and P(v1,v2,v0) = P(v0,v1,v2): exactly one of
    the two vertex orders of a non-degenerate triangle is a back face, whichever vertex comes first."""
    from . import symalg as S
    cfg = prog.config
    isb = prog.bodies.get("retrofire_core::render::is_backface")
    if isb is None:
        rep.notes.append("C07.F6: render.rs has no separate is_backface function (the test is written inline): one-winding-only is decided on the reference "
                         "scene's rotated / reversed triangles under F3")
        return
    VTX = "retrofire_core::geom::Vertex"

    def decide(order):
        seen = []

        def orc(op, a, b):
            if b == ("f", 0.0) and op in ("Gt", "Lt", "Ge", "Le"):
                seen.append((op, a))
                return True
            if a == ("f", 0.0) and op in ("Gt", "Lt", "Ge", "Le"):
                seen.append(({"Gt": "Lt", "Lt": "Gt", "Ge": "Le", "Le": "Ge"}[op], b))
                return True
            return None
        it = S.interp(prog, oracle=orc)
        vs = ("array", [("adt", VTX, "Vertex", [S.point(["x%d" % i, "y%d" % i, "z%d" % i]), A.UNKNOWN]) for i in order])
        try:
            it.call_body(isb, [S.ref_to(vs)])
        except (A.Undecided, A.Panic) as e:
            raise common.Infra("C07.F6: is_backface could not be evaluated symbolically (%s)" % e)
        if len(seen) != 1:
            raise common.Infra("C07.F6: is_backface does not decide by a single sign test (%d comparisons)" % len(seen))
        op, v = seen[0]
        try:
            p = S.to_poly(v)
        except S.NotPolynomial as e:
            raise common.Infra("C07.F6: the quantity whose sign is_backface tests is not a polynomial of the vertex positions (%s)" % e)
        if op in ("Lt", "Le"):
            p = {m: -c for m, c in p.items()}
        return p
    p012, p021, p120 = decide((0, 1, 2)), decide((0, 2, 1)), decide((1, 2, 0))
    anti = p021 == {m: -c for m, c in p012.items()}
    cyc = p120 == p012
    planar = not any(sym.startswith("z") for m in p012 for sym in m) and bool(p012)
    rep.inst("C07.F6", "is_backface = sign of P = %s ; P(v0,v2,v1) = -P: %s ; P(v1,v2,v0) = P: %s ; depends on screen x,y only: %s"
             % (dict(list(p012.items())[:6]), anti, cyc, planar), config=cfg)
    if not (anti and cyc and planar):
        rep.violate("C07.F6", "F6|winding-polynomial", isb.where(),
                    "is_backface is not the sign of an antisymmetric, cyclically invariant polynomial of the screen positions "
                    "(antisymmetric=%s cyclic=%s planar=%s): a triangle could be culled (or drawn) in both vertex orders" % (anti, cyc, planar), config=cfg)


def check_config(rep, prog):
    cfg = prog.config
    rep.guard(winding_rules, rep, prog)

    def targets():
        # F1 / F2 by interpreting both impls over the scenarios of sa/target_sem.py (shape-independent; the control-dependence
        # rules of flag_rules() that this replaced fired on behaviour-preserving rewrites, DESIGN 8.13)
        from . import target_sem as TS
        thorough = rep.tier == "thorough"
        for which, name, path in (("framebuf", "Framebuf::rasterize", FB_RASTERIZE), ("colour", "<Buf as Target>::rasterize", BUF_RASTERIZE)):
            try:
                n, findings = TS.check_target(prog, which, thorough)
            except A.Undecided as e:
                raise common.Infra("C07.F1: %s could not be interpreted over the flag scenarios (%s%s)" % (name, e, "; in " + " < ".join(getattr(e, "stack", [])[:3]) if getattr(e, "stack", None) else ""))
            mine = [f for f in findings if f[0] in ("F1", "F2")]
            rep.inst("C07.F1", "%s interpreted in %d scenarios (depth predicate x stored/new order x shader result x color_write x depth_write, plus empty spans): "
                     "each buffer is written exactly for passing, shaded fragments whose flag is on: %s" % (name, n, not any(f[0] == "F1" for f in mine)), config=cfg)
            rep.inst("C07.F2", "%s: Throughput.o = number of colour writes, Throughput.i = span length in every scenario: %s" % (name, not any(f[0] == "F2" for f in mine)), config=cfg)
            rep.count("target_scenarios", n)
            for clause, key, msg in mine:
                rep.violate("C07." + clause, "%s|%s|%s" % (clause, name, key), prog.body(path).where(), "%s: %s" % (name, msg), config=cfg)
    rep.guard(targets)

    def culling():
        # F3 / F4 / F6 by interpreting render() on the reference scene of sa/render_sem.py (both windings, rotated and reversed vertex orders
        # of one shape, a y-flipping viewport, a triangle crossing the near plane, a sub-pixel triangle) under every face_cull setting
        from . import render_sem as RSEM
        rn = prog.body(RENDER)
        try:
            n, findings = RSEM.check(prog)
        except A.Undecided as e:
            raise common.Infra("C07.F3: render() could not be interpreted on the reference scene (%s)" % e)
        cull = [f for f in findings if f[0] == "cull" or (f[0] == "pipeline" and f[1] == "dropped")]
        stats = [f for f in findings if f[0] == "stats"]
        rep.inst("C07.F3", "render() interpreted in %d (face_cull, depth_sort) settings: None draws every visible triangle, Back exactly those whose on-screen "
                 "(p1-p0) x (p2-p0) <= 0, Front the others - the same whichever vertex comes first, decided on the positions that are rasterised: %s" % (n, not cull), config=cfg)
        for cl, key, msg in cull:
            rep.violate("C07.F3", "F3|None/dropped" if cl == "pipeline" else "F3|%s" % key, rn.where(), msg, config=cfg)
        rep.inst("C07.F4", "statistics after render() on the reference scene: calls + 1, inputs from the slice lengths, outputs + 1 / + 3 per triangle that reaches tri_fill, "
                 "every rasterize result accumulated, merged into ctx.stats: %s" % (not stats), config=cfg)
        for _cl, key, msg in stats:
            rep.violate("C07.F4", "F4|%s" % key, rn.where(), msg, config=cfg)
        rep.count("render_settings", n)
    rep.guard(culling)
    rep.guard(must_fill_rule, rep, prog)
    rep.guard(addassign_rules, rep, prog)


def check(rep, args):
    configs = ["ws"] if rep.tier == "quick" else common.ALL_CONFIGS
    rep.configs = configs
    for cfg in configs:
        check_config(rep, facts.program(cfg))
    cov = {
        "explanation": "both Target::rasterize impls interpreted over (flags x shader result x depth outcome) scenarios and render() interpreted on a reference "
                       "scene under every face_cull setting (sa/target_sem.py, sa/render_sem.py); path-sensitive must-pass rule for tri_fill with culling off; "
                       "abstract interpretation of Stats::add_assign with symbolic counters",
        "evaluations": len(rep.instances),
        "distinct_nontrivial": len({i["what"] for i in rep.instances}),
        "rules": ["F1", "F2", "F3", "F4", "F5", "F6"],
    }
    return "other", cov, [
        "MIR at -Zmir-opt-level=0 faithfully represents the source",
        "which on-screen winding counts as 'back' (positive (p1-p0) x (p2-p0) with y pointing down) is the pinned tree's convention, taken as the reference",
        "RefCell::borrow_mut on ctx.stats does not fail (no outstanding borrow)"]
