"""Behaviour of the three layers of the clipper, by abstract interpretation (C03 D1, D2, D3, D5).

  plane layer   ClipPlane::clip_simple_polygon on a triangle with SYMBOLIC plane, positions, attributes, in the 27 scenarios of the signs of
                the three signed distances (a comparison is decided at a numeric witness of the scenario, the values stay symbolic): the
                output must be the Sutherland-Hodgman list - every inside vertex as it was given, and on every strictly crossing edge
                (a, b) one new vertex whose position AND attribute are a + t (b - a) with the same t = -d_a / (d_b - d_a), as identities
                of rational functions - in cyclic order
  planes layer  the free clip_simple_polygon with the plane layer uninterpreted: plane k receives what plane k-1 produced into an empty
                output; an empty result ends the polygon
  batch layer   <[Tri<ClipVert>] as Clip>::clip with `status` and the per-plane step uninterpreted (one plane), on the batch
                [Visible, Clipped -> pentagon, Clipped -> nothing left, Hidden, Clipped -> triangle]: visible triangles come out unchanged,
                hidden and vanished ones produce nothing, a polygon q0..qn comes out as the fan (q0, qi, qi+1); the (single, uninterpreted)
                plane step of every clipped triangle receives exactly that triangle's three vertices and an empty output vector
                (results cannot depend on earlier triangles)

Independent of how the loops, the inside test and the buffer handling are written."""
import itertools

from . import absint as A, symalg as S, poly as PL

RC = "retrofire_core::"
CL = RC + "render::clip::"
VEC = RC + "math::vec::Vector"
TRI = RC + "geom::Tri"
PLANE_FN = CL + "ClipPlane::clip_simple_polygon"
FREE_FN = CL + "clip_simple_polygon"
CLIP_FN = RC + "<[geom::Tri<render::clip::ClipVert<A>>] as render::clip::Clip>::clip"
SIGN_VAL = {"neg": -1.5, "zero": 0.0, "pos": 2.25}
BIT = 4


def clipvert(prog, pos, attrib, outcode):
    f = prog.adts[CL + "ClipVert"]["variants"][0]["fields"]
    vals = {"pos": ("adt", VEC, "Vector", [("array", list(pos)), ("tuple", [])]), "attrib": attrib, "outcode": outcode}
    return ("adt", CL + "ClipVert", "ClipVert", [vals[x] for x in f])


def fields_of(prog, it, v):
    f = prog.adts[CL + "ClipVert"]["variants"][0]["fields"]
    v = A.deref_all(it, v)
    if not (isinstance(v, tuple) and v[0] == "adt" and v[2] == "ClipVert"):
        raise A.Undecided("the output contains something that is not a ClipVert (%r)" % (str(v)[:60],))
    pos = [A.deref_all(it, c) for c in S.components(it, v[3][f.index("pos")])]
    return pos, A.deref_all(it, v[3][f.index("attrib")]), A.deref_all(it, v[3][f.index("outcode")])


def plane_layer(prog):
    """-> (n_scenarios, findings [(key, message)])"""
    body = prog.body(PLANE_FN)
    findings, seen = [], set()
    comps = "xyzw"
    P = [[S.sym("%s%d" % (c, i)) for c in comps] for i in range(3)]
    ATT = [S.sym("a%d" % i) for i in range(3)]
    N = [S.sym("n" + c) for c in comps]
    n = 0
    for signs in itertools.product(("neg", "zero", "pos"), repeat=3):
        n += 1
        # witness: the plane x = 0 (normal (1, 0, 0, 0)); x_i realises the sign, the other coordinates are generic
        point = {"nx": 1.0, "ny": 0.0, "nz": 0.0, "nw": 0.0}
        for i in range(3):
            point.update({"x%d" % i: SIGN_VAL[signs[i]] * (1 + 0.25 * i) if signs[i] != "zero" else 0.0, "y%d" % i: 0.3 + 0.7 * i, "z%d" % i: -0.2 + 0.45 * i,
                          "w%d" % i: 1.0 + 0.5 * i, "a%d" % i: 3.0 + 2.0 * i})

        def orc(op, a, b, point=point):
            try:
                x, y = S.num_eval(a, point), S.num_eval(b, point)
            except Exception:
                return None
            return {"Lt": x < y, "Le": x <= y, "Gt": x > y, "Ge": x >= y, "Eq": x == y, "Ne": x != y}.get(op)
        it = S.interp(prog, oracle=orc)
        verts = [clipvert(prog, P[i], ATT[i], BIT if signs[i] == "pos" else 0) for i in range(3)]
        plane = ("adt", CL + "ClipPlane", "ClipPlane", [("adt", VEC, "Vector", [("array", list(N)), ("tuple", [])]), BIT])
        vin, vout, pc = A.Frame(None), A.Frame(None), A.Frame(None)
        vin.locals[0], vout.locals[0], pc.locals[0] = ("array", verts), ("array", []), plane
        tag = "signed distances (%s)" % ", ".join(signs)
        try:
            it.call_body(body, [("ref", pc, 0, []), ("ref", vin, 0, []), ("ref", vout, 0, [])], env={"A": "f32"})
            out = [fields_of(prog, it, v) for v in vout.locals[0][1]]
        except A.Panic as e:
            key = "plane|panic"
            if key not in seen:
                seen.add(key)
                findings.append((key, "clipping a triangle against a plane panics with %s (%s)" % (tag, str(e)[:80])))
            continue
        # expected Sutherland-Hodgman list
        want = []
        for i in range(3):
            j = (i + 1) % 3
            if signs[i] != "pos":
                want.append(("keep", i))
            if {signs[i], signs[j]} == {"neg", "pos"}:
                want.append(("cross", i, j))
        ok = len(out) == len(want)
        why = None if ok else "%d vertices come out, Sutherland-Hodgman gives %d (%s)" % (len(out), len(want), want)
        if ok:
            D = [{tuple(sorted(("n" + c, "%s%d" % (c, i)))): 1 for c in comps} for i in range(3)]
            for (pos, att, _oc), w in zip(out, want):
                if w[0] == "keep":
                    if pos != P[w[1]] or att != ATT[w[1]]:
                        ok, why = False, "inside vertex %d is not emitted as it was given (got position %s, attribute %s)" % (w[1], [str(c)[:20] for c in pos], str(att)[:30])
                        break
                else:
                    i, j = w[1], w[2]
                    den = PL.padd(D[j], {m: -c for m, c in D[i].items()})          # d_j - d_i

                    def expect(pa, pb):
                        # pa + t (pb - pa), t = -d_i / (d_j - d_i)  ==  (pa (d_j - d_i) - d_i (pb - pa)) / (d_j - d_i)
                        num = PL.padd(PL.pmul(pa, den), {m: -c for m, c in PL.pmul(D[i], PL.padd(pb, {m: -c for m, c in pa.items()})).items()})
                        return num, den
                    vals = list(zip(pos, [({(P[i][k][1],): 1}, {(P[j][k][1],): 1}) for k in range(4)])) + [(att, ({(ATT[i][1],): 1}, {(ATT[j][1],): 1}))]
                    for got, (pa, pb) in vals:
                        try:
                            if not S.ratio_eq(S.to_ratio(got), expect(pa, pb)):
                                # the same point written from the other end: b + t' (a - b) with t' = -d_j / (d_i - d_j) - the SAME point of the edge
                                ok, why = False, "the vertex inserted on edge (%d, %d) is not a + t (b - a) with t = -d_a / (d_b - d_a) in %s" % (
                                    i, j, "a position component" if got is not att else "the attribute (position and attribute must use the same t and endpoint order)")
                                break
                        except S.NotPolynomial:
                            ok, why = False, "the vertex inserted on edge (%d, %d) is computed with operations outside the rational functions" % (i, j)
                            break
                    if not ok:
                        break
        if not ok:
            key = "plane|" + ("keep-inside" if why and "inside vertex" in why else ("interpolation" if why and "inserted" in why else "vertex-list"))
            if key not in seen:
                seen.add(key)
                findings.append((key, "per-plane clip with %s: %s" % (tag, why)))
    return n, findings


def planes_layer(prog):
    """-> findings for the multi-plane driver (buffer hand-over between planes)"""
    body = prog.body(FREE_FN)
    findings = []
    for scen_name, script in (("nothing vanishes", [["A1", "A2", "A3", "A4"], ["B1", "B2", "B3"], ["C1", "C2", "C3", "C4", "C5"]]),
                              ("the second plane leaves nothing", [["A1", "A2", "A3"], [], ["C1"]])):
        log = []
        vin, vout = A.Frame(None), A.Frame(None)
        vin.locals[0] = ("array", [S.sym("T0"), S.sym("T1"), S.sym("T2")])
        vout.locals[0] = ("array", [])

        def m_plane(it, args, c, d, script=script, log=log):
            k = len(log)
            inp = A.deref_all(it, args[1])
            outv = A.deref_all(it, args[2])
            pl = A.deref_all(it, args[0])
            log.append(([A.deref_all(it, x) for x in inp[1]] if isinstance(inp, tuple) and inp[0] == "array" else None,
                        list(outv[1]) if isinstance(outv, tuple) and outv[0] == "array" else None, pl))
            res = [S.sym(x) for x in (script[k] if k < len(script) else [])]
            r = args[2]
            while isinstance(r, tuple) and r[0] == "ref" and isinstance(it.load_ref(r), tuple) and it.load_ref(r)[0] == "ref":
                r = it.load_ref(r)
            it._store(r[1], r[2], list(r[3]), ("array", (list(outv[1]) if isinstance(outv, tuple) and outv[0] == "array" else []) + res))
            return ("tuple", [])
        it = S.interp(prog, models={PLANE_FN: m_plane})
        planes = A.Frame(None)
        planes.locals[0] = ("array", [("sym", "PLANE%d" % k) for k in range(3)])
        try:
            it.call_body(body, [("ref", planes, 0, []), ("ref", vin, 0, []), ("ref", vout, 0, [])], env={"A": "f32"})
        except A.Panic as e:
            findings.append(("planes|panic", "the plane loop panics when %s (%s)" % (scen_name, str(e)[:60])))
            continue
        final = [A.deref_all(it, x) for x in A.deref_all(it, ("ref", vout, 0, []))[1]]
        # what each plane must have seen
        prev = [S.sym("T0"), S.sym("T1"), S.sym("T2")]
        ok, why = True, None
        for k, (inp, outv, pl) in enumerate(log):
            if pl != ("sym", "PLANE%d" % k):
                ok, why = False, "plane #%d of the loop is %s" % (k, str(pl)[:30])
            elif inp != prev:
                ok, why = False, "plane %d is given %s instead of what the previous plane produced (%s)" % (k, [str(x)[8:-2] for x in inp or []], [x[1] for x in prev])
            elif outv != []:
                ok, why = False, "plane %d writes into an output vector that still holds %d vertices" % (k, len(outv))
            if not ok:
                break
            prev = [S.sym(x) for x in script[k]]
            if not prev:
                break
        want_final = prev
        if ok and not (final == want_final or (not want_final and not final)):
            ok, why = False, "the result is %s, the last plane produced %s" % ([str(x)[8:-2] for x in final], [x[1] for x in want_final])
        if ok and want_final and len(log) != len(script):
            ok, why = False, "%d of %d planes were applied" % (len(log), len(script))
        if not ok:
            findings.append(("planes|hand-over", "multi-plane clip, scenario '%s': %s" % (scen_name, why)))
    return findings


def batch_layer(prog):
    """-> findings for Clip::clip on a batch"""
    body = prog.body(CLIP_FN)
    findings = []
    ST = CL + "Status"
    script = [("Visible", None), ("Clipped", 5), ("Clipped", 0), ("Hidden", None), ("Clipped", 3)]
    tris = []
    for k in range(len(script)):
        vs = [clipvert(prog, [S.sym("p%d%d%s" % (k, i, c)) for c in "xyzw"], S.sym("a%d%d" % (k, i)), S.sym("o%d%d" % (k, i))) for i in range(3)]
        tris.append(("adt", TRI, "Tri", [("array", vs)]))
    calls = []
    state = {"status": 0}

    def which(it, vs):
        """index of the batch triangle a slice of ClipVerts belongs to (by its first attribute symbol)"""
        v = A.deref_all(it, vs)
        if isinstance(v, tuple) and v[0] == "array" and v[1]:
            f = prog.adts[CL + "ClipVert"]["variants"][0]["fields"]
            e0 = A.deref_all(it, v[1][0])
            a0 = A.deref_all(it, e0[3][f.index("attrib")]) if isinstance(e0, tuple) and e0[0] == "adt" else None
            if isinstance(a0, tuple) and a0[0] == "sym" and a0[1].startswith("a"):
                return int(a0[1][1])
        return None

    def m_status(it, args, c, d):
        k = which(it, args[0])
        if k is None:
            raise A.Undecided("status() is asked about something that is not a batch triangle")
        state.setdefault("asked", []).append(k)
        return ("adt", ST, script[k][0], [])

    def m_free(it, args, c, d):
        inp = A.deref_all(it, args[1])
        outv = A.deref_all(it, args[2])
        k = which(it, args[1])
        calls.append((k, [A.deref_all(it, x) for x in inp[1]] if isinstance(inp, tuple) and inp[0] == "array" else None,
                      len(outv[1]) if isinstance(outv, tuple) and outv[0] == "array" else None))
        nq = script[k][1] if k is not None and script[k][1] is not None else 0
        res = [clipvert(prog, [S.sym("q%d%d%s" % (k, i, c)) for c in "xyzw"], S.sym("b%d%d" % (k, i)), 0) for i in range(nq)]
        r = args[2]
        while isinstance(r, tuple) and r[0] == "ref" and isinstance(it.load_ref(r), tuple) and it.load_ref(r)[0] == "ref":
            r = it.load_ref(r)
        it._store(r[1], r[2], list(r[3]), ("array", (list(outv[1]) if isinstance(outv, tuple) and outv[0] == "array" else []) + res))
        return ("tuple", [])
    # the per-plane step is the uninterpreted one: whatever the multi-plane driver does to its buffers (clearing them itself, say) is seen
    it = S.interp(prog, models={"view_frustum::status": m_status, PLANE_FN: m_free})
    tcell, ocell, pcell = A.Frame(None), A.Frame(None), A.Frame(None)
    tcell.locals[0], ocell.locals[0], pcell.locals[0] = ("array", tris), ("array", []), ("array", [("sym", "PLANE0")])
    try:
        it.call_body(body, [("ref", tcell, 0, []), ("ref", pcell, 0, []), ("ref", ocell, 0, [])], env={"A": "f32"})
    except A.Panic as e:
        return [("batch|panic", "Clip::clip panics on the reference batch (%s)" % str(e)[:80])]
    f = prog.adts[CL + "ClipVert"]["variants"][0]["fields"]

    def ident(v):
        v = A.deref_all(it, v)
        a = A.deref_all(it, v[3][f.index("attrib")])
        return a[1] if isinstance(a, tuple) and a[0] == "sym" else str(a)[:20]
    out = []
    for t in ocell.locals[0][1]:
        t = A.deref_all(it, t)
        arr = A.deref_all(it, t[3][0])
        out.append(tuple(ident(v) for v in arr[1]))
    want = [("a00", "a01", "a02")] + [("b10", "b1%d" % i, "b1%d" % (i + 1)) for i in range(1, 4)] + [("b40", "b41", "b42")]
    # D1: visible unchanged / hidden nothing
    if ("a00", "a01", "a02") not in out:
        findings.append(("batch|visible-changed", "a triangle classified Visible does not come out unchanged (output: %s)" % out[:3]))
    if any(x[0].startswith("a3") or x[0].startswith("b3") for x in out):
        findings.append(("batch|hidden-emits", "a triangle classified Hidden still appends to the output"))
    if any(k in (0, 3) for k, _i, _o in calls):
        findings.append(("batch|needless-clip", "the polygon clipper runs for a triangle classified Visible or Hidden (it must be passed through / dropped as it is)"))
    # D2: batch independence
    for k, inp, nout in calls:
        if k is None:
            continue
        mine = ["a%d%d" % (k, i) for i in range(3)]
        got = []
        for v in inp or []:
            a = A.deref_all(it, v[3][f.index("attrib")]) if isinstance(v, tuple) and v[0] == "adt" else None
            got.append(a[1] if isinstance(a, tuple) and a[0] == "sym" else "?")
        if got != mine:
            findings.append(("batch|scratch-in", "the clipper call for triangle %d receives %s instead of exactly that triangle's vertices: the scratch polygon is not "
                             "cleared between triangles, results depend on earlier triangles in the batch" % (k, got)))
            break
        if nout:
            findings.append(("batch|scratch-out", "the clipper call for triangle %d is handed an output vector that still holds %d vertices of an earlier triangle" % (k, nout)))
            break
    # D5: fans
    if not any(x[0] in ("batch|scratch-in", "batch|scratch-out") for x in findings):
        fans = [x for x in out if x[0].startswith("b")]
        if fans != want[1:]:
            findings.append(("batch|fan", "clipped polygons are not re-triangulated as the fan (q0, qi, qi+1) over consecutive edges, in order: got %s, expected %s" % (fans, want[1:])))
    if out and not findings and out != want:
        findings.append(("batch|order", "the batch comes out as %s, expected %s" % (out, want)))
    return findings
