"""Engine T helper: evaluate a provenance term over compiler-evaluated tables.

Given bindings for loop items (keyed by the `Iterator::next` call site) a term
built from table lookups, tuple/field projections, vector constructors and
{+,-,*,/,neg,sqrt,normalize} is evaluated to plain Python data. Tables come from
rustc's const evaluator (prog.consts). No retrofire function is executed; the
vector helpers modelled here (normalize, to_pt, to_vec, pt3/vec3, Neg) are listed
in MODELS and anything else raises CannotEval.
"""
import math

from . import term as T


class CannotEval(Exception):
    pass


def vec_of(v):
    """table JSON value of a Vector/Point -> list of floats"""
    if isinstance(v, dict) and "0" in v and isinstance(v["0"], list):
        return [float(x) for x in v["0"]]
    if isinstance(v, list) and all(isinstance(x, (int, float)) for x in v):
        return [float(x) for x in v]
    raise CannotEval("not a vector: %r" % (v,))


def norm(v):
    return math.sqrt(sum(x * x for x in v))


class Evaluator:
    def __init__(self, prog, env=None, upvars=None, params=None):
        self.prog = prog
        self.env = env or {}        # next-call site -> item value
        self.upvars = upvars or {}  # name -> value
        self.params = params or {}  # n -> value

    def table(self, name):
        c = self.prog.consts.get(name)
        if c is None:
            raise CannotEval("unknown constant " + name)
        return c["value"]

    def ev(self, t):
        h = t[0]
        if h == "const":
            v = t[2]
            if isinstance(v, str) and v.startswith("item:"):
                return self.table(v[5:].split(":promoted")[0])
            if isinstance(v, (int, float)):
                return v
            raise CannotEval("constant %r" % (v,))
        if h in ("ref", "deref"):
            return self.ev(t[1])
        if h == "cast":
            v = self.ev(t[2])
            if t[1] == "IntToFloat":
                return float(v)
            return v
        if h == "phi" and len(t[2]) == 1:
            return self.ev(t[2][0])
        if h == "upvar":
            if t[1] in self.upvars:
                return self.upvars[t[1]]
            raise CannotEval("unbound upvar " + t[1])
        if h == "param":
            if t[1] in self.params:
                return self.params[t[1]]
            raise CannotEval("unbound param %d" % t[1])
        if h == "downcast":
            inner = t[1]
            if inner[0] == "call" and "::next" in inner[1] and t[2] == "Some":
                site = inner[3]
                if site in self.env:
                    return ("some", self.env[site])
                raise CannotEval("unbound loop item at %s" % (site,))
            return self.ev(inner)
        if h == "field":
            b = self.ev(t[1])
            name = t[2].split(".")[-1]
            if isinstance(b, tuple) and b and b[0] == "some":
                return b[1]
            if isinstance(b, dict):
                if name in b:
                    return b[name]
                raise CannotEval("no field %s in %r" % (name, b))
            if isinstance(b, (list, tuple)) and name.isdigit():
                return b[int(name)]
            raise CannotEval("field %s of %r" % (name, b))
        if h == "index":
            b = self.ev(t[1])
            i = self.ev(t[2])
            if isinstance(b, dict) and "0" in b and isinstance(b["0"], list):
                b = b["0"]
            if isinstance(b, (list, tuple)) and isinstance(i, int) and 0 <= i < len(b):
                return b[i]
            raise CannotEval("index %r of %r" % (i, str(b)[:80]))
        if h == "cindex":
            b = self.ev(t[1])
            if isinstance(b, dict) and "0" in b and isinstance(b["0"], list):
                b = b["0"]
            i = len(b) - t[2] if t[3] else t[2]
            return b[i]
        if h == "agg":
            if t[1] in ("tuple", "array"):
                return [self.ev(x) for x in t[2]]
            if t[1] == "repeat":
                raise CannotEval("repeat aggregate")
            raise CannotEval("aggregate " + t[1])
        if h == "bin":
            op = t[1].replace("WithOverflow", "").replace("Unchecked", "")
            a, b = self.ev(t[2]), self.ev(t[3])
            if op == "Add":
                r = a + b
            elif op == "Sub":
                r = a - b
            elif op == "Mul":
                r = a * b
            elif op == "Div":
                if isinstance(a, int) and isinstance(b, int):
                    r = a // b
                else:
                    r = a / b
            else:
                raise CannotEval("operator " + op)
            if "WithOverflow" in t[1]:
                return [r, False]
            return r
        if h == "un" and t[1] == "Neg":
            v = self.ev(t[2])
            return [-x for x in v] if isinstance(v, list) else -v
        if h == "call":
            return self.call(t)
        raise CannotEval("term %s" % T.show(t)[:120])

    def call(self, t):
        path = t[1]
        args = t[2]
        last = path.split(" => ")[0]
        if last.startswith("<indirect>"):
            if "sqrt" in last:
                return math.sqrt(self.ev(args[0]))
            raise CannotEval("indirect call " + last)
        if "::normalize" in path:
            v = vec_of(self.ev(args[0]))
            n = norm(v)
            if n == 0:
                raise CannotEval("normalize of zero vector")
            return [x / n for x in v]
        if path.endswith("::to_pt") or path.endswith("::to_vec") or "::to_pt =>" in path or "::to_vec =>" in path \
                or last.endswith("Into::into") or last.endswith("From::from") or last.endswith("::to"):
            return vec_of(self.ev(args[0]))
        if last.endswith("point::pt3") or last.endswith("vec::vec3") or last.endswith("point::pt2") or last.endswith("vec::vec2"):
            return [float(self.ev(a)) for a in args]
        if last.endswith("ops::arith::Neg::neg"):
            v = vec_of(self.ev(args[0]))
            return [-x for x in v]
        if last.endswith("::sqrt"):
            return math.sqrt(self.ev(args[0]))
        raise CannotEval("call " + path)


def closure_eval(ev, clos_term, arg_values):
    """Evaluate the return term of a closure value term ('agg','closure:PATH',caps)
    with positional args bound to params 2.. and captures bound by upvar name."""
    if not (clos_term[0] == "agg" and clos_term[1].startswith("closure:")):
        raise CannotEval("not a closure: %s" % T.show(clos_term)[:80])
    path = clos_term[1][len("closure:"):]
    body = ev.prog.bodies.get(path)
    if body is None:
        raise CannotEval("closure body missing: " + path)
    sl = T.Slicer(body)
    upv = {}
    for idx, (name, _byref) in sl.upvars().items():
        if idx < len(clos_term[2]):
            upv[name] = ev.ev(clos_term[2][idx])
    params = {i + 2: v for i, v in enumerate(arg_values)}
    sub = Evaluator(ev.prog, env=ev.env, upvars=upv, params=params)
    return sub.ev(sl.local(0))


_orig_call = Evaluator.call


def _call(self, t):
    path = t[1]
    last = path.split(" => ")[0]
    args = t[2]
    if last.endswith("array::<impl [T; N]>::map"):
        arr = self.ev(args[0])
        return [closure_eval(self, args[1], [x]) for x in arr]
    if last.endswith("core::array::from_fn"):
        out = []
        for i in range(16):
            try:
                out.append(closure_eval(self, args[0], [i]))
            except (CannotEval, IndexError):
                break
        if not out:
            raise CannotEval("from_fn closure could not be evaluated")
        return out
    if last.endswith("ops::index::Index::index"):
        b = self.ev(args[0])
        i = self.ev(args[1])
        if isinstance(b, dict) and "0" in b and isinstance(b["0"], list):
            b = b["0"]
        if isinstance(b, list) and isinstance(i, int) and 0 <= i < len(b):
            return b[i]
        raise IndexError("index %r" % (i,))
    if last.endswith("math::Lerp::lerp"):
        a, b, tt = self.ev(args[0]), self.ev(args[1]), self.ev(args[2])
        if isinstance(a, (int, float)) and isinstance(b, (int, float)):
            return a + tt * (b - a)
        a, b = vec_of(a), vec_of(b)
        return [x + tt * (y - x) for x, y in zip(a, b)]
    return _orig_call(self, t)


Evaluator.call = _call


def iter_domain(ev, t):
    """Items yielded by an iterator-valued term."""
    while t[0] in ("ref", "deref") or (t[0] == "cast"):
        t = t[1] if t[0] != "cast" else t[2]
    if t[0] == "call":
        last = t[1].split(" => ")[0]
        if last.endswith("IntoIterator::into_iter") or last.endswith("<impl [T]>::iter") or last.endswith("Iterator::copied") or last.endswith("Iterator::cloned"):
            return iter_domain(ev, t[2][0])
        if last.endswith("Iterator::enumerate"):
            return [[i, x] for i, x in enumerate(iter_domain(ev, t[2][0]))]
        if last.endswith("Iterator::rev"):
            return list(reversed(iter_domain(ev, t[2][0])))
        if last.endswith("Iterator::zip"):
            return [[a, b] for a, b in zip(iter_domain(ev, t[2][0]), iter_domain(ev, t[2][1]))]
    v = ev.ev(t)
    if isinstance(v, dict) and "0" in v and isinstance(v["0"], list):
        v = v["0"]
    if isinstance(v, list):
        return v
    raise CannotEval("iterator domain of %s" % T.show(t)[:100])
