"""C09 — transform algebra: compose, apply, determinant, constructors
(the algebraic part, decided as polynomial identities over the reals).

Engine A in its commutative-ring domain (sa/symalg.py) interprets the MIR of the
matrix/vector functions on SYMBOLIC entries; results are normalised to
polynomials and compared. Decides:
  A1  compose(A, B) is the matrix product A.B (3x3 and 4x4); then(A, B) = compose(B, A)
  A2  applying a composition = applying the parts in order, for affine matrices
      (last row 0..0 1): apply / apply_pt of Mat4x4 and Mat3x3
  A3  determinant is multiplicative and det(identity) = 1; transpose swaps indices
  A4  constructors: translate(t).apply_pt(p) = p + t; scale(s) multiplies
      componentwise; from_basis(i,j,k).apply(v) = x i + y j + z k;
      rotate_x/y/z are orthogonal (R.R^T = I), have determinant 1 and preserve
      squared length modulo sin^2 + cos^2 = 1, and fix their own axis
  A5  linear part on VECTORS: translate(t).apply(v) = v (a vector is not moved
      by a translation)
  A6  dot is symmetric and bilinear; cross is anticommutative and orthogonal to
      both operands
Leaves: the inverse (Gauss-Jordan with pivoting branches on float magnitudes),
conditioning, every float rounding effect.
"""
from fractions import Fraction

from . import facts, common, absint as A, symalg as S, poly as PL

M = "retrofire_core::math::mat::"
V = "retrofire_core::math::vec::"


def polys(it, v):
    return [S.to_poly(c) for c in S.components(it, v)]


def affine(prefix, n):
    rows = [[S.sym("%s%d%d" % (prefix, i, j)) for j in range(n)] for i in range(n - 1)]
    rows.append([("f", 0.0)] * (n - 1) + [("f", 1.0)])
    return S.matrix(prefix, n, rows)


def product(a, b, n):
    out = []
    for i in range(n):
        for j in range(n):
            acc = {}
            for k in range(n):
                acc = PL.padd(acc, PL.pmul(a[i * n + k], b[k * n + j]))
            out.append(acc)
    return out


def check_config(rep, prog):
    cfg = prog.config
    feats = prog.features

    def run(path, args, env=None, models=None):
        it = S.interp(prog, models=models)
        try:
            return it, it.call_body(prog.body(path), args, env=env or {})
        except (A.Undecided, A.Panic, S.NotPolynomial) as e:
            raise common.Infra("C09: %s could not be evaluated symbolically (%s); rule needs re-confirmation" % (path, e))

    def same(got, want, rule, key, where, what):
        ok = len(got) == len(want) and all(g == w for g, w in zip(got, want))
        rep.inst("C09." + rule, "%s: %s" % (what, "identity holds (%d components)" % len(got) if ok else "MISMATCH"), config=cfg)
        if not ok:
            bad = [(i, g, w) for i, (g, w) in enumerate(zip(got, want)) if g != w][:2]
            rep.violate("C09." + rule, "%s|%s" % (rule, key), where,
                        "%s does not hold as a polynomial identity; first differing component %s" % (what, [(i, str(g)[:120], str(w)[:120]) for i, g, w in bad]),
                        config=cfg)
        return ok
    comp = M + "Matrix::<[[Sc; N]; N], Map>::compose"
    then = M + "Matrix::<[[Sc; N]; N], Map>::then"
    # ---- A1
    for n in (3, 4):
        a, b = S.matrix("a", n), S.matrix("b", n)
        it, r = run(comp, [S.ref_to(a), S.ref_to(b)], {"Sc": "f32", "N": n})
        pa, pb = polys(it, a), polys(it, b)
        same(polys(it, r), product(pa, pb, n), "A1", "compose%d" % n, prog.body(comp).where(), "compose(A, B) = A.B for %dx%d matrices" % (n, n))
        it2, r2 = run(then, [S.ref_to(a), S.ref_to(b)], {"Sc": "f32", "N": n})
        same(polys(it2, r2), product(pb, pa, n), "A1", "then%d" % n, prog.body(then).where(), "then(A, B) = compose(B, A) = B.A for %dx%d matrices" % (n, n))
    # ---- A2
    for n, apply_p, vec, pt in ((4, M + "Matrix::<[[f32; 4]; 4], math::mat::RealToReal<3, Src, Dst>>::", ["x", "y", "z"], ["x", "y", "z"]),
                                (3, M + "Matrix::<[[f32; 3]; 3], math::mat::RealToReal<2, Src, Dst>>::", ["x", "y"], ["x", "y"])):
        a, b = affine("a", n), affine("b", n)
        it, ab = run(comp, [S.ref_to(a), S.ref_to(b)], {"Sc": "f32", "N": n})
        for meth, mk in (("apply", S.vector), ("apply_pt", S.point)):
            v = mk(vec)
            _i1, lhs = run(apply_p + meth, [S.ref_to(A.copy_val(ab)), S.ref_to(v)])
            _i2, inner = run(apply_p + meth, [S.ref_to(b), S.ref_to(v)])
            i3, rhs = run(apply_p + meth, [S.ref_to(a), S.ref_to(inner)])
            same(polys(_i1, lhs), polys(i3, rhs), "A2", "%s%d" % (meth, n), prog.body(apply_p + meth).where(),
                 "compose(A, B).%s(v) = A.%s(B.%s(v)) for affine %dx%d matrices" % (meth, meth, meth, n, n))
    # ---- A3
    det = M + "Matrix::<[[f32; 4]; 4], math::mat::RealToReal<3, Src, Dst>>::determinant"
    a, b = S.matrix("a", 4), S.matrix("b", 4)
    it, ab = run(comp, [S.ref_to(a), S.ref_to(b)], {"Sc": "f32", "N": 4})
    _i, dab = run(det, [S.ref_to(ab)])
    _i, da = run(det, [S.ref_to(a)])
    _i, db = run(det, [S.ref_to(b)])
    same([S.to_poly(dab)], [PL.pmul(S.to_poly(da), S.to_poly(db))], "A3", "det-mult", prog.body(det).where(), "det(A.B) = det(A) det(B) (4x4, %d-term polynomial)" % len(S.to_poly(dab)))
    ident = S.matrix("i", 4, [[("f", 1.0 if i == j else 0.0) for j in range(4)] for i in range(4)])
    _i, di = run(det, [S.ref_to(ident)])
    same([S.to_poly(di)], [{(): Fraction(1)}], "A3", "det-id", prog.body(det).where(), "det(I) = 1")
    tr = M + "Matrix::<[[Sc; N]; N], math::mat::RealToReal<DIM, S, D>>::transpose"
    a = S.matrix("a", 4)
    it, at = run(tr, [a], {"Sc": "f32", "N": 4, "DIM": 3})
    pa = polys(it, a)
    same(polys(it, at), [pa[j * 4 + i] for i in range(4) for j in range(4)], "A3", "transpose", prog.body(tr).where(), "transpose(A)[i][j] = A[j][i]")
    # ---- A4 / A5 constructors
    ap4 = M + "Matrix::<[[f32; 4]; 4], math::mat::RealToReal<3, Src, Dst>>::"
    it, tm = run(M + "translate", [S.vector(["tx", "ty", "tz"])])
    i2, r = run(ap4 + "apply_pt", [S.ref_to(tm), S.ref_to(S.point(["x", "y", "z"]))])
    same(polys(i2, r), [{(c,): Fraction(1), ("t" + c,): Fraction(1)} for c in "xyz"], "A4", "translate-pt", prog.body(M + "translate").where(), "translate(t).apply_pt(p) = p + t")
    i2, r = run(ap4 + "apply", [S.ref_to(tm), S.ref_to(S.vector(["x", "y", "z"]))])
    same(polys(i2, r), [{(c,): Fraction(1)} for c in "xyz"], "A5", "translate-vec", prog.body(ap4 + "apply").where(),
         "translate(t).apply(v) = v (only the linear part acts on vectors)")
    ap3 = M + "Matrix::<[[f32; 3]; 3], math::mat::RealToReal<2, Src, Dst>>::"
    t3 = S.matrix("t", 3, [[("f", 1.0), ("f", 0.0), S.sym("tx")], [("f", 0.0), ("f", 1.0), S.sym("ty")], [("f", 0.0), ("f", 0.0), ("f", 1.0)]])
    i2, r = run(ap3 + "apply", [S.ref_to(t3), S.ref_to(S.vector(["x", "y"]))])
    same(polys(i2, r), [{(c,): Fraction(1)} for c in "xy"], "A5", "translate-vec2", prog.body(ap3 + "apply").where(),
         "a 2D translation matrix applied to a VECTOR leaves it unchanged")
    it, sm = run(M + "scale", [S.vector(["sx", "sy", "sz"])])
    i2, r = run(ap4 + "apply_pt", [S.ref_to(sm), S.ref_to(S.point(["x", "y", "z"]))])
    same(polys(i2, r), [{tuple(sorted((c, "s" + c))): Fraction(1)} for c in "xyz"], "A4", "scale", prog.body(M + "scale").where(), "scale(s).apply_pt(p) = (sx x, sy y, sz z)")
    fb = M + "Matrix::<[[f32; 4]; 4], M>::from_basis"
    it, bm = run(fb, [S.vector(["ix", "iy", "iz"]), S.vector(["jx", "jy", "jz"]), S.vector(["kx", "ky", "kz"])])
    i2, r = run(ap4 + "apply_pt", [S.ref_to(bm), S.ref_to(S.point(["x", "y", "z"]))])
    want = [PL.padd(PL.padd({tuple(sorted(("x", "i" + c))): Fraction(1)}, {tuple(sorted(("y", "j" + c))): Fraction(1)}), {tuple(sorted(("z", "k" + c))): Fraction(1)}) for c in "xyz"]
    same(polys(i2, r), want, "A4", "from_basis", prog.body(fb).where(), "from_basis(i, j, k).apply_pt(p) = x i + y j + z k")
    if "fp" in feats:
        ANG = "retrofire_core::math::angle::Angle"
        rel = [("s", {(): Fraction(1), ("c", "c"): Fraction(-1)})]   # s^2 -> 1 - c^2

        def m_sin_cos(it, args, callee, depth):
            return ("tuple", [S.sym("s"), S.sym("c")])
        for axis, k in (("x", 0), ("y", 1), ("z", 2)):
            path = M + "rotate_" + axis
            it, rm = run(path, [("adt", ANG, "Angle", [S.sym("a")])], models={"angle::Angle::sin_cos": m_sin_cos})
            pr = polys(it, rm)
            rt = [pr[j * 4 + i] for i in range(4) for j in range(4)]
            rrt = [S.reduce_mod(p, rel) for p in product(pr, rt, 4)]
            ident_p = [({(): Fraction(1)} if i == j else {}) for i in range(4) for j in range(4)]
            same(rrt, ident_p, "A4", "rot-%s-orth" % axis, prog.body(path).where(), "rotate_%s(a): R.R^T = I modulo sin^2 + cos^2 = 1 (rigid, transpose = inverse)" % axis)
            i2, d = run(det, [S.ref_to(rm)])
            same([S.reduce_mod(S.to_poly(d), rel)], [{(): Fraction(1)}], "A4", "rot-%s-det" % axis, prog.body(path).where(), "det(rotate_%s(a)) = 1 (handedness preserved)" % axis)
            i3, r = run(ap4 + "apply", [S.ref_to(rm), S.ref_to(S.vector(["x", "y", "z"]))])
            pv = polys(i3, r)
            same([pv[k]], [{("xyz"[k],): Fraction(1)}], "A4", "rot-%s-axis" % axis, prog.body(path).where(), "rotate_%s fixes the %s coordinate" % (axis, axis))
    # ---- A6 dot / cross
    dot = V + "Vector::<[Sc; N], Sp>::dot"
    a, b, c = S.vector(["a0", "a1", "a2"]), S.vector(["b0", "b1", "b2"]), S.vector(["c0", "c1", "c2"])
    it, ab = run(dot, [S.ref_to(a), S.ref_to(b)], {"Sc": "f32", "N": 3})
    it, ba = run(dot, [S.ref_to(b), S.ref_to(a)], {"Sc": "f32", "N": 3})
    same([S.to_poly(ab)], [S.to_poly(ba)], "A6", "dot-sym", prog.body(dot).where(), "a.b = b.a")
    same([S.to_poly(ab)], [{("a%d" % i, "b%d" % i): Fraction(1) for i in range(3)}], "A6", "dot-def", prog.body(dot).where(), "a.b = sum a_i b_i")
    cr = [p for p in prog.bodies if p.startswith(V + "Vector::<R, math::space::Real<3, B>>::cross")]
    if cr:
        crp = cr[0]
        it, axb = run(crp, [S.ref_to(a), S.ref_to(b)])
        it2, bxa = run(crp, [S.ref_to(b), S.ref_to(a)])
        p1, p2 = polys(it, axb), polys(it2, bxa)
        same(p1, [{m: -c2 for m, c2 in p.items()} for p in p2], "A6", "cross-anti", prog.body(crp).where(), "a x b = -(b x a)")
        pa_, pb_ = polys(it, a), polys(it, b)
        orth_a, orth_b = {}, {}
        for i in range(3):
            orth_a = PL.padd(orth_a, PL.pmul(p1[i], pa_[i]))
            orth_b = PL.padd(orth_b, PL.pmul(p1[i], pb_[i]))
        same([orth_a, orth_b], [{}, {}], "A6", "cross-orth", prog.body(crp).where(), "(a x b).a = (a x b).b = 0")
    else:
        raise common.AnchorMissing("C09: Vector::cross not found")


def check(rep, args):
    configs = ["ws"] if rep.tier == "quick" else common.ALL_CONFIGS
    rep.configs = configs
    for cfg in configs:
        check_config(rep, facts.program(cfg))
    cov = {
        "explanation": "symbolic abstract interpretation of compose/then/apply/apply_pt/determinant/transpose/constructors/dot/cross on matrices and "
                       "vectors with symbolic entries; results normalised to polynomials over Q and compared (rotations modulo sin^2+cos^2=1)",
        "evaluations": len(rep.instances),
        "distinct_nontrivial": len({i["what"] for i in rep.instances}),
        "rules": ["A1", "A2", "A3", "A4", "A5", "A6"],
    }
    return "other", cov, ["identities hold over the reals; float rounding, conditioning and the Gauss-Jordan inverse are not decided",
                          "Angle::sin_cos returns (sin a, cos a) with sin^2 + cos^2 = 1"]
