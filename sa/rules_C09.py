"""C09 — transform algebra: compose, apply, determinant, constructors
(the algebraic part, decided as polynomial identities over the reals).

Engine A in its commutative-ring domain (sa/symalg.py) interprets the MIR of the
matrix/vector functions on SYMBOLIC entries; results are normalised to
polynomials and compared. Decides:
  A1  compose(A, B) is the matrix product A.B (3x3 and 4x4); then(A, B) = compose(B, A)
  A2  applying a composition = applying the parts in order, for affine matrices
      (last row 0..0 1): apply / apply_pt of Mat4x4 and Mat3x3
  A3  determinant is multiplicative and det(identity) = 1; transpose swaps indices
  A4  constructors: translate(t).apply_pt(p) = p + t; scale(s) multiplies
      componentwise; from_basis(i,j,k).apply(v) = x i + y j + z k;
      rotate_x/y/z are orthogonal (R.R^T = I), have determinant 1 and preserve
      squared length modulo sin^2 + cos^2 = 1, and fix their own axis
  A5  linear part on VECTORS: translate(t).apply(v) = v (a vector is not moved
      by a translation)
  A6  dot is symmetric and bilinear; cross is anticommutative and orthogonal to
      both operands
Leaves: the inverse (Gauss-Jordan with pivoting branches on float magnitudes),
conditioning, every float rounding effect.
"""
from fractions import Fraction

from . import facts, common, absint as A, symalg as S, poly as PL

M = "retrofire_core::math::mat::"
V = "retrofire_core::math::vec::"


def polys(it, v):
    return [S.to_poly(c) for c in S.components(it, v)]


def affine(prefix, n):
    rows = [[S.sym("%s%d%d" % (prefix, i, j)) for j in range(n)] for i in range(n - 1)]
    rows.append([("f", 0.0)] * (n - 1) + [("f", 1.0)])
    return S.matrix(prefix, n, rows)


def product(a, b, n):
    out = []
    for i in range(n):
        for j in range(n):
            acc = {}
            for k in range(n):
                acc = PL.padd(acc, PL.pmul(a[i * n + k], b[k * n + j]))
            out.append(acc)
    return out


def check_config(rep, prog):
    cfg = prog.config
    feats = prog.features

    def run(path, args, env=None, models=None):
        it = S.interp(prog, models=models)
        try:
            return it, it.call_body(prog.body(path), args, env=env or {})
        except (A.Undecided, A.Panic, S.NotPolynomial) as e:
            raise common.Infra("C09: %s could not be evaluated symbolically (%s); rule needs re-confirmation" % (path, e))

    def same(got, want, rule, key, where, what):
        ok = len(got) == len(want) and all(g == w for g, w in zip(got, want))
        rep.inst("C09." + rule, "%s: %s" % (what, "identity holds (%d components)" % len(got) if ok else "MISMATCH"), config=cfg)
        if not ok:
            bad = [(i, g, w) for i, (g, w) in enumerate(zip(got, want)) if g != w][:2]
            rep.violate("C09." + rule, "%s|%s" % (rule, key), where,
                        "%s does not hold as a polynomial identity; first differing component %s" % (what, [(i, str(g)[:120], str(w)[:120]) for i, g, w in bad]),
                        config=cfg)
        return ok
    comp = M + "Matrix::<[[Sc; N]; N], Map>::compose"
    then = M + "Matrix::<[[Sc; N]; N], Map>::then"
    # ---- A1
    for n in (3, 4):
        a, b = S.matrix("a", n), S.matrix("b", n)
        it, r = run(comp, [S.ref_to(a), S.ref_to(b)], {"Sc": "f32", "N": n})
        pa, pb = polys(it, a), polys(it, b)
        same(polys(it, r), product(pa, pb, n), "A1", "compose%d" % n, prog.body(comp).where(), "compose(A, B) = A.B for %dx%d matrices" % (n, n))
        it2, r2 = run(then, [S.ref_to(a), S.ref_to(b)], {"Sc": "f32", "N": n})
        same(polys(it2, r2), product(pb, pa, n), "A1", "then%d" % n, prog.body(then).where(), "then(A, B) = compose(B, A) = B.A for %dx%d matrices" % (n, n))
    # ---- A2
    for n, apply_p, vec, pt in ((4, M + "Matrix::<[[f32; 4]; 4], math::mat::RealToReal<3, Src, Dst>>::", ["x", "y", "z"], ["x", "y", "z"]),
                                (3, M + "Matrix::<[[f32; 3]; 3], math::mat::RealToReal<2, Src, Dst>>::", ["x", "y"], ["x", "y"])):
        a, b = affine("a", n), affine("b", n)
        it, ab = run(comp, [S.ref_to(a), S.ref_to(b)], {"Sc": "f32", "N": n})
        for meth, mk in (("apply", S.vector), ("apply_pt", S.point)):
            v = mk(vec)
            _i1, lhs = run(apply_p + meth, [S.ref_to(A.copy_val(ab)), S.ref_to(v)])
            _i2, inner = run(apply_p + meth, [S.ref_to(b), S.ref_to(v)])
            i3, rhs = run(apply_p + meth, [S.ref_to(a), S.ref_to(inner)])
            same(polys(_i1, lhs), polys(i3, rhs), "A2", "%s%d" % (meth, n), prog.body(apply_p + meth).where(),
                 "compose(A, B).%s(v) = A.%s(B.%s(v)) for affine %dx%d matrices" % (meth, meth, meth, n, n))
    # ---- A3
    det = M + "Matrix::<[[f32; 4]; 4], math::mat::RealToReal<3, Src, Dst>>::determinant"
    a, b = S.matrix("a", 4), S.matrix("b", 4)
    it, ab = run(comp, [S.ref_to(a), S.ref_to(b)], {"Sc": "f32", "N": 4})
    _i, dab = run(det, [S.ref_to(ab)])
    _i, da = run(det, [S.ref_to(a)])
    _i, db = run(det, [S.ref_to(b)])
    same([S.to_poly(dab)], [PL.pmul(S.to_poly(da), S.to_poly(db))], "A3", "det-mult", prog.body(det).where(), "det(A.B) = det(A) det(B) (4x4, %d-term polynomial)" % len(S.to_poly(dab)))
    ident = S.matrix("i", 4, [[("f", 1.0 if i == j else 0.0) for j in range(4)] for i in range(4)])
    _i, di = run(det, [S.ref_to(ident)])
    same([S.to_poly(di)], [{(): Fraction(1)}], "A3", "det-id", prog.body(det).where(), "det(I) = 1")
    tr = M + "Matrix::<[[Sc; N]; N], math::mat::RealToReal<DIM, S, D>>::transpose"
    a = S.matrix("a", 4)
    it, at = run(tr, [a], {"Sc": "f32", "N": 4, "DIM": 3})
    pa = polys(it, a)
    same(polys(it, at), [pa[j * 4 + i] for i in range(4) for j in range(4)], "A3", "transpose", prog.body(tr).where(), "transpose(A)[i][j] = A[j][i]")
    # ---- A4 / A5 constructors
    ap4 = M + "Matrix::<[[f32; 4]; 4], math::mat::RealToReal<3, Src, Dst>>::"
    it, tm = run(M + "translate", [S.vector(["tx", "ty", "tz"])])
    i2, r = run(ap4 + "apply_pt", [S.ref_to(tm), S.ref_to(S.point(["x", "y", "z"]))])
    same(polys(i2, r), [{(c,): Fraction(1), ("t" + c,): Fraction(1)} for c in "xyz"], "A4", "translate-pt", prog.body(M + "translate").where(), "translate(t).apply_pt(p) = p + t")
    i2, r = run(ap4 + "apply", [S.ref_to(tm), S.ref_to(S.vector(["x", "y", "z"]))])
    same(polys(i2, r), [{(c,): Fraction(1)} for c in "xyz"], "A5", "translate-vec", prog.body(ap4 + "apply").where(),
         "translate(t).apply(v) = v (only the linear part acts on vectors)")
    ap3 = M + "Matrix::<[[f32; 3]; 3], math::mat::RealToReal<2, Src, Dst>>::"
    t3 = S.matrix("t", 3, [[("f", 1.0), ("f", 0.0), S.sym("tx")], [("f", 0.0), ("f", 1.0), S.sym("ty")], [("f", 0.0), ("f", 0.0), ("f", 1.0)]])
    i2, r = run(ap3 + "apply", [S.ref_to(t3), S.ref_to(S.vector(["x", "y"]))])
    same(polys(i2, r), [{(c,): Fraction(1)} for c in "xy"], "A5", "translate-vec2", prog.body(ap3 + "apply").where(),
         "a 2D translation matrix applied to a VECTOR leaves it unchanged")
    it, sm = run(M + "scale", [S.vector(["sx", "sy", "sz"])])
    i2, r = run(ap4 + "apply_pt", [S.ref_to(sm), S.ref_to(S.point(["x", "y", "z"]))])
    same(polys(i2, r), [{tuple(sorted((c, "s" + c))): Fraction(1)} for c in "xyz"], "A4", "scale", prog.body(M + "scale").where(), "scale(s).apply_pt(p) = (sx x, sy y, sz z)")
    fb = M + "Matrix::<[[f32; 4]; 4], M>::from_basis"
    it, bm = run(fb, [S.vector(["ix", "iy", "iz"]), S.vector(["jx", "jy", "jz"]), S.vector(["kx", "ky", "kz"])])
    i2, r = run(ap4 + "apply_pt", [S.ref_to(bm), S.ref_to(S.point(["x", "y", "z"]))])
    want = [PL.padd(PL.padd({tuple(sorted(("x", "i" + c))): Fraction(1)}, {tuple(sorted(("y", "j" + c))): Fraction(1)}), {tuple(sorted(("z", "k" + c))): Fraction(1)}) for c in "xyz"]
    same(polys(i2, r), want, "A4", "from_basis", prog.body(fb).where(), "from_basis(i, j, k).apply_pt(p) = x i + y j + z k")
    if "fp" in feats:
        ANG = "retrofire_core::math::angle::Angle"
        rel = [("s", {(): Fraction(1), ("c", "c"): Fraction(-1)})]   # s^2 -> 1 - c^2

        def m_sin_cos(it, args, callee, depth):
            return ("tuple", [S.sym("s"), S.sym("c")])
        for axis, k in (("x", 0), ("y", 1), ("z", 2)):
            path = M + "rotate_" + axis
            it, rm = run(path, [("adt", ANG, "Angle", [S.sym("a")])], models={"angle::Angle::sin_cos": m_sin_cos})
            pr = polys(it, rm)
            rt = [pr[j * 4 + i] for i in range(4) for j in range(4)]
            rrt = [S.reduce_mod(p, rel) for p in product(pr, rt, 4)]
            ident_p = [({(): Fraction(1)} if i == j else {}) for i in range(4) for j in range(4)]
            same(rrt, ident_p, "A4", "rot-%s-orth" % axis, prog.body(path).where(), "rotate_%s(a): R.R^T = I modulo sin^2 + cos^2 = 1 (rigid, transpose = inverse)" % axis)
            i2, d = run(det, [S.ref_to(rm)])
            same([S.reduce_mod(S.to_poly(d), rel)], [{(): Fraction(1)}], "A4", "rot-%s-det" % axis, prog.body(path).where(), "det(rotate_%s(a)) = 1 (handedness preserved)" % axis)
            i3, r = run(ap4 + "apply", [S.ref_to(rm), S.ref_to(S.vector(["x", "y", "z"]))])
            pv = polys(i3, r)
            same([pv[k]], [{("xyz"[k],): Fraction(1)}], "A4", "rot-%s-axis" % axis, prog.body(path).where(), "rotate_%s fixes the %s coordinate" % (axis, axis))
    # ---- A7 orient_y / orient_z (fp only): defining effect and orthogonality of the basis, with the
    # normalising factor 1/sqrt(.) kept as an opaque (positive) indeterminate and generic non-zero inputs
    if "fp" in feats:
        def m_false(it, args, callee, depth):
            return 0

        def m_rsqrt(it, args, callee, depth):
            return ("symop", "rsqrt", A.deref_all(it, args[0]), None)

        def generic(op, a_, b_):
            return {"Eq": False, "Ne": True}.get(op)       # debug_assert_ne!(len_sqr, 0.0) on a generic vector

        def pdot(u, v):
            acc = {}
            for x_, y_ in zip(u, v):
                acc = PL.padd(acc, PL.pmul(x_, y_))
            return acc

        def pcross(u, v):
            neg = lambda q: {m: -c2 for m, c2 in q.items()}  # noqa: E731
            return [PL.padd(PL.pmul(u[1], v[2]), neg(PL.pmul(u[2], v[1]))), PL.padd(PL.pmul(u[2], v[0]), neg(PL.pmul(u[0], v[2]))),
                    PL.padd(PL.pmul(u[0], v[1]), neg(PL.pmul(u[1], v[0])))]
        for name, axis in (("orient_y", 1), ("orient_z", 2)):
            path = M + name
            it = S.interp(prog, models={"::approx_eq": m_false, "recip_sqrt": m_rsqrt}, oracle=generic)
            try:
                om = it.call_body(prog.body(path), [S.vector(["n0", "n1", "n2"]), S.vector(["h0", "h1", "h2"])])
                pm = polys(it, om)
            except (A.Undecided, A.Panic, S.NotPolynomial) as e:
                raise common.Infra("C09.A7: %s could not be evaluated symbolically (%s)" % (path, e))
            cols = [[pm[r_ * 4 + j] for r_ in range(3)] for j in range(3)]
            nv = [{("n%d" % i,): Fraction(1)} for i in range(3)]
            hv = [{("h%d" % i,): Fraction(1)} for i in range(3)]
            where = prog.body(path).where()
            same(cols[axis], nv, "A7", name + "-axis", where, "%s(n, x) maps the %s axis onto n" % (name, "xyz"[axis]))
            orth = same([pdot(cols[0], cols[1]), pdot(cols[1], cols[2]), pdot(cols[0], cols[2])], [{}, {}, {}], "A7", name + "-orth", where,
                 "%s(n, x): the three basis vectors are pairwise orthogonal for every n and x" % name)
            other = 2 if axis == 1 else 1
            same([pdot(cols[other], hv)], [{}], "A7", name + "-hint", where, "%s(n, x): the new %s axis is orthogonal to the hint x" % (name, "xyz"[other]))
            # the new x axis lies on the hint's side: (x axis).hint = k |n x hint|^2 with k the positive normalising factor
            dh = pdot(cols[0], hv)
            ks = {sy for mono in dh for sy in mono if sy.startswith("?")}
            nxh = pcross(nv, hv)
            c2 = pdot(nxh, nxh)
            if len(ks) == 1:
                kc = PL.pmul({(ks.pop(),): Fraction(1)}, c2)
                if dh == kc:
                    rep.inst("C09.A7", "%s: (new x axis).hint = k |n x hint|^2 >= 0 (x axis on the hint's side)" % name, config=cfg)
                elif dh == {m: -c3 for m, c3 in kc.items()}:
                    rep.inst("C09.A7", "%s: (new x axis).hint = -k |n x hint|^2" % name, config=cfg)
                    rep.violate("C09.A7", "A7|%s-side" % name, where,
                                "%s(n, x): the new x axis points AWAY from the hint x ((x axis).x = -k |n x hint|^2 <= 0): the frame is turned half a revolution about n" % name, config=cfg)
                else:
                    rep.notes.append("C09.A7 %s: side of the x axis relative to the hint not decided (form not recognised)" % name)
            else:
                rep.notes.append("C09.A7 %s: side of the x axis relative to the hint not decided (no single normalising factor)" % name)
            # handedness: x-axis = y-axis x z-axis up to a positive factor
            if not orth:
                continue
            c12 = pcross(cols[1], cols[2])
            d = pdot(c12, cols[0])
            if d == pdot(cols[0], cols[0]) or d == pdot(c12, c12):
                rep.inst("C09.A7", "%s: det of the basis is a sum of squares (right-handed)" % name, config=cfg)
            elif d == {m: -c2 for m, c2 in pdot(cols[0], cols[0]).items()} or d == {m: -c2 for m, c2 in pdot(c12, c12).items()}:
                rep.inst("C09.A7", "%s: det of the basis is MINUS a sum of squares" % name, config=cfg)
                rep.violate("C09.A7", "A7|%s-handed" % name, where, "%s builds a left-handed basis: det = -|x axis|^2 for every input (a reflection, not a rotation)" % name, config=cfg)
            else:
                raise common.Infra("C09.A7: handedness of %s is not decided by the sum-of-squares forms known to the rule" % name)
    # ---- A8 inverse (Gauss-Jordan with partial pivoting), decided per pivot sequence
    inverse_rule(rep, prog, full=(rep.tier == "thorough" and cfg == "ws"))
    # ---- A6 dot / cross
    dot = V + "Vector::<[Sc; N], Sp>::dot"
    a, b, c = S.vector(["a0", "a1", "a2"]), S.vector(["b0", "b1", "b2"]), S.vector(["c0", "c1", "c2"])
    it, ab = run(dot, [S.ref_to(a), S.ref_to(b)], {"Sc": "f32", "N": 3})
    it, ba = run(dot, [S.ref_to(b), S.ref_to(a)], {"Sc": "f32", "N": 3})
    same([S.to_poly(ab)], [S.to_poly(ba)], "A6", "dot-sym", prog.body(dot).where(), "a.b = b.a")
    same([S.to_poly(ab)], [{("a%d" % i, "b%d" % i): Fraction(1) for i in range(3)}], "A6", "dot-def", prog.body(dot).where(), "a.b = sum a_i b_i")
    cr = [p for p in prog.bodies if p.startswith(V + "Vector::<R, math::space::Real<3, B>>::cross")]
    if cr:
        crp = cr[0]
        it, axb = run(crp, [S.ref_to(a), S.ref_to(b)])
        it2, bxa = run(crp, [S.ref_to(b), S.ref_to(a)])
        p1, p2 = polys(it, axb), polys(it2, bxa)
        same(p1, [{m: -c2 for m, c2 in p.items()} for p in p2], "A6", "cross-anti", prog.body(crp).where(), "a x b = -(b x a)")
        pa_, pb_ = polys(it, a), polys(it, b)
        orth_a, orth_b = {}, {}
        for i in range(3):
            orth_a = PL.padd(orth_a, PL.pmul(p1[i], pa_[i]))
            orth_b = PL.padd(orth_b, PL.pmul(p1[i], pb_[i]))
        same([orth_a, orth_b], [{}, {}], "A6", "cross-orth", prog.body(crp).where(), "(a x b).a = (a x b).b = 0")
    else:
        raise common.AnchorMissing("C09: Vector::cross not found")


def inverse_rule(rep, prog, full):
    """A8: for EVERY choice of pivot rows that partial pivoting can make, Mat4x4::inverse returns a matrix N with
    N.M = I as an identity of rational functions in the entries of M (exact arithmetic with gcd cancellation).
    The pivot search itself is executed with its real comparator under an order in which the row to be chosen
    has the strictly largest magnitude in the column: it must return that row. A chosen pivot is generic
    non-zero (a zero maximum means a zero column: singular, outside the property)."""
    cfg = prog.config
    inv = [p for p in prog.bodies if p.startswith(M + "Matrix::<[[f32; 4]; 4]") and p.endswith("::inverse")]
    rep.floor("C09.A8.anchor.%s" % cfg, len(inv), 1, "Mat4x4::inverse")
    body = prog.body(inv[0])
    where = body.where()
    zero = ("f", 0.0)
    mats = [("affine", affine("a", 4))]
    if full:
        mats.append(("general", S.matrix("g", 4)))
    for label, mat in mats:
        pending = [()]
        seqs = 0
        problems = []
        while pending:
            prefix = pending.pop()
            taken = []
            rows_taken = []
            pivot_bad = []
            _ce = [None]

            def m_max_by(it, args, callee, depth, prefix=prefix, taken=taken, rows_taken=rows_taken, pivot_bad=pivot_bad, chosen_entries=None):
                chosen_entries = _ce[0]
                """The pivot search, whatever it iterates over (row numbers, (index, |entry|) pairs, ...): the key of each item
                is discovered by running the code's own comparator on (item, item) and recording what it compares; one
                candidate is taken to have the strictly largest magnitude, and the search — executed faithfully with the
                comparator under that order — must return that candidate."""
                items = S._drain(S.as_iter(it, args[0]), it, depth)
                saved = it.oracle

                def call_cmp(x, y):
                    cx, cy = A.Frame(None), A.Frame(None)
                    cx.locals[0], cy.locals[0] = x, y
                    o = A.deref_all(it, it.invoke(args[1], [("ref", cx, 0, []), ("ref", cy, 0, [])], depth))
                    if not (isinstance(o, tuple) and o[0] == "adt" and o[1] == "core::cmp::Ordering"):
                        raise A.Undecided("pivot comparator returned %r" % (o,))
                    return o[2]
                keys = []
                for x in items:
                    rec = []

                    def probe(op, a_, b_, rec=rec):
                        if not rec:
                            rec.append((a_, b_))
                        return {"Eq": True, "Le": True, "Ge": True}.get(op, False)
                    it.oracle = probe
                    try:
                        call_cmp(A.copy_val(x), A.copy_val(x))
                    finally:
                        it.oracle = saved
                    if not rec or rec[0][0] != rec[0][1]:
                        raise A.Undecided("the pivot comparator does not compare one key per item (%r)" % (rec[:1],))
                    keys.append(rec[0][0])
                feasible = [n for n, k_ in enumerate(keys) if k_ != zero and k_ != ("symop", "abs", zero, None)]
                if not feasible:
                    raise A.Undecided("pivot column %d is identically zero" % len(taken))
                i = len(taken)
                k = prefix[i] if i < len(prefix) else 0
                if i >= len(prefix):
                    for alt in range(1, len(feasible)):
                        pending.append(tuple(taken) + (alt,))
                taken.append(k)
                chosen = feasible[k]
                rows_taken.append(chosen + len(taken) - 1 if False else chosen)

                def rank(v):
                    if v == zero:
                        return 0
                    for n, k_ in enumerate(keys):
                        if k_ is v or k_ == v:
                            mag_key = isinstance(k_, tuple) and k_[0] == "symop" and k_[1] == "abs"
                            if mag_key:
                                return 2 if n == chosen else 1
                            # a comparator looking at SIGNED entries: the chosen entry is taken to be negative with the largest
                            # magnitude and the others positive — the scenario a signed comparison gets wrong
                            return -1 if n == chosen else 1
                    return None

                def orc(op, a_, b_):
                    ra, rb = rank(a_), rank(b_)
                    if ra is None or rb is None:
                        return saved(op, a_, b_)
                    return {"Lt": ra < rb, "Gt": ra > rb, "Eq": ra == rb, "Ne": ra != rb, "Le": ra <= rb, "Ge": ra >= rb}[op]
                it.oracle = orc
                try:
                    best = 0
                    for n in range(1, len(items)):
                        if call_cmp(A.copy_val(items[best]), A.copy_val(items[n])) != "Greater":
                            best = n
                finally:
                    it.oracle = saved
                if best != chosen:
                    pivot_bad.append((len(taken) - 1, chosen, best))
                kc = keys[chosen]
                chosen_entries.append(kc[2] if isinstance(kc, tuple) and kc[0] == "symop" and kc[1] == "abs" else kc)
                return A.some(items[chosen])

            chosen_entries, tested = [], []

            pairdec = {}

            def is_mag(v):
                return v == zero or (isinstance(v, tuple) and v[0] == "symop" and v[1] == "abs")

            def generic(op, a_, b_, tested=tested, prefix=prefix, taken=taken, pairdec=pairdec):
                if op == "Gt" and isinstance(b_, tuple) and b_[0] == "f" and 0 < b_[1] < 1e-6:
                    return True                      # the debug assertion |det| > EPSILON: the matrix is invertible

                def signed_entry(v):
                    return isinstance(v, tuple) and v[0] in ("sym", "symop") and not is_mag(v)

                def as_mag(v):
                    """a SIGNED entry compared with magnitudes (a pivot loop that keeps the signed value of its best candidate): its sign is
                    one more (forked) decision; non-negative it is its own magnitude, negative it is below every magnitude"""
                    key_ = ("sign", repr(v))
                    if key_ not in pairdec:
                        i_ = len(taken)
                        k_ = prefix[i_] if i_ < len(prefix) else 0
                        if i_ >= len(prefix):
                            pending.append(tuple(taken) + (1,))
                        taken.append(k_)
                        pairdec[key_] = k_
                    return ("symop", "abs", v, None) if pairdec[key_] == 0 else None
                zero_test = op in ("Eq", "Ne") and (a_ == zero or b_ == zero)        # `pivot != 0.0`: recorded below, not a sign question
                if not zero_test and ((signed_entry(a_) and (is_mag(b_) or signed_entry(b_))) or (signed_entry(b_) and is_mag(a_))):
                    ma = as_mag(a_) if signed_entry(a_) else a_
                    mb = as_mag(b_) if signed_entry(b_) else b_
                    if ma is None or mb is None:
                        if ma is None and mb is None:
                            # both negative: the order of the magnitudes, reversed
                            r_ = generic(op, ("symop", "abs", b_, None), ("symop", "abs", a_, None))
                            return r_
                        rel = "lt" if ma is None else "gt"
                        return {"Lt": rel == "lt", "Gt": rel == "gt", "Eq": False, "Ne": True, "Le": rel == "lt", "Ge": rel == "gt"}[op]
                    a_, b_ = ma, mb
                if is_mag(a_) and is_mag(b_) and not (a_ == zero and b_ == zero):
                    # a pivot search written as an explicit loop compares magnitudes pairwise: each unordered pair gets one
                    # (forked) strict order, a zero entry is the smallest
                    if a_ == b_:
                        rel = "eq"
                    elif a_ == zero or b_ == zero:
                        rel = "lt" if a_ == zero else "gt"
                    else:
                        ka, kb = repr(a_), repr(b_)
                        key_ = (ka, kb) if ka < kb else (kb, ka)
                        if key_ not in pairdec:
                            i_ = len(taken)
                            k_ = prefix[i_] if i_ < len(prefix) else 0
                            if i_ >= len(prefix):
                                pending.append(tuple(taken) + (1,))
                            taken.append(k_)
                            pairdec[key_] = k_
                        first_smaller = pairdec[key_] == 0
                        rel = ("lt" if first_smaller else "gt") if (ka, kb) == key_ else ("gt" if first_smaller else "lt")
                    return {"Lt": rel == "lt", "Gt": rel == "gt", "Eq": rel == "eq", "Ne": rel != "eq", "Le": rel != "gt", "Ge": rel != "lt"}[op]
                if op in ("Eq", "Ne") and (a_ == zero or b_ == zero):
                    tested.append(b_ if a_ == zero else a_)       # `pivot != 0.0`: which entry is about to be divided by
                return {"Eq": False, "Ne": True}.get(op)
            _ce[0] = chosen_entries
            it = S.interp(prog, models={"Iterator::max_by": m_max_by, "is_finite": lambda *_a: 1}, oracle=generic)
            try:
                r = it.call_body(body, [S.ref_to(mat)])
                cs, ac = S.components(it, r), S.components(it, mat)
                pairs = []
                for i in range(4):
                    for j in range(4):
                        acc = zero
                        for k in range(4):
                            acc = it.binop("Add", acc, it.binop("Mul", cs[i * 4 + k], ac[k * 4 + j], "f32"), "f32")
                        pairs.append((acc, ("f", 1.0 if i == j else 0.0)))
                res = S.field_identities(pairs)
            except (A.Undecided, A.Panic, S.NotPolynomial, IndexError) as e:
                raise common.Infra("C09.A8: inverse could not be evaluated symbolically on the %s matrix, pivot rows %s (%s)" % (label, rows_taken, e))
            seqs += 1
            wrong = [(n // 4, n % 4) for n, x in enumerate(res) if not x["equal"]]
            # the entry tested against zero / divided by in column i must be the very entry the search found largest
            used_wrong = None
            for ci, ent in enumerate(chosen_entries):
                if ci < len(tested) and tested[ci] is not ent and tested[ci] != ent:
                    try:
                        same = S.field_identities([(tested[ci], ent)])[0]["equal"]
                    except A.Undecided:
                        same = False
                    if not same:
                        used_wrong = ci
                        break
            if used_wrong is not None:
                problems.append("in column %d (pivot candidates %s) the entry tested against zero and divided by is not the one the pivot search found largest: "
                                "the row exchange the search asked for is not (fully) carried out" % (used_wrong, rows_taken))
            if pivot_bad:
                problems.append("the pivot search returns candidate #%d in column %d although candidate #%d has the strictly largest magnitude" % (pivot_bad[0][2], pivot_bad[0][0], pivot_bad[0][1]))
            if wrong:
                problems.append("with pivot rows %s the result N has (N.M)[%d][%d] != %s" % (rows_taken, wrong[0][0], wrong[0][1], "1" if wrong[0][0] == wrong[0][1] else "0"))
        rep.inst("C09.A8", "inverse() on a symbolic %s 4x4 matrix: %d pivot sequences, N.M = I in each: %s" % (label, seqs, "holds" if not problems else "FAILS"), config=cfg)
        rep.floor("C09.A8.%s.%s" % (label, cfg), seqs, 2, "pivot sequences of inverse()")
        if problems:
            rep.violate("C09.A8", "A8|inverse-%s" % label, where,
                        "Mat4x4::inverse is not the inverse for every pivoting order (%s matrix, %d pivot sequences): %s" % (label, seqs, "; ".join(problems[:3])), config=cfg)


def check(rep, args):
    configs = ["ws"] if rep.tier == "quick" else common.ALL_CONFIGS
    rep.configs = configs
    for cfg in configs:
        check_config(rep, facts.program(cfg))
    cov = {
        "explanation": "symbolic abstract interpretation of compose/then/apply/apply_pt/determinant/transpose/constructors/dot/cross on matrices and "
                       "vectors with symbolic entries; results normalised to polynomials over Q and compared (rotations modulo sin^2+cos^2=1)",
        "evaluations": len(rep.instances),
        "distinct_nontrivial": len({i["what"] for i in rep.instances}),
        "rules": ["A1", "A2", "A3", "A4", "A5", "A6", "A7", "A8"],
    }
    return "other", cov, ["identities hold over the reals; float rounding, conditioning and the Gauss-Jordan inverse are not decided",
                          "Angle::sin_cos returns (sin a, cos a) with sin^2 + cos^2 = 1"]
