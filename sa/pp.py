"""Pretty printer for dumped MIR (debugging and diagnostics)."""


def pl(p):
    s = "_%d" % p["l"]
    for e in p["p"]:
        if e == "*":
            s = "(*%s)" % s
        elif isinstance(e, dict) and "f" in e:
            s += "." + e["n"]
        elif isinstance(e, dict) and "i" in e:
            s += "[_%d]" % e["i"]
        elif isinstance(e, dict) and "dc" in e:
            s = "(%s as %s)" % (s, e["dc"])
        elif isinstance(e, dict) and "ci" in e:
            s += "[%s%s]" % ("-" if e["fe"] else "", e["ci"])
        else:
            s += str(e)
    return s


def op(o):
    if "c" in o:
        return pl(o["c"])
    if "m" in o:
        return "move " + pl(o["m"])
    if "k" in o:
        k = o["k"]
        if "fn" in k:
            return "fn:" + k["fn"]["path"]
        if "v" in k:
            return "const %s_%s" % (k["v"], k["ty"])
        return "const{%s}" % (k.get("s", k["ty"])[:60])
    return str(o)


def rv(r):
    k = r["k"]
    if k == "Use":
        return op(r["a"])
    if k == "Ref":
        return ("&mut " if r["mut"] else "&") + pl(r["p"])
    if k == "RawPtr":
        return "&raw " + pl(r["p"])
    if k == "BinaryOp":
        return "%s(%s, %s)" % (r["op"], op(r["a"]), op(r["b"]))
    if k == "UnaryOp":
        return "%s(%s)" % (r["op"], op(r["a"]))
    if k == "Cast":
        return "%s as %s [%s]" % (op(r["a"]), r["to"], r["ck"])
    if k == "Discriminant":
        return "discr(%s)" % pl(r["p"])
    if k == "Aggregate":
        return "%s{%s}(%s)" % (r["ak"], r.get("adt", r.get("closure", "")) + ("::" + r["variant"] if r.get("variant") else ""),
                               ", ".join(op(o) for o in r["ops"]))
    if k == "CopyForDeref":
        return "copyderef " + pl(r["p"])
    if k == "Repeat":
        return "[%s; %s]" % (op(r["a"]), r.get("n"))
    return str(r)[:100]


def stmt(s):
    if s["k"] == "Assign":
        return "%s = %s" % (pl(s["lhs"]), rv(s["rv"]))
    return str({k: v for k, v in s.items() if k != "line"})[:160]


def term(t):
    if t["k"] == "Call":
        c = t.get("callee")
        name = c["path"] if c else "indirect " + op(t["indirect"])
        res = ""
        if c and c.get("res") and c["res"]["path"] != c["path"]:
            res = " => " + c["res"]["path"]
        return "%s = CALL %s%s(%s) -> bb%s unw %s" % (
            pl(t["dest"]), name, res, ", ".join(op(a) for a in t["args"]), t["t"], t["unwind"])
    if t["k"] == "SwitchInt":
        return "switch %s %s else bb%s" % (op(t["discr"]), t["targets"], t["otherwise"])
    if t["k"] == "Assert":
        return "assert %s==%s %s(%s) -> bb%s" % (op(t["cond"]), t["expected"], t["ak"],
                                                 ", ".join(op(o) for o in t["ops"]), t["t"])
    if t["k"] == "Drop":
        return "drop %s -> bb%s unw %s" % (pl(t["p"]), t["t"], t["unwind"])
    if t["k"] == "Goto":
        return "goto bb%s" % t["t"]
    return t["k"] + (" " + t.get("s", "") if t["k"] == "Other" else "")


def show(body, out=None):
    import sys
    out = out or sys.stdout
    w = out.write
    w("fn %s  (%s:%d) argc=%d\n" % (body.path, body.file, body.line, body.argc))
    w("  debug: %s\n" % [(v["name"], pl(v["place"]) if "place" in v else "const") for v in body.debug])
    for i, t in enumerate(body.locals):
        w("  _%d: %s\n" % (i, t))
    for i, bl in enumerate(body.blocks):
        w(" bb%d%s:\n" % (i, " (cleanup)" if bl["cleanup"] else ""))
        for s in bl["stmts"]:
            w("    %s   [%d]%s\n" % (stmt(s), s["line"], s.get("exp", "")))
        t = bl["term"]
        w("    %s   [%d]%s\n" % (term(t), t["line"], t.get("exp", "")))


if __name__ == "__main__":
    import sys
    from . import facts
    cfg = sys.argv[1]
    prog = facts.program(cfg)
    for b in prog.find(*sys.argv[2:]):
        show(b)
