"""Shared plumbing: fact dumping, findings, evidence, violation reporting.

No rule logic lives here.
"""
import json
import os
import shutil
import subprocess
import sys
import tempfile
import time

VERIF = os.path.dirname(os.path.dirname(os.path.abspath(__file__)))
REPO = os.environ.get("VERIF_REPO", "/repo")
OUT = os.path.join(os.environ["VERIF_EVID_DIR"], "out") if os.environ.get("VERIF_EVID_DIR") else os.path.join(VERIF, "out")
EVID = os.environ.get("VERIF_EVID_DIR") or os.path.join(VERIF, "evidence")
ALL_CONFIGS = ["ws", "std", "libm", "mm", "none"]


class Infra(Exception):
    """Infrastructure failure: exit 2, never a verdict."""


class AnchorMissing(Infra):
    pass


def dump_facts(config, keep_deps=None):
    """Run the factdump driver over REPO for one configuration.
    Returns dict crate-name -> facts. Always rebuilds from the working tree."""
    d = tempfile.mkdtemp(prefix="facts-%s-" % config, dir="/tmp")
    try:
        env = dict(os.environ)
        env["VERIF_REPO"] = REPO
        if keep_deps:
            env["FACTDUMP_KEEP_DEPS"] = keep_deps
        r = subprocess.run(
            [os.path.join(VERIF, "sa", "dump.sh"), config, d],
            env=env, stdout=subprocess.PIPE, stderr=subprocess.PIPE, text=True)
        if r.returncode != 0:
            raise Infra("fact dump failed for config %s:\n%s" % (config, r.stderr[-3000:]))
        facts = {}
        for fn in os.listdir(d):
            if fn.endswith(".json"):
                with open(os.path.join(d, fn)) as f:
                    facts[fn[:-5]] = json.load(f)
        if "retrofire_core" not in facts:
            raise Infra("no core facts for config %s" % config)
        return facts
    finally:
        shutil.rmtree(d, ignore_errors=True)


_facts_cache = {}


def facts_for(config):
    if config not in _facts_cache:
        dev = os.environ.get("VERIF_DEV_FACTS")  # development only; never set by registered commands
        if dev and os.path.isdir(os.path.join(dev, "facts-" + config)):
            d = os.path.join(dev, "facts-" + config)
            _facts_cache[config] = {fn[:-5]: json.load(open(os.path.join(d, fn)))
                                    for fn in os.listdir(d) if fn.endswith(".json")}
        else:
            _facts_cache[config] = dump_facts(config)
    return _facts_cache[config]


# ---------------------------------------------------------------- findings

def load_known_findings():
    """known_findings.txt lines:
       known: property=<id> key=<key> :: <what fails>
       fixed: property=<id> <commit> <what failed>      (suppresses nothing)
    """
    known = {}
    p = os.path.join(VERIF, "known_findings.txt")
    if not os.path.exists(p):
        return known
    for line in open(p):
        line = line.strip()
        if not line.startswith("known:"):
            continue
        body = line[len("known:"):].strip()
        head, _, what = body.partition("::")
        parts = dict(x.split("=", 1) for x in head.split() if "=" in x)
        known[(parts.get("property"), parts.get("key"))] = what.strip()
    return known


SKIPPED = object()


class Violation:
    def __init__(self, rule, key, where, msg, detail=None):
        self.rule = rule          # rule id, e.g. "C06.W1"
        self.key = key            # stable key without line numbers
        self.where = where        # file:line (diagnostic only)
        self.msg = msg
        self.detail = detail or {}

    def to_json(self):
        return {"rule": self.rule, "key": self.key, "where": self.where,
                "msg": self.msg, "detail": self.detail}


class Report:
    """Collects what a check examined and what it found."""

    def __init__(self, prop, tier):
        self.prop = prop
        self.tier = tier
        self.t0 = time.time()
        self.violations = []
        self.instances = []       # every rule instance examined
        self.notes = []
        self.counters = {}
        self.assumptions = []
        self.configs = []
        self.extra = {}
        self.deferred = []

    def inst(self, rule, what, **kw):
        d = {"rule": rule, "what": what}
        d.update(kw)
        self.instances.append(d)

    def count(self, name, n=1):
        self.counters[name] = self.counters.get(name, 0) + n

    def violate(self, rule, key, where, msg, **detail):
        self.violations.append(Violation(rule, key, where, msg, detail))

    def guard(self, fn, *args, **kw):
        """Run one rule group; an infrastructure failure inside it is deferred so that the other groups still run.
        A deferred failure makes the check exit 2 unless a violation was found (a violation is a violation whatever
        else could not be analysed). Returns SKIPPED if the group did not complete."""
        try:
            return fn(*args, **kw)
        except Infra as e:
            self.deferred.append(str(e))
        except Exception as e:            # analyser crash inside one rule group
            import traceback
            traceback.print_exc()
            self.deferred.append("analyser crashed in %s: %s: %s" % (getattr(fn, "__name__", "?"), type(e).__name__, e))
        return SKIPPED

    def floor(self, rule, n_found, n_expected, what):
        """Vacuity floor: fail closed if a rule matched fewer instances than
        were confirmed by hand on the pinned tree."""
        self.counters["floor:%s" % rule] = n_found
        if n_found < n_expected:
            raise AnchorMissing(
                "%s: rule %s matched %d instance(s) of '%s', expected at least %d — "
                "anchor moved or rule went vacuous; needs re-confirmation"
                % (self.prop, rule, n_found, what, n_expected))


def finish(report, level, coverage, assumptions=None):
    """Write evidence, print verdict lines, return exit code."""
    os.makedirs(EVID, exist_ok=True)
    os.makedirs(OUT, exist_ok=True)
    known = load_known_findings()
    new, old = [], []
    seen = set()
    for v in report.violations:
        if (report.prop, v.key) in seen:
            continue
        seen.add((report.prop, v.key))
        if (report.prop, v.key) in known:
            old.append(v)
        else:
            new.append(v)
    wall = round(time.time() - report.t0, 3)
    cov = dict(coverage)
    cov.setdefault("rule_instances_examined", len(report.instances))
    cov.setdefault("counters", report.counters)
    cov.setdefault("configs", report.configs)
    if "samples" not in cov:
        cov["samples"] = report.instances[:12]
    cov["known_findings_reported"] = [v.to_json() for v in old]
    cov["violations"] = [v.to_json() for v in new]
    cov.update(report.extra)
    ev = {
        "property_id": report.prop,
        "tier": report.tier,
        "seed": int(os.environ.get("VERIF_SEED", "0") or 0),
        "level": level,
        "coverage": cov,
        "assumptions": (assumptions or []) + report.assumptions,
        "wall_s": wall,
        "violations": len(new),
    }
    with open(os.path.join(EVID, report.prop + ".json"), "w") as f:
        json.dump(ev, f, indent=1, sort_keys=False)
        f.write("\n")
    for v in old:
        print("KNOWN-FINDING: property=%s key=%s %s" % (report.prop, v.key, known[(report.prop, v.key)]))
    if new:
        replay = os.path.join(OUT, "%s-violation.json" % report.prop)
        with open(replay, "w") as f:
            json.dump({"property": report.prop,
                       "violations": [v.to_json() for v in new]}, f, indent=1)
        for v in new:
            print("  [%s] %s: %s  (key=%s)" % (v.rule, v.where, v.msg, v.key))
        print("VIOLATION property=%s replay=%s" % (report.prop, replay))
        return 1
    print("OK property=%s tier=%s instances=%d wall=%.1fs" % (
        report.prop, report.tier, len(report.instances), wall))
    return 0


def _new_violations(rep):
    known = load_known_findings()
    return [v for v in rep.violations if (rep.prop, v.key) not in known]


def run_check(prop, tier, fn):
    """fn(report) -> (level, coverage, assumptions). Handles Infra."""
    rep = Report(prop, tier)
    try:
        level, coverage, assumptions = fn(rep)
    except Infra as e:
        rep.deferred.append(str(e))
        level, coverage, assumptions = "other", {"explanation": "analysis did not complete", "evaluations": len(rep.instances)}, []
    except Exception as e:      # a crash of the analyser is never a verdict on /repo
        import traceback
        traceback.print_exc()
        rep.deferred.append("analyser crashed: %s: %s" % (type(e).__name__, e))
        level, coverage, assumptions = "other", {"explanation": "analysis did not complete", "evaluations": len(rep.instances)}, []
    if rep.deferred:
        if not _new_violations(rep):
            print("INFRA-ERROR property=%s: %s" % (prop, rep.deferred[0]), file=sys.stderr)
            return 2
        # part of the analysis could not be completed, but what did complete found a violation: report it
        coverage = dict(coverage)
        coverage["incomplete"] = rep.deferred
        for d in rep.deferred:
            print("  note: part of the analysis did not complete: %s" % d[:300])
    return finish(rep, level, coverage, assumptions)
