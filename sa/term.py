"""Provenance terms: a backwards slice from an operand/place to its sources.

A term is a nested tuple:
  ('param', n)                      function/closure parameter _n
  ('upvar', name)                   captured variable of a closure (by debug name)
  ('const', ty, value)              literal / evaluated constant
  ('fnptr', path)                   function item used as value
  ('field', base, name)             field projection
  ('deref', base) / ('ref', base)   (deref(ref(x)) and ref(deref(x)) are collapsed)
  ('index', base, idx) / ('cindex', base, n, from_end) / ('downcast', base, variant)
  ('call', path, (args...), site)   call result, site = (body path, bb)
  ('bin', op, a, b, operand_ty) / ('un', op, a) / ('cast', kind, a, to)
  ('agg', kind, (ops...))           aggregate (kind = adt path::variant | 'tuple' | 'array' | 'closure:path')
  ('discr', a)
  ('phi', local, (terms...))        several reaching definitions (flow-insensitive)
  ('local', n)                      opaque / recursion cut

Two values are "the same" for agreement rules only if their terms are equal;
this under-approximates equality, so agreement rules can only err towards
reporting.
"""

MAX_DEPTH = 40

TRANSPARENT = (
    "core::clone::Clone::clone",
    "core::convert::Into::into",
    "core::convert::From::from",
    "core::ops::deref::Deref::deref",
    "core::ops::deref::DerefMut::deref_mut",
    "core::convert::AsRef::as_ref",
    "core::convert::AsMut::as_mut",
    "core::borrow::Borrow::borrow",
    "core::borrow::BorrowMut::borrow_mut",
)


class Slicer:
    def __init__(self, body):
        self.body = body
        self.defs = body.defs()
        self._upvars = None
        self._memo = {}

    # ---- closure captures by debug name
    def upvars(self):
        if self._upvars is None:
            m = {}
            if self.body.kind == "Closure":
                for v in self.body.debug:
                    p = v.get("place")
                    if not p or p["l"] != 1 or not p["p"]:
                        continue
                    # (*_1).N  or (*(*_1).N) or _1.N (by-move closures)
                    idx = None
                    for e in p["p"]:
                        if isinstance(e, dict) and "f" in e:
                            idx = e["f"]
                            break
                    if idx is not None:
                        byref = p["p"][-1] == "*" and len([e for e in p["p"] if e == "*"]) >= (2 if p["p"][0] == "*" else 1)
                        m[idx] = (v["name"], byref)
            self._upvars = m
        return self._upvars

    def local(self, l, depth=0, seen=()):
        key = l
        if key in self._memo and not seen:
            return self._memo[key]
        t = self._local(l, depth, seen)
        if not seen:
            self._memo[key] = t
        return t

    def _local(self, l, depth, seen):
        body = self.body
        if depth > MAX_DEPTH or l in seen:
            return ("local", l)
        ds = self.defs.get(l, [])
        whole = [d for d in ds if d[3]]
        partial = [d for d in ds if not d[3]]
        if 1 <= l <= body.argc and not whole:
            return ("param", l)
        if not ds:
            return ("local", l)
        if partial and not whole:
            return ("local", l)
        terms = []
        for (bi, si, node, _w) in whole:
            terms.append(self.def_term(bi, si, node, depth + 1, seen + (l,)))
        uniq = []
        for t in terms:
            if t not in uniq:
                uniq.append(t)
        if len(uniq) == 1 and not partial:
            return uniq[0]
        return ("phi", l, tuple(uniq))

    def def_term(self, bi, si, node, depth, seen):
        if node["k"] == "Call":
            c = node.get("callee")
            path = None
            if c:
                path = c["path"]
                if c.get("res") and c["res"]["path"] != c["path"]:
                    path = c["path"] + " => " + c["res"]["path"]
            else:
                path = "<indirect>:" + show(self.operand(node["indirect"], depth, seen))
            args = tuple(self.operand(a, depth, seen) for a in node["args"])
            decl = c["path"] if c else path
            if decl in TRANSPARENT and len(args) == 1:
                a = args[0]
                # clone(&x) -> x ; deref(&x) -> &*x ... keep reference level simple:
                if decl == "core::clone::Clone::clone":
                    return simplify(("deref", a))
                return a
            return ("call", path, args, (self.body.path, bi))
        if node["k"] == "SetDiscriminant":
            return ("local", node["lhs"]["l"])
        return self.rvalue(node["rv"], depth, seen)

    def rvalue(self, rv, depth, seen):
        k = rv["k"]
        if k == "Use":
            return self.operand(rv["a"], depth, seen)
        if k == "Ref" or k == "RawPtr":
            return simplify(("ref", self.place(rv["p"], depth, seen)))
        if k == "CopyForDeref":
            return self.place(rv["p"], depth, seen)
        if k == "Cast":
            return ("cast", rv["ck"], self.operand(rv["a"], depth, seen), rv["to"])
        if k == "BinaryOp":
            return ("bin", rv["op"], self.operand(rv["a"], depth, seen), self.operand(rv["b"], depth, seen), rv.get("ty"))
        if k == "UnaryOp":
            return ("un", rv["op"], self.operand(rv["a"], depth, seen))
        if k == "Discriminant":
            return ("discr", self.place(rv["p"], depth, seen))
        if k == "Aggregate":
            ak = rv["ak"]
            if ak == "Adt":
                kind = rv["adt"] + "::" + rv["variant"]
            elif ak == "Closure":
                kind = "closure:" + rv["closure"]
            else:
                kind = ak.lower()
            return ("agg", kind, tuple(self.operand(o, depth, seen) for o in rv["ops"]))
        if k == "Repeat":
            return ("agg", "repeat", (self.operand(rv["a"], depth, seen),))
        return ("opaque", rv.get("s", k))

    def operand(self, o, depth=0, seen=()):
        if "c" in o:
            return self.place(o["c"], depth, seen)
        if "m" in o:
            return self.place(o["m"], depth, seen)
        if "k" in o:
            k = o["k"]
            if "fn" in k:
                f = k["fn"]
                fp = f["path"]
                if f.get("res") and f["res"]["path"] != fp:
                    fp = fp + " => " + f["res"]["path"]
                return ("fnptr", fp)
            if "closure" in k:
                return ("agg", "closure:" + k["closure"], ())
            if "v" in k:
                return ("const", k["ty"], k["v"])
            if "promoted" in k and self.body.d.get("promoted"):
                from . import facts as _f
                pb = _f.Body.promoted(self.body, k["promoted"])
                return Slicer(pb).local(0)
            if "uneval" in k:
                return ("const", k["ty"], "item:" + k["uneval"] + (":promoted%s" % k["promoted"] if "promoted" in k else ""))
            return ("const", k["ty"], k.get("s"))
        return ("opaque", str(o))

    def place(self, p, depth=0, seen=()):
        t = self.local(p["l"], depth, seen) if not seen else self._local(p["l"], depth, seen)
        projs = p["p"]
        # closure upvar recognition: (*_1).N [*]
        if self.body.kind == "Closure" and p["l"] == 1 and projs:
            i = 0
            if projs[0] == "*":
                i = 1
            if i < len(projs) and isinstance(projs[i], dict) and "f" in projs[i]:
                uv = self.upvars().get(projs[i]["f"])
                name = uv[0] if uv else "#%d" % projs[i]["f"]
                byref = uv[1] if uv else False
                t = ("upvar", name)
                rest = projs[i + 1:]
                if byref:
                    # the capture field holds a reference to the variable
                    t = ("ref", t)
                return self._project(t, rest, depth, seen)
        return self._project(t, projs, depth, seen)

    def _project(self, t, projs, depth, seen):
        for e in projs:
            if e == "*":
                t = simplify(("deref", t))
            elif isinstance(e, dict) and "f" in e:
                # project through known aggregates
                if t[0] == "agg" and t[1] in ("tuple",) and e["f"] < len(t[2]):
                    t = t[2][e["f"]]
                elif t[0] == "downcast" and t[1][0] == "agg" and t[1][1].rsplit("::", 1)[-1] == t[2] and e["f"] < len(t[1][2]) \
                        and t[1][1].split("::")[0] in ("core", "std", "alloc"):
                    # the payload of an Option/Result built in place and matched right away: (Some{x} as Some).0 is x
                    t = t[1][2][e["f"]]
                else:
                    of = e.get("of", "")
                    n = e["n"]
                    if of and of not in ("tuple", "?") and not of.startswith("closure:"):
                        n = of.split("::")[-1] + "." + n
                    t = ("field", t, n)
            elif isinstance(e, dict) and "i" in e:
                t = ("index", t, self.local(e["i"], depth + 1, seen) if not seen else self._local(e["i"], depth + 1, seen))
            elif isinstance(e, dict) and "ci" in e:
                if t[0] == "agg" and t[1] == "array" and not e["fe"] and e["ci"] < len(t[2]):
                    t = t[2][e["ci"]]
                else:
                    t = ("cindex", t, e["ci"], e["fe"])
            elif isinstance(e, dict) and "dc" in e:
                t = ("downcast", t, e["dc"])
            else:
                t = ("proj", t, str(e))
        return t


def simplify(t):
    if t[0] == "deref" and t[1][0] == "ref":
        return t[1][1]
    if t[0] == "ref" and t[1][0] == "deref":
        return t[1][1]
    return t


# ---------------------------------------------------------------- term utilities

def walk(t):
    """Yield all sub-terms (pre-order)."""
    yield t
    if not isinstance(t, tuple):
        return
    for x in t[1:]:
        if isinstance(x, tuple):
            if x and isinstance(x[0], str):
                yield from walk(x)
            else:
                for y in x:
                    if isinstance(y, tuple) and y and isinstance(y[0], str):
                        yield from walk(y)


def strip(t, sites=True, casts=False, refs=False):
    """Normalise a term: drop call sites (so that two structurally equal call
    chains compare equal), optionally casts and reference levels."""
    if not isinstance(t, tuple) or not t:
        return t
    h = t[0]
    if h == "call":
        return ("call", t[1], tuple(strip(a, sites, casts, refs) for a in t[2])) + (() if sites else (t[3],))
    if h == "cast" and casts:
        return strip(t[2], sites, casts, refs)
    if h in ("ref", "deref") and refs:
        return strip(t[1], sites, casts, refs)
    if h == "phi":
        return ("phi", t[1], tuple(strip(a, sites, casts, refs) for a in t[2]))
    if h == "agg":
        return ("agg", t[1], tuple(strip(a, sites, casts, refs) for a in t[2]))
    return tuple(strip(x, sites, casts, refs) if isinstance(x, tuple) and x and isinstance(x[0], str) else x for x in t)


def contains(t, pred):
    return any(pred(s) for s in walk(t))


def calls_in(t, *needles):
    return [s for s in walk(t) if s[0] == "call" and any(n in s[1] for n in needles)]


def fields_in(t):
    return [s[2] for s in walk(t) if s[0] == "field"]


def show(t, depth=0):
    if not isinstance(t, tuple):
        return repr(t)
    h = t[0]
    if h == "param":
        return "arg%d" % t[1]
    if h == "upvar":
        return "^%s" % t[1]
    if h == "fnptr":
        return "fn:" + t[1].split(" => ")[0]
    if h == "const":
        return "%s" % (t[2],)
    if h == "field":
        return "%s.%s" % (show(t[1]), t[2])
    if h == "deref":
        return "*%s" % show(t[1])
    if h == "ref":
        return "&%s" % show(t[1])
    if h == "call":
        return "%s(%s)" % (t[1].split(" => ")[0].rsplit("::", 1)[-1], ", ".join(show(a) for a in t[2]))
    if h == "bin":
        return "%s(%s, %s)" % (t[1], show(t[2]), show(t[3]))
    if h == "un":
        return "%s(%s)" % (t[1], show(t[2]))
    if h == "cast":
        return "(%s as %s)" % (show(t[2]), t[3])
    if h == "agg":
        return "%s{%s}" % (t[1].split("::")[-1], ", ".join(show(a) for a in t[2]))
    if h == "index":
        return "%s[%s]" % (show(t[1]), show(t[2]))
    if h == "cindex":
        return "%s[%s%d]" % (show(t[1]), "-" if t[3] else "", t[2])
    if h == "downcast":
        return "(%s as %s)" % (show(t[1]), t[2])
    if h == "phi":
        return "phi_%d(%s)" % (t[1], " | ".join(show(a) for a in t[2]))
    if h == "local":
        return "_%d" % t[1]
    if h == "discr":
        return "discr(%s)" % show(t[1])
    return str(t)


def on_all_paths(t, pred):
    """pred holds somewhere inside t on EVERY alternative of every phi met on the way."""
    if not isinstance(t, tuple) or not t:
        return False
    if pred(t):
        return True
    if t[0] == "phi":
        return bool(t[2]) and all(on_all_paths(x, pred) for x in t[2])
    for x in t[1:]:
        if isinstance(x, tuple) and x and isinstance(x[0], str):
            if on_all_paths(x, pred):
                return True
        elif isinstance(x, tuple):
            for y in x:
                if isinstance(y, tuple) and y and isinstance(y[0], str) and on_all_paths(y, pred):
                    return True
    return False
