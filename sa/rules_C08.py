"""C08 — projection, viewport and camera map points where geometry says
(the algebraic clauses, decided as rational-function identities over the reals).

Engine A (ring domain) interprets perspective(), orthographic() and viewport()
on symbolic parameters; the resulting matrices are applied symbolically. Decides:
  P1  perspective(fr, ar, n..f): clip w equals view z; the near plane goes to
      z_c = -w and the far plane to z_c = +w (identities in n, f); x and y are
      scaled by fr and fr*ar; the z row does not depend on x, y; depth order is
      preserved (the z/w slope coefficient 2fn/(n-f) is negative for 0 < n < f,
      by a non-negativity certificate)
  P2  orthographic(lbn, rtf): the box corners go to (-1,-1,-1) and (1,1,1) with w = 1
  P3  viewport(s..e): NDC (-1,-1) goes to s and (1,1) to e; depth passes through
  P4  Camera: world_to_project = world_to_view.then(project); Camera::viewport
      builds its matrix and dims from the INTERSECTION of the request with the
      frame; perspective() uses the frame's own aspect ratio
Leaves: pixel-exact pinhole geometry, the first-person camera's rigid motion
(trigonometry), disjoint viewport rectangles (values).
"""
from fractions import Fraction

from . import facts, common, absint as A, symalg as S, poly as PL, certs, term as T, guards as G

M = "retrofire_core::math::mat::"
PROJ_APPLY = M + "Matrix::<[[f32; 4]; 4], math::mat::RealToProj<Src>>::apply"
REAL_APPLY_PT = M + "Matrix::<[[f32; 4]; 4], math::mat::RealToReal<3, Src, Dst>>::apply_pt"


def positive_oracle(pos_syms, order=()):
    """all listed symbols are > 0; `order` lists (a, b) with a < b"""
    def orc(op, a, b):
        zero = ("f", 0.0)
        tbl = {"gt": {"Gt": 1, "Ge": 1, "Lt": 0, "Le": 0, "Eq": 0, "Ne": 1}, "lt": {"Gt": 0, "Ge": 0, "Lt": 1, "Le": 1, "Eq": 0, "Ne": 1}}
        if a in pos_syms and b == zero:
            return tbl["gt"].get(op)
        if b in pos_syms and a == zero:
            return tbl["lt"].get(op)
        for lo, hi in order:
            if (a, b) == (lo, hi):
                return tbl["lt"].get(op)
            if (a, b) == (hi, lo):
                return tbl["gt"].get(op)
        return None
    return orc


def m_range_is_empty(it, args, callee, depth):
    r = A.deref_all(it, args[0])
    if isinstance(r, tuple) and r[0] == "adt" and len(r[3]) == 2:
        lt = it.oracle("Lt", r[3][0], r[3][1])
        if lt is None:
            raise A.Undecided("Range::is_empty on undecided bounds")
        return int(not lt)
    raise A.Undecided("Range::is_empty")


def check_config(rep, prog):
    cfg = prog.config
    RANGE = "core::ops::range::Range"

    def run(path, args, oracle=None, env=None, models=None):
        mm = {"Range::<Idx>::is_empty": m_range_is_empty, "ops::range::Range<Idx>>::is_empty": m_range_is_empty}
        mm.update(models or {})
        it = S.interp(prog, models=mm, oracle=oracle)
        try:
            return it, it.call_body(prog.body(path), args, env=env or {})
        except (A.Undecided, A.Panic, S.NotPolynomial) as e:
            raise common.Infra("C08: %s could not be evaluated symbolically (%s)" % (path, e))

    def req(ok, rule, key, where, what):
        rep.inst("C08." + rule, "%s: %s" % (what, "holds" if ok else "FAILS"), config=cfg)
        if not ok:
            rep.violate("C08." + rule, "%s|%s" % (rule, key), where, "%s does not hold as an identity" % what, config=cfg)
    one = ({(): Fraction(1)}, {(): Fraction(1)})

    def const(c):
        return ({(): Fraction(c)} if c else {}, {(): Fraction(1)})

    def symr(n):
        return ({(n,): Fraction(1)}, {(): Fraction(1)})

    def neg(r):
        return ({m: -c for m, c in r[0].items()}, r[1])
    # ---- P1 perspective
    pb = prog.body(M + "perspective")
    fr, ar, n, f = S.sym("fr"), S.sym("ar"), S.sym("n"), S.sym("f")
    orc = positive_oracle({fr, ar, n, f}, order=[(n, f)])
    it, pm = run(M + "perspective", [fr, ar, ("adt", RANGE, "Range", [n, f])], oracle=orc)

    def proj(m, p):
        i2, r = run(PROJ_APPLY, [S.ref_to(A.copy_val(m)), S.ref_to(S.point(p))], oracle=orc)
        return [S.to_ratio(c) for c in S.components(i2, r)]
    g = proj(pm, ["x", "y", "z"])
    req(S.ratio_eq(g[3], symr("z")), "P1", "w", pb.where(), "perspective: clip w = view z")
    req(S.ratio_eq(g[0], ({("fr", "x"): Fraction(1)}, one[1])) and S.ratio_eq(g[1], ({("ar", "fr", "y"): Fraction(1)}, one[1])), "P1", "xy", pb.where(),
        "perspective: x_c = fr*x, y_c = fr*ar*y")
    zvars = {s for m in list(g[2][0]) + list(g[2][1]) for s in m}
    req(not ({"x", "y"} & zvars), "P1", "z-indep", pb.where(), "perspective: clip z depends only on view z and the planes")
    gn = proj(pm, ["x", "y", n])
    gf = proj(pm, ["x", "y", f])
    req(S.ratio_eq(gn[2], neg(symr("n"))) and S.ratio_eq(gn[3], symr("n")), "P1", "near", pb.where(), "perspective: the near plane z = n maps to z_c = -w")
    req(S.ratio_eq(gf[2], symr("f")) and S.ratio_eq(gf[3], symr("f")), "P1", "far", pb.where(), "perspective: the far plane z = f maps to z_c = +w")
    # slope: z_c = e22*z + e23 ; ndc z = e22 + e23/z is increasing in z iff e23 < 0
    g0 = proj(pm, ["x", "y", ("f", 0.0)])          # z = 0 isolates e23
    num, den = g0[2]
    # substitute f = n + d with n, d > 0: need num/den < 0
    sub = {"f": {("n",): Fraction(1), ("d",): Fraction(1)}}
    num2, den2 = certs.substitute(num, sub), certs.substitute(den, sub)
    lbs = {}
    pos = lambda p: bool(p) and certs.nonneg(p, lbs)  # noqa: E731
    negp = lambda p: bool(p) and certs.nonneg({m: -c for m, c in p.items()}, lbs)  # noqa: E731
    slope_neg = (pos(num2) and negp(den2)) or (negp(num2) and pos(den2))
    req(slope_neg, "P1", "monotone", pb.where(), "perspective: NDC depth e22 + e23/z is strictly increasing in z (e23 = %s / %s < 0 for 0 < n < f)" % (num, den))
    # ---- P2 orthographic
    ob = prog.body(M + "orthographic")
    it, om = run(M + "orthographic", [S.point(["lx", "ly", "lz"]), S.point(["rx", "ry", "rz"])])
    gl = proj(om, ["lx", "ly", "lz"])
    gr = proj(om, ["rx", "ry", "rz"])
    req(all(S.ratio_eq(gl[i], const(-1)) for i in range(3)) and S.ratio_eq(gl[3], const(1)), "P2", "lbn", ob.where(), "orthographic: left-bottom-near corner maps to (-1,-1,-1), w = 1")
    req(all(S.ratio_eq(gr[i], const(1)) for i in range(3)) and S.ratio_eq(gr[3], const(1)), "P2", "rtf", ob.where(), "orthographic: right-top-far corner maps to (1,1,1), w = 1")
    # ---- P3 viewport
    vb = prog.body(M + "viewport")
    it, vm = run(M + "viewport", [("adt", RANGE, "Range", [S.point(["sx", "sy"]), S.point(["ex", "ey"])])])

    def vp(p):
        i2, r = run(REAL_APPLY_PT, [S.ref_to(A.copy_val(vm)), S.ref_to(S.point(p))])
        return [S.to_ratio(c) for c in S.components(i2, r)]
    a = vp([("f", -1.0), ("f", -1.0), "z"])
    b = vp([("f", 1.0), ("f", 1.0), "z"])
    req(S.ratio_eq(a[0], symr("sx")) and S.ratio_eq(a[1], symr("sy")) and S.ratio_eq(a[2], symr("z")), "P3", "min", vb.where(), "viewport: NDC (-1,-1,z) maps to (start.x, start.y, z)")
    req(S.ratio_eq(b[0], symr("ex")) and S.ratio_eq(b[1], symr("ey")) and S.ratio_eq(b[2], symr("z")), "P3", "max", vb.where(), "viewport: NDC (1,1,z) maps to (end.x, end.y, z)")
    # ---- P4 camera structure
    w2p = [b_ for p, b_ in prog.bodies.items() if p.startswith("retrofire_core::render::cam::Camera::<M>::world_to_project")]
    rep.floor("C08.P4.%s" % cfg, len(w2p), 1, "Camera::world_to_project")
    sl = T.Slicer(w2p[0])
    rt = T.strip(sl.local(0), sites=True, refs=True)
    ok = rt[0] == "call" and rt[1].split(" => ")[0].endswith("::then") and bool(T.calls_in(rt[2][0], "Mode::world_to_view")) \
        and T.contains(rt[2][1], lambda q: q[0] == "field" and q[2] == "Camera.project")
    req(ok, "P4", "w2p", w2p[0].where(), "Camera::world_to_project = mode.world_to_view().then(&self.project)")
    cv = [b_ for p, b_ in prog.bodies.items() if p.startswith("retrofire_core::render::cam::Camera::<M>::viewport") and b_.kind == "AssocFn"]
    rep.floor("C08.P4v.%s" % cfg, len(cv), 1, "Camera::viewport")
    b_ = cv[0]
    sl = T.Slicer(b_)
    inter = [t for _bi, t in b_.calls(lambda c: c["path"].endswith("Rect::<T>::intersect"))]
    vcalls = [t for _bi, t in b_.calls(lambda c: c["path"] == M + "viewport")]
    ok = len(inter) == 1 and len(vcalls) == 1
    if ok:
        arg = T.strip(sl.operand(vcalls[0]["args"][0]), sites=True, refs=True)
        # every coordinate handed to viewport() comes from the intersected rectangle on every path
        comps = [q for q in T.walk(arg) if q[0] == "field" and q[2] == "Option.0"]
        from_inter = bool(comps) and all(T.on_all_paths(q, lambda r: r[0] == "call" and r[1].split(" => ")[0].endswith("Rect::<T>::intersect")) for q in comps) \
            and not any(q[0] == "phi" and not all(T.contains(x, lambda r: r[0] == "call" and r[1].split(" => ")[0].endswith("Rect::<T>::intersect")) for x in q[2]) for q in T.walk(arg))
        frame = T.strip(sl.operand(inter[0]["args"][1]), sites=True, refs=True)
        uses_dims = T.contains(frame, lambda q: q[0] == "field" and q[2] == "Camera.dims")
        ok = from_inter and uses_dims
    req(ok, "P4", "viewport", b_.where(), "Camera::viewport builds its matrix from bounds.intersect(&(0..w, 0..h)) with (w, h) = self.dims")
    # ... and the dimensions it records are those of the SAME clipped rectangle (the projection's aspect ratio and the
    # render target extent are derived from them): width from its right/left, height from its bottom/top, nothing else
    ret = T.strip(sl.local(0), sites=True, refs=True)
    aggs = [q for q in T.walk(ret) if q[0] == "agg" and q[1].endswith("Camera")]
    cam = prog.adt("retrofire_core::render::cam::Camera")
    di = cam["variants"][0]["fields"].index("dims")
    ok = len(aggs) >= 1
    for ag in aggs:
        d = ag[2][di]
        okd = d[0] == "agg" and d[1] == "tuple" and len(d[2]) == 2
        if okd:
            for comp, want in ((d[2][0], {"Rect.right", "Rect.left"}), (d[2][1], {"Rect.bottom", "Rect.top"})):
                leaves = set()
                clean = True
                for q in T.walk(comp):
                    if q[0] == "param" or q[0] == "upvar":
                        clean = False
                for q in T.walk(_cut_intersect(comp, leaves)):
                    if q[0] in ("param", "upvar", "call") and not (q[0] == "call" and q[1].split(" => ")[0].split("::")[-1] in ("abs_diff", "saturating_sub", "wrapping_sub", "checked_sub", "unwrap_or", "unwrap_or_default", "max", "min")):
                        okd = False
                okd = okd and leaves == want
        ok = ok and okd
    req(ok, "P4", "viewport-dims", b_.where(), "Camera::viewport records dims = (right - left, bottom - top) of the same intersected rectangle it builds the matrix from")
    # ... and it is a frame condition on the projection: a Camera holds its projection as a bare matrix, with no record of whether it is
    # a perspective, an orthographic or a user-supplied one, so viewport() cannot adjust it correctly for all of them — the matrix it
    # returns must be the one it was given (an orthographic box must still map onto the clip volume after the viewport is set)
    fields = cam["variants"][0]["fields"]
    if set(fields) == {"mode", "dims", "project", "viewport"}:
        pi = fields.index("project")
        ok = len(aggs) >= 1
        for ag in aggs:
            pj = T.strip(ag[2][pi], sites=True, refs=True)
            while pj[0] == "call" and pj[1].split(" => ")[0].endswith("::clone") and len(pj[2]) == 1:      # an explicit copy of the same matrix
                pj = T.strip(pj[2][0], sites=True, refs=True)
            ok = ok and pj[0] == "field" and pj[2] == "Camera.project" and T.strip(pj[1], sites=True, refs=True)[0] == "param"
        req(ok, "P4", "viewport-frame", b_.where(), "Camera::viewport returns the projection matrix it was given (the camera keeps no record of the projection's kind to adjust it by)")
    cp = [b2 for p, b2 in prog.bodies.items() if p.startswith("retrofire_core::render::cam::Camera::<M>::perspective") and b2.kind == "AssocFn"]
    if cp:
        sl = T.Slicer(cp[0])
        pc = [t for _bi, t in cp[0].calls(lambda c: c["path"] == M + "perspective")]
        ok = len(pc) == 1
        if ok:
            ar_t = T.strip(sl.operand(pc[0]["args"][1]), sites=True, refs=True, casts=True)
            ok = ar_t[0] == "bin" and ar_t[1] == "Div" and "Camera.dims" in T.fields_in(ar_t[2]) and "Camera.dims" in T.fields_in(ar_t[3]) \
                and T.fields_in(ar_t[2])[0] == "0" and T.fields_in(ar_t[3])[0] == "1"
        req(ok, "P4", "aspect", cp[0].where(), "Camera::perspective passes aspect = dims.0 / dims.1 of its own frame")

    if "fp" in prog.features:
        first_person_rules(rep, prog, req)


def first_person_rules(rep, prog, req):
    """P5: the first-person camera, with sin/cos of the two heading angles as indeterminates s, c (azimuth) and S, C
    (altitude) modulo s^2 + c^2 = S^2 + C^2 = 1 and the normalising factor of orient_z as an opaque positive factor."""
    from .rules_C18 import TRIG, ANGLE
    cfg = prog.config
    FP = "retrofire_core::render::cam::FirstPerson"
    VEC = "retrofire_core::math::vec::Vector"
    W2V = "retrofire_core::<render::cam::FirstPerson as render::cam::Mode>::world_to_view"
    TR = FP + "::translate"

    def trig(fn):
        def m(it, args, callee, depth):
            v = A.deref_all(it, args[0])
            if isinstance(v, tuple) and v[0] == "adt":
                v = v[3][0]
            if v == ("f", 0.0):
                return ("f", 0.0) if fn == "s" else ("f", 1.0)
            if isinstance(v, tuple) and v[0] == "sym":
                return S.sym(fn + "_" + v[1])
            raise A.Undecided("sin/cos of a compound angle %r" % (v,))
        return m

    def m_sin_cos(it, args, callee, depth):
        return ("tuple", [trig("s")(it, args, callee, depth), trig("c")(it, args, callee, depth)])
    captured = {}

    def m_orient_z(it, args, callee, depth):
        captured["args"] = [A.deref_all(it, a) for a in args]
        return NotImplemented
    models = dict(TRIG)
    models.update({"angle::Angle::sin_cos": m_sin_cos, "angle::Angle::sin": trig("s"), "angle::Angle::cos": trig("c"),
                   "::approx_eq": lambda *a: 0, "recip_sqrt": lambda it, args, c, d: ("symop", "rsqrt", A.deref_all(it, args[0]), None),
                   "mat::orient_z": m_orient_z})
    rel = [("s_az", {(): Fraction(1), ("c_az", "c_az"): Fraction(-1)}), ("s_alt", {(): Fraction(1), ("c_alt", "c_alt"): Fraction(-1)})]
    red = lambda p: S.reduce_mod(p, rel)  # noqa: E731
    heading = ("adt", VEC, "Vector", [("array", [S.sym("r"), S.sym("az"), S.sym("alt")]), ("tuple", [])])
    fp = ("adt", FP, "FirstPerson", [S.vector(["px", "py", "pz"]), heading])
    generic = lambda op, a, b: {"Eq": False, "Ne": True}.get(op)  # noqa: E731
    wb = prog.body(W2V)
    it = S.interp(prog, models=models, oracle=generic)
    try:
        m = it.call_body(wb, [S.ref_to(fp)])
        pm = [S.to_poly(c) for c in S.components(it, m)]
        hint = [S.to_poly(c) for c in S.components(it, captured["args"][1])]
        fwd = [S.to_poly(c) for c in S.components(it, captured["args"][0])]
    except KeyError:
        raise common.Infra("C08.P5: FirstPerson::world_to_view no longer builds its basis through mat::orient_z: the rule reads the heading and the sideways "
                           "hint off that call and cannot decide this form; rule needs re-confirmation")
    except (A.Undecided, A.Panic, S.NotPolynomial) as e:
        raise common.Infra("C08.P5: FirstPerson::world_to_view could not be evaluated symbolically (%s)" % e)
    rows = [[pm[i * 4 + j] for j in range(4)] for i in range(3)]

    def dot(u, v):
        acc = {}
        for a_, b_ in zip(u, v):
            acc = PL.padd(acc, PL.pmul(a_, b_))
        return acc

    def cross(u, v):
        neg = lambda q: {k: -c for k, c in q.items()}  # noqa: E731
        return [PL.padd(PL.pmul(u[1], v[2]), neg(PL.pmul(u[2], v[1]))), PL.padd(PL.pmul(u[2], v[0]), neg(PL.pmul(u[0], v[2]))),
                PL.padd(PL.pmul(u[0], v[1]), neg(PL.pmul(u[1], v[0])))]
    pos4 = [{("px",): Fraction(1)}, {("py",): Fraction(1)}, {("pz",): Fraction(1)}, {(): Fraction(1)}]
    req(all(red(dot(r_, pos4)) == {} for r_ in rows), "P5", "origin", wb.where(), "first-person view transform takes the camera position to the origin")
    lin = [r_[:3] for r_ in rows]
    req(all(red(dot(lin[i], lin[j])) == {} for i, j in ((0, 1), (1, 2), (0, 2))), "P5", "orthogonal", wb.where(),
        "first-person view transform: the three view axes are pairwise orthogonal (modulo sin^2 + cos^2 = 1)")
    req(red(dot(lin[0], fwd)) == {} and red(dot(lin[1], fwd)) == {}, "P5", "look-axis", wb.where(),
        "first-person view transform sends the heading direction onto the depth axis (x = y = 0)")
    zf = red(dot(lin[2], fwd))
    req(zf in ({("r", "r"): Fraction(1)}, {("r",): Fraction(1)}), "P5", "look-positive", wb.where(),
        "first-person view transform sends the heading direction to POSITIVE depth (z = r^2 or r)")
    req(red(lin[0][1]) == {}, "P5", "no-roll", wb.where(), "first-person view transform: the camera's right axis stays horizontal (no y component)")
    # the hint handed to orient_z must never be parallel to the heading, straight up and down included (altitude is clamped to [-90, 90] degrees)
    c2 = red(dot(cross(hint, fwd), cross(hint, fwd)))
    okc = len(c2) == 1 and set(c2) <= {("r", "r")} and list(c2.values())[0] > 0
    wit = None
    if not okc:
        for (c_az, s_az) in ((1, 0), (0, 1), (Fraction(3, 5), Fraction(4, 5))):
            for s_alt in (1, -1):
                pt = {"c_az": Fraction(c_az), "s_az": Fraction(s_az), "c_alt": Fraction(0), "s_alt": Fraction(s_alt), "r": Fraction(1)}
                try:
                    val = sum(c * __import__("functools").reduce(lambda x, y: x * y, [pt[v] for v in mono], Fraction(1)) for mono, c in c2.items())
                except KeyError:
                    val = None
                if val == 0:
                    wit = "azimuth (cos, sin) = (%s, %s), altitude %s90 degrees" % (c_az, s_az, "+" if s_alt > 0 else "-")
                    break
            if wit:
                break
        if not wit:
            raise common.Infra("C08.P5: |hint x heading|^2 = %s is not a positive multiple of r^2 and no degenerate heading was found; rule needs re-confirmation" % (c2,))
    rep.inst("C08.P5", "orient_z hint vs heading: |hint x heading|^2 = %s: %s" % (c2, "never degenerate" if okc else "DEGENERATE at " + wit), config=cfg)
    if not okc:
        rep.violate("C08.P5", "P5|hint-degenerate", wb.where(),
                    "first-person view transform: the sideways hint given to orient_z becomes parallel to (or vanishes against) the heading at %s, "
                    "a heading rotate_to() allows: |hint x heading|^2 = %s is 0 there and the basis is normalised from a zero vector" % (wit, c2), config=cfg)
    # translate(): displacement along the HORIZONTAL heading, right and up axes, whatever the altitude
    tb = prog.body(TR)
    cell = A.Frame(None)
    cell.locals[0] = A.copy_val(fp)
    it = S.interp(prog, models=models, oracle=generic)
    try:
        it.call_body(tb, [("ref", cell, 0, []), S.vector(["dx", "dy", "dz"])])
        newpos = [S.to_poly(c) for c in S.components(it, cell.locals[0][3][0])]
    except (A.Undecided, A.Panic, S.NotPolynomial) as e:
        raise common.Infra("C08.P5: FirstPerson::translate could not be evaluated symbolically (%s)" % e)
    want = [PL.padd({("px",): Fraction(1)}, PL.padd({("dx", "s_az"): Fraction(1)}, {("c_az", "dz"): Fraction(1)})),
            PL.padd({("py",): Fraction(1)}, {("dy",): Fraction(1)}),
            PL.padd({("pz",): Fraction(1)}, PL.padd({("c_az", "dx"): Fraction(-1)}, {("dz", "s_az"): Fraction(1)}))]
    req(newpos == want, "P5", "translate", tb.where(),
        "FirstPerson::translate(d) moves the position by dx*(sin az, 0, -cos az) + dy*(0, 1, 0) + dz*(cos az, 0, sin az), independent of the altitude")


def _cut_intersect(t, leaves):
    """Replace every `(intersect(..).Rect.<side> as Some).0` sub-term by a constant, recording the side."""
    if not isinstance(t, tuple):
        return t
    if t[0] == "field" and t[2] == "Option.0":
        inner = [q for q in T.walk(t[1]) if q[0] == "field" and q[2].startswith("Rect.")]
        calls = [q for q in T.walk(t[1]) if q[0] == "call"]
        if inner and calls and all(c[1].split(" => ")[0].endswith("Rect::<T>::intersect") for c in calls):
            leaves.add(inner[0][2])
            return ("const", "side")
    return tuple(_cut_intersect(x, leaves) if isinstance(x, tuple) else x for x in t)


def check(rep, args):
    configs = ["ws"] if rep.tier == "quick" else common.ALL_CONFIGS
    rep.configs = configs
    for cfg in configs:
        check_config(rep, facts.program(cfg))
    cov = {
        "explanation": "symbolic interpretation of perspective/orthographic/viewport on symbolic parameters, results compared as rational-function identities; "
                       "sign of the depth slope by a non-negativity certificate; structural rules for the camera",
        "evaluations": len(rep.instances),
        "distinct_nontrivial": len({i["what"] for i in rep.instances}),
        "rules": ["P1", "P2", "P3", "P4"],
    }
    return "other", cov, ["identities hold over the reals for valid parameters (fr, ar, n > 0, n < f); float rounding is not modelled",
                          "u32 -> f32 conversion of viewport bounds is exact (bounds < 2^24)",
                          "first-person camera motion (trigonometry) and disjoint viewport rectangles are not decided"]
