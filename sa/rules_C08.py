"""C08 — projection, viewport and camera map points where geometry says
(the algebraic clauses, decided as rational-function identities over the reals).

Engine A (ring domain) interprets perspective(), orthographic() and viewport()
on symbolic parameters; the resulting matrices are applied symbolically. Decides:
  P1  perspective(fr, ar, n..f): clip w equals view z; the near plane goes to
      z_c = -w and the far plane to z_c = +w (identities in n, f); x and y are
      scaled by fr and fr*ar; the z row does not depend on x, y; depth order is
      preserved (the z/w slope coefficient 2fn/(n-f) is negative for 0 < n < f,
      by a non-negativity certificate)
  P2  orthographic(lbn, rtf): the box corners go to (-1,-1,-1) and (1,1,1) with w = 1
  P3  viewport(s..e): NDC (-1,-1) goes to s and (1,1) to e; depth passes through
  P4  Camera: world_to_project = world_to_view.then(project); Camera::viewport
      builds its matrix and dims from the INTERSECTION of the request with the
      frame; perspective() uses the frame's own aspect ratio
Leaves: pixel-exact pinhole geometry, the first-person camera's rigid motion
(trigonometry), disjoint viewport rectangles (values).
"""
from fractions import Fraction

from . import facts, common, absint as A, symalg as S, poly as PL, certs, term as T, guards as G

M = "retrofire_core::math::mat::"
PROJ_APPLY = M + "Matrix::<[[f32; 4]; 4], math::mat::RealToProj<Src>>::apply"
REAL_APPLY_PT = M + "Matrix::<[[f32; 4]; 4], math::mat::RealToReal<3, Src, Dst>>::apply_pt"


def positive_oracle(pos_syms, order=()):
    """all listed symbols are > 0; `order` lists (a, b) with a < b"""
    def orc(op, a, b):
        zero = ("f", 0.0)
        tbl = {"gt": {"Gt": 1, "Ge": 1, "Lt": 0, "Le": 0, "Eq": 0, "Ne": 1}, "lt": {"Gt": 0, "Ge": 0, "Lt": 1, "Le": 1, "Eq": 0, "Ne": 1}}
        if a in pos_syms and b == zero:
            return tbl["gt"].get(op)
        if b in pos_syms and a == zero:
            return tbl["lt"].get(op)
        for lo, hi in order:
            if (a, b) == (lo, hi):
                return tbl["lt"].get(op)
            if (a, b) == (hi, lo):
                return tbl["gt"].get(op)
        return None
    return orc


def m_range_is_empty(it, args, callee, depth):
    r = A.deref_all(it, args[0])
    if isinstance(r, tuple) and r[0] == "adt" and len(r[3]) == 2:
        lt = it.oracle("Lt", r[3][0], r[3][1])
        if lt is None:
            raise A.Undecided("Range::is_empty on undecided bounds")
        return int(not lt)
    raise A.Undecided("Range::is_empty")


def check_config(rep, prog):
    cfg = prog.config
    RANGE = "core::ops::range::Range"

    def run(path, args, oracle=None, env=None, models=None):
        mm = {"Range::<Idx>::is_empty": m_range_is_empty, "ops::range::Range<Idx>>::is_empty": m_range_is_empty}
        mm.update(models or {})
        it = S.interp(prog, models=mm, oracle=oracle)
        try:
            return it, it.call_body(prog.body(path), args, env=env or {})
        except (A.Undecided, A.Panic, S.NotPolynomial) as e:
            raise common.Infra("C08: %s could not be evaluated symbolically (%s)" % (path, e))

    def req(ok, rule, key, where, what):
        rep.inst("C08." + rule, "%s: %s" % (what, "holds" if ok else "FAILS"), config=cfg)
        if not ok:
            rep.violate("C08." + rule, "%s|%s" % (rule, key), where, "%s does not hold as an identity" % what, config=cfg)
    one = ({(): Fraction(1)}, {(): Fraction(1)})

    def const(c):
        return ({(): Fraction(c)} if c else {}, {(): Fraction(1)})

    def symr(n):
        return ({(n,): Fraction(1)}, {(): Fraction(1)})

    def neg(r):
        return ({m: -c for m, c in r[0].items()}, r[1])
    # ---- P1 perspective
    pb = prog.body(M + "perspective")
    fr, ar, n, f = S.sym("fr"), S.sym("ar"), S.sym("n"), S.sym("f")
    orc = positive_oracle({fr, ar, n, f}, order=[(n, f)])
    it, pm = run(M + "perspective", [fr, ar, ("adt", RANGE, "Range", [n, f])], oracle=orc)

    def proj(m, p):
        i2, r = run(PROJ_APPLY, [S.ref_to(A.copy_val(m)), S.ref_to(S.point(p))], oracle=orc)
        return [S.to_ratio(c) for c in S.components(i2, r)]
    g = proj(pm, ["x", "y", "z"])
    req(S.ratio_eq(g[3], symr("z")), "P1", "w", pb.where(), "perspective: clip w = view z")
    req(S.ratio_eq(g[0], ({("fr", "x"): Fraction(1)}, one[1])) and S.ratio_eq(g[1], ({("ar", "fr", "y"): Fraction(1)}, one[1])), "P1", "xy", pb.where(),
        "perspective: x_c = fr*x, y_c = fr*ar*y")
    zvars = {s for m in list(g[2][0]) + list(g[2][1]) for s in m}
    req(not ({"x", "y"} & zvars), "P1", "z-indep", pb.where(), "perspective: clip z depends only on view z and the planes")
    gn = proj(pm, ["x", "y", n])
    gf = proj(pm, ["x", "y", f])
    req(S.ratio_eq(gn[2], neg(symr("n"))) and S.ratio_eq(gn[3], symr("n")), "P1", "near", pb.where(), "perspective: the near plane z = n maps to z_c = -w")
    req(S.ratio_eq(gf[2], symr("f")) and S.ratio_eq(gf[3], symr("f")), "P1", "far", pb.where(), "perspective: the far plane z = f maps to z_c = +w")
    # slope: z_c = e22*z + e23 ; ndc z = e22 + e23/z is increasing in z iff e23 < 0
    g0 = proj(pm, ["x", "y", ("f", 0.0)])          # z = 0 isolates e23
    num, den = g0[2]
    # substitute f = n + d with n, d > 0: need num/den < 0
    sub = {"f": {("n",): Fraction(1), ("d",): Fraction(1)}}
    num2, den2 = certs.substitute(num, sub), certs.substitute(den, sub)
    lbs = {}
    pos = lambda p: bool(p) and certs.nonneg(p, lbs)  # noqa: E731
    negp = lambda p: bool(p) and certs.nonneg({m: -c for m, c in p.items()}, lbs)  # noqa: E731
    slope_neg = (pos(num2) and negp(den2)) or (negp(num2) and pos(den2))
    req(slope_neg, "P1", "monotone", pb.where(), "perspective: NDC depth e22 + e23/z is strictly increasing in z (e23 = %s / %s < 0 for 0 < n < f)" % (num, den))
    # ---- P2 orthographic
    ob = prog.body(M + "orthographic")
    it, om = run(M + "orthographic", [S.point(["lx", "ly", "lz"]), S.point(["rx", "ry", "rz"])])
    gl = proj(om, ["lx", "ly", "lz"])
    gr = proj(om, ["rx", "ry", "rz"])
    req(all(S.ratio_eq(gl[i], const(-1)) for i in range(3)) and S.ratio_eq(gl[3], const(1)), "P2", "lbn", ob.where(), "orthographic: left-bottom-near corner maps to (-1,-1,-1), w = 1")
    req(all(S.ratio_eq(gr[i], const(1)) for i in range(3)) and S.ratio_eq(gr[3], const(1)), "P2", "rtf", ob.where(), "orthographic: right-top-far corner maps to (1,1,1), w = 1")
    # ---- P3 viewport
    vb = prog.body(M + "viewport")
    it, vm = run(M + "viewport", [("adt", RANGE, "Range", [S.point(["sx", "sy"]), S.point(["ex", "ey"])])])

    def vp(p):
        i2, r = run(REAL_APPLY_PT, [S.ref_to(A.copy_val(vm)), S.ref_to(S.point(p))])
        return [S.to_ratio(c) for c in S.components(i2, r)]
    a = vp([("f", -1.0), ("f", -1.0), "z"])
    b = vp([("f", 1.0), ("f", 1.0), "z"])
    req(S.ratio_eq(a[0], symr("sx")) and S.ratio_eq(a[1], symr("sy")) and S.ratio_eq(a[2], symr("z")), "P3", "min", vb.where(), "viewport: NDC (-1,-1,z) maps to (start.x, start.y, z)")
    req(S.ratio_eq(b[0], symr("ex")) and S.ratio_eq(b[1], symr("ey")) and S.ratio_eq(b[2], symr("z")), "P3", "max", vb.where(), "viewport: NDC (1,1,z) maps to (end.x, end.y, z)")
    # ---- P4 camera structure
    w2p = [b_ for p, b_ in prog.bodies.items() if p.startswith("retrofire_core::render::cam::Camera::<M>::world_to_project")]
    rep.floor("C08.P4.%s" % cfg, len(w2p), 1, "Camera::world_to_project")
    sl = T.Slicer(w2p[0])
    rt = T.strip(sl.local(0), sites=True, refs=True)
    ok = rt[0] == "call" and rt[1].split(" => ")[0].endswith("::then") and bool(T.calls_in(rt[2][0], "Mode::world_to_view")) \
        and T.contains(rt[2][1], lambda q: q[0] == "field" and q[2] == "Camera.project")
    req(ok, "P4", "w2p", w2p[0].where(), "Camera::world_to_project = mode.world_to_view().then(&self.project)")
    cv = [b_ for p, b_ in prog.bodies.items() if p.startswith("retrofire_core::render::cam::Camera::<M>::viewport") and b_.kind == "AssocFn"]
    rep.floor("C08.P4v.%s" % cfg, len(cv), 1, "Camera::viewport")
    b_ = cv[0]
    sl = T.Slicer(b_)
    inter = [t for _bi, t in b_.calls(lambda c: c["path"].endswith("Rect::<T>::intersect"))]
    vcalls = [t for _bi, t in b_.calls(lambda c: c["path"] == M + "viewport")]
    ok = len(inter) == 1 and len(vcalls) == 1
    if ok:
        arg = T.strip(sl.operand(vcalls[0]["args"][0]), sites=True, refs=True)
        # every coordinate handed to viewport() comes from the intersected rectangle on every path
        comps = [q for q in T.walk(arg) if q[0] == "field" and q[2] == "Option.0"]
        from_inter = bool(comps) and all(T.on_all_paths(q, lambda r: r[0] == "call" and r[1].split(" => ")[0].endswith("Rect::<T>::intersect")) for q in comps) \
            and not any(q[0] == "phi" and not all(T.contains(x, lambda r: r[0] == "call" and r[1].split(" => ")[0].endswith("Rect::<T>::intersect")) for x in q[2]) for q in T.walk(arg))
        frame = T.strip(sl.operand(inter[0]["args"][1]), sites=True, refs=True)
        uses_dims = T.contains(frame, lambda q: q[0] == "field" and q[2] == "Camera.dims")
        ok = from_inter and uses_dims
    req(ok, "P4", "viewport", b_.where(), "Camera::viewport builds its matrix from bounds.intersect(&(0..w, 0..h)) with (w, h) = self.dims")
    # ... and the dimensions it records are those of the SAME clipped rectangle (the projection's aspect ratio and the
    # render target extent are derived from them): width from its right/left, height from its bottom/top, nothing else
    ret = T.strip(sl.local(0), sites=True, refs=True)
    aggs = [q for q in T.walk(ret) if q[0] == "agg" and q[1].endswith("Camera")]
    cam = prog.adt("retrofire_core::render::cam::Camera")
    di = cam["variants"][0]["fields"].index("dims")
    ok = len(aggs) >= 1
    for ag in aggs:
        d = ag[2][di]
        okd = d[0] == "agg" and d[1] == "tuple" and len(d[2]) == 2
        if okd:
            for comp, want in ((d[2][0], {"Rect.right", "Rect.left"}), (d[2][1], {"Rect.bottom", "Rect.top"})):
                leaves = set()
                clean = True
                for q in T.walk(comp):
                    if q[0] == "param" or q[0] == "upvar":
                        clean = False
                for q in T.walk(_cut_intersect(comp, leaves)):
                    if q[0] in ("param", "upvar", "call") and not (q[0] == "call" and q[1].split(" => ")[0].split("::")[-1] in ("abs_diff", "saturating_sub", "wrapping_sub", "checked_sub", "unwrap_or", "unwrap_or_default", "max", "min")):
                        okd = False
                okd = okd and leaves == want
        ok = ok and okd
    req(ok, "P4", "viewport-dims", b_.where(), "Camera::viewport records dims = (right - left, bottom - top) of the same intersected rectangle it builds the matrix from")
    cp = [b2 for p, b2 in prog.bodies.items() if p.startswith("retrofire_core::render::cam::Camera::<M>::perspective") and b2.kind == "AssocFn"]
    if cp:
        sl = T.Slicer(cp[0])
        pc = [t for _bi, t in cp[0].calls(lambda c: c["path"] == M + "perspective")]
        ok = len(pc) == 1
        if ok:
            ar_t = T.strip(sl.operand(pc[0]["args"][1]), sites=True, refs=True, casts=True)
            ok = ar_t[0] == "bin" and ar_t[1] == "Div" and "Camera.dims" in T.fields_in(ar_t[2]) and "Camera.dims" in T.fields_in(ar_t[3]) \
                and T.fields_in(ar_t[2])[0] == "0" and T.fields_in(ar_t[3])[0] == "1"
        req(ok, "P4", "aspect", cp[0].where(), "Camera::perspective passes aspect = dims.0 / dims.1 of its own frame")


def _cut_intersect(t, leaves):
    """Replace every `(intersect(..).Rect.<side> as Some).0` sub-term by a constant, recording the side."""
    if not isinstance(t, tuple):
        return t
    if t[0] == "field" and t[2] == "Option.0":
        inner = [q for q in T.walk(t[1]) if q[0] == "field" and q[2].startswith("Rect.")]
        calls = [q for q in T.walk(t[1]) if q[0] == "call"]
        if inner and calls and all(c[1].split(" => ")[0].endswith("Rect::<T>::intersect") for c in calls):
            leaves.add(inner[0][2])
            return ("const", "side")
    return tuple(_cut_intersect(x, leaves) if isinstance(x, tuple) else x for x in t)


def check(rep, args):
    configs = ["ws"] if rep.tier == "quick" else common.ALL_CONFIGS
    rep.configs = configs
    for cfg in configs:
        check_config(rep, facts.program(cfg))
    cov = {
        "explanation": "symbolic interpretation of perspective/orthographic/viewport on symbolic parameters, results compared as rational-function identities; "
                       "sign of the depth slope by a non-negativity certificate; structural rules for the camera",
        "evaluations": len(rep.instances),
        "distinct_nontrivial": len({i["what"] for i in rep.instances}),
        "rules": ["P1", "P2", "P3", "P4"],
    }
    return "other", cov, ["identities hold over the reals for valid parameters (fr, ar, n > 0, n < f); float rounding is not modelled",
                          "u32 -> f32 conversion of viewport bounds is exact (bounds < 2^24)",
                          "first-person camera motion (trigonometry) and disjoint viewport rectangles are not decided"]
