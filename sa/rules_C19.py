"""C19 — PRNG has full period; distributions stay in range (algebraic + structural part).

Proof obligations (engine L on the MIR of Xorshift64::next_bits):
  o1  the state update lies in the GF(2)-linear fragment (xor / constant shift /
      rotate / copies through the &mut alias of the state word); no call, no
      other memory => also determinism: the step reads and writes only the state
  o2  rank T = 64  (bijection; only 0 maps to 0 => zero unreachable from non-zero)
  o3  T^(2^64-1) = I
  o4..o10  T^((2^64-1)/p) != I for p in {3,5,17,257,641,65537,6700417}
  o11 the factorisation is re-verified (product, Miller-Rabin) and ord_641(2) = 64
      => characteristic polynomial irreducible of degree 64 with a root of
      order 2^64-1 => every non-zero state lies on ONE cycle
  o12 independent cross-check: minimal polynomial by Berlekamp-Massey on a Krylov
      sequence has degree 64, passes Rabin's irreducibility test and x has order
      2^64-1 modulo it
Structural obligations (engine D):
  s1  from_seed: construction dominated by the seed != 0 edge, stores exactly the seed
  s2  Uniform<f32>::sample: the bits handed to from_bits lie in [0x3F800000,0x3FFFFFFF]
      (a float in [1,2)) and consume exactly 23 generator bits; result = (that - 1)*(end-start)+start
  s3  composite distributions draw components in order from the same generator
  s4  rejection samplers return only a value that passed `len_sqr(v) <= 1`
  s5  Bernoulli compares a Uniform(0..1) sample with p by strict <
Leaves: rounding at the top of an offset float range, integer range arithmetic,
unit length of normalised samples.
"""
from . import facts, guards as G, term as T, common, gf2
from .pp import stmt as pp_stmt

NEXT_BITS = "retrofire_core::math::rand::Xorshift64::next_bits"
STATE_ADT = "retrofire_core::math::rand::Xorshift64"


class _Endless(Exception):
    """a sampler that is still drawing after the followed number of draws"""


def interpret_linear(body):
    """Returns (T rows, returned rows, log). Raises gf2.NotLinear."""
    vals = {}           # local -> ('mat', rows) | ('ptr',) | ('int', k) | ('bool', b)
    mem = list(gf2.IDENT)
    log = []

    def is_state_place(p):
        # (*_1).0  or (*_k) with _k a pointer to the state
        if p["l"] == 1 and len(p["p"]) == 2 and p["p"][0] == "*" and isinstance(p["p"][1], dict) and p["p"][1].get("f") == 0:
            return True
        if len(p["p"]) == 1 and p["p"][0] == "*" and vals.get(p["l"], (None,))[0] == "ptr":
            return True
        return False

    def load(p, where):
        if is_state_place(p):
            return ("mat", list(mem))
        if not p["p"] and p["l"] in vals:
            return vals[p["l"]]
        if len(p["p"]) == 1 and isinstance(p["p"][0], dict) and "f" in p["p"][0] and p["l"] in vals and vals[p["l"]][0] == "pair":
            return vals[p["l"]][1 + p["p"][0]["f"]]
        if len(p["p"]) == 1 and isinstance(p["p"][0], dict) and p["l"] in vals and vals[p["l"]][0] == "ints":
            e = p["p"][0]
            idx = e.get("f", e.get("ci"))
            if isinstance(idx, int) and 0 <= idx < len(vals[p["l"]][1]):
                return ("int", vals[p["l"]][1][idx])
        raise gf2.NotLinear("read of a place outside the state word", where)

    def operand(o, where):
        if "c" in o or "m" in o:
            return load(o.get("c") or o.get("m"), where)
        k = o["k"]
        if "v" in k and k["ty"] in ("i32", "u32", "usize", "u64", "i64", "u8"):
            return ("int", int(k["v"]))
        if isinstance(k.get("val"), list) and all(isinstance(x, int) and not isinstance(x, bool) for x in k["val"]):
            return ("ints", [int(x) for x in k["val"]])          # a tuple / array of integer constants (named shift counts)
        raise gf2.NotLinear("constant operand of type %s" % k["ty"], where)

    bb = 0
    steps = 0
    ret = None
    while True:
        steps += 1
        if steps > 1000:
            raise gf2.NotLinear("step function does not terminate syntactically (loop)", body.where(bb, None))
        blk = body.blocks[bb]
        for si, s in enumerate(blk["stmts"]):
            where = body.where(bb, si)
            if s["k"] != "Assign":
                raise gf2.NotLinear("statement %s" % s["k"], where)
            rv = s["rv"]
            k = rv["k"]
            if k == "Use":
                v = operand(rv["a"], where)
            elif k in ("Ref", "RawPtr"):
                if is_state_place(rv["p"]):
                    v = ("ptr",)
                else:
                    raise gf2.NotLinear("reference to something other than the state word", where)
            elif k == "Cast" and rv["ck"] == "IntToInt":
                v = operand(rv["a"], where)
                if v[0] != "int":
                    raise gf2.NotLinear("integer cast of a state-dependent value", where)
            elif k == "BinaryOp":
                a = operand(rv["a"], where)
                b = operand(rv["b"], where)
                op = rv["op"]
                if op in ("Shl", "Shr", "ShlUnchecked", "ShrUnchecked") and a[0] == "mat" and b[0] == "int":
                    kk = b[1]
                    if not (0 <= kk < 64):
                        raise gf2.NotLinear("shift count out of range", where)
                    v = ("mat", gf2.m_shl(a[1], kk) if op.startswith("Shl") else gf2.m_shr(a[1], kk))
                    log.append("%s  :: rows shifted %s by %d" % (pp_stmt(s), "left" if op.startswith("Shl") else "right", kk))
                elif op == "BitXor" and a[0] == "mat" and b[0] == "mat":
                    v = ("mat", gf2.m_xor(a[1], b[1]))
                    log.append("%s  :: matrix sum" % pp_stmt(s))
                elif op in ("Lt", "Le", "Gt", "Ge", "Eq", "Ne") and a[0] == "int" and b[0] == "int":
                    v = ("bool", {"Lt": a[1] < b[1], "Le": a[1] <= b[1], "Gt": a[1] > b[1], "Ge": a[1] >= b[1],
                                  "Eq": a[1] == b[1], "Ne": a[1] != b[1]}[op])
                elif op in ("Eq", "Ne") and {a[0], b[0]} == {"mat", "int"} and (a if a[0] == "int" else b)[1] == 0:
                    m = a if a[0] == "mat" else b
                    if gf2.m_rank(m[1]) != 64:
                        raise gf2.NotLinear("zero test on a value that is not a bijective image of the state", where)
                    # for every NON-ZERO input state the value is non-zero
                    v = ("bool", op == "Ne")
                    log.append("%s  :: zero test of a bijective image: decided for non-zero states" % pp_stmt(s))
                else:
                    raise gf2.NotLinear("operation %s is not linear over GF(2) on these operands" % op, where)
            else:
                raise gf2.NotLinear("rvalue %s" % k, where)
            p = s["lhs"]
            if is_state_place(p):
                if v[0] != "mat":
                    raise gf2.NotLinear("state word overwritten with a non-state value", where)
                mem = list(v[1])
            elif not p["p"]:
                vals[p["l"]] = v
            else:
                raise gf2.NotLinear("write to a place other than the state word", where)
        t = blk["term"]
        where = body.where(bb, None)
        if t["k"] == "Return":
            r = vals.get(0)
            ret = r[1] if r and r[0] == "mat" else None
            break
        if t["k"] == "Goto":
            bb = t["t"]
        elif t["k"] == "Assert":
            c = operand(t["cond"], where)
            if c[0] != "bool" or c[1] != t["expected"]:
                raise gf2.NotLinear("assert %s is not discharged by constants" % t["ak"], where)
            bb = t["t"]
        elif t["k"] == "SwitchInt":
            c = operand(t["discr"], where)
            if c[0] != "bool":
                raise gf2.NotLinear("branch on a state-dependent value", where)
            nxt = t["otherwise"]
            for val, tgt in t["targets"]:
                if val == int(c[1]):
                    nxt = tgt
            bb = nxt
        elif t["k"] == "Call":
            c = t.get("callee")
            name = c["path"] if c else "<indirect>"
            if c and ("rotate_left" in name or "rotate_right" in name):
                a = operand(t["args"][0], where)
                b = operand(t["args"][1], where)
                if a[0] == "mat" and b[0] == "int":
                    kk = b[1] % 64
                    if "rotate_left" in name:
                        v = gf2.m_xor(gf2.m_shl(a[1], kk), gf2.m_shr(a[1], (64 - kk) % 64)) if kk else a[1]
                    else:
                        v = gf2.m_xor(gf2.m_shr(a[1], kk), gf2.m_shl(a[1], (64 - kk) % 64)) if kk else a[1]
                    vals[t["dest"]["l"]] = ("mat", v)
                    bb = t["t"]
                    continue
            raise gf2.NotLinear("call to %s inside the step function" % name, where)
        else:
            raise gf2.NotLinear("terminator %s" % t["k"], where)
    return mem, ret, log


def algebra(rep, Tm, cfg, body):
    obligations = []

    def ob(name, ok, detail):
        obligations.append({"id": name, "discharged": bool(ok), "detail": detail})
        rep.inst("C19." + name, detail + " : " + ("discharged" if ok else "FAILED"), config=cfg)
        if not ok:
            rep.violate("C19." + name, "%s" % name, body.where(), detail + " does not hold for the step function as compiled", config=cfg)
    order = (1 << 64) - 1
    rank = gf2.m_rank(Tm)
    ob("o2", rank == 64, "rank T = %d (== 64: step is a bijection of the 64-bit states and fixes only 0)" % rank)
    ob("o3", gf2.m_pow(Tm, order) == gf2.IDENT, "T^(2^64-1) = I")
    for i, p in enumerate(gf2.FACTORS_2_64_M1):
        ob("o%d" % (4 + i), gf2.m_pow(Tm, order // p) != gf2.IDENT, "T^((2^64-1)/%d) != I" % p)
    prod = 1
    for p in gf2.FACTORS_2_64_M1:
        prod *= p
    ob("o11", prod == order and all(gf2.is_prime(p) for p in gf2.FACTORS_2_64_M1) and gf2.mult_order(2, 641) == 64,
       "3*5*17*257*641*65537*6700417 = 2^64-1, all prime (deterministic Miller-Rabin), ord_641(2) = 64 "
       "(so 641 | 2^d-1 only for 64 | d: the characteristic polynomial is irreducible, hence primitive: one cycle)")
    # o12: Krylov / Berlekamp-Massey cross-check
    u = 0x9E3779B97F4A7C15
    x = 1
    seq = []
    for _ in range(160):
        seq.append(bin(u & x).count("1") & 1)
        x = gf2.m_apply(Tm, x)
    poly, L = gf2.berlekamp_massey(seq)
    irreducible = False
    primitive = False
    if L == 64:
        xq = 2
        for _ in range(64):
            xq = gf2.p_mulmod(xq, xq, poly)
        x32 = 2
        for _ in range(32):
            x32 = gf2.p_mulmod(x32, x32, poly)
        irreducible = (xq == 2) and gf2.p_gcd(x32 ^ 2, poly) == 1
        primitive = irreducible and all(gf2.p_powmod(2, order // p, poly) != 1 for p in gf2.FACTORS_2_64_M1)
    ob("o12", L == 64 and irreducible and primitive,
       "minimal polynomial of T (Berlekamp-Massey on a Krylov sequence) has degree %d, irreducible=%s, primitive=%s; poly=0x%x"
       % (L, irreducible, primitive, poly))
    return obligations


def structural(rep, prog):
    cfg = prog.config
    # ---- s1 from_seed
    fs = prog.body("retrofire_core::math::rand::Xorshift64::from_seed")
    sl = T.Slicer(fs)
    aggs = [(bi, si, s) for bi, si, s in fs.stmts()
            if s["k"] == "Assign" and s["rv"]["k"] == "Aggregate" and s["rv"].get("adt") == STATE_ADT]
    rep.floor("C19.s1", len(aggs), 1, "Xorshift64(..) construction in from_seed")

    def is_seed_zero_cmp(d):
        if d[0] != "bin" or d[1] not in ("Eq", "Ne"):
            return False
        ops = {T.strip(d[2], refs=True), T.strip(d[3], refs=True)}
        return ("param", 1) in ops and ("const", "u64", 0) in ops
    edges = G.bool_edges(fs, sl, is_seed_zero_cmp)
    nonzero = []
    for bi, tr, fa in edges:
        d, neg = G.strip_not(sl.operand(fs.term(bi)["discr"]))
        # bool_edges already swapped for negation; Eq true-edge means seed == 0
        nonzero += fa if d[1] == "Eq" else tr
    for bi, si, s in aggs:
        guarded = bool(nonzero) and G.guarded_by(fs, bi, nonzero)
        val = T.strip(sl.operand(s["rv"]["ops"][0]), refs=True)
        rep.inst("C19.s1", "from_seed: Xorshift64(%s) at %s constructed only on the seed != 0 edge: %s" % (T.show(val), fs.where(bi, si), guarded), config=cfg)
        if not guarded:
            rep.violate("C19.s1", "s1|unguarded", fs.where(bi, si), "from_seed can construct a generator without having excluded seed == 0", config=cfg)
        if val != ("param", 1):
            rep.violate("C19.s1", "s1|state", fs.where(bi, si), "from_seed stores %s instead of the seed" % T.show(val), config=cfg)

    # ---- s2 float sample bit budget
    uf0 = prog.body("retrofire_core::<math::rand::Uniform<f32> as math::rand::Distrib>::sample")
    # helpers of the module (a `next_unit_f32` on the generator, say) are inlined; the generator step stays a call
    uf = prog.inlined(uf0, depth=2, pred=lambda cb: cb.path.startswith("retrofire_core::math::rand::") and not cb.path.endswith("::next_bits"))
    usl = T.Slicer(uf)
    fb = list(uf.calls(lambda c: facts.callee_matches(c, "f32>::from_bits")))
    rep.floor("C19.s2", len(fb), 1, "f32::from_bits call in Uniform<f32>::sample")
    from . import bits
    for bi, t in fb:
        arg = usl.operand(t["args"][0])
        rng = bits.eval_range(arg, gen_calls=("Xorshift64::next_bits",))
        n_gen = len(T.calls_in(arg, "Xorshift64::next_bits"))
        ok = rng is not None and rng[0] >= 0x3F800000 and rng[1] <= 0x3FFFFFFF
        consumed = bits.generator_bits(arg, gen_calls=("Xorshift64::next_bits",))
        rep.inst("C19.s2", "from_bits(%s): bit range %s within [0x3F800000, 0x3FFFFFFF] (a float in [1,2)) = %s; generator bits consumed = %s from %d draw(s)"
                 % (T.show(arg), "[0x%X, 0x%X]" % rng if rng else None, ok, consumed, n_gen), config=cfg)
        if not ok:
            rep.violate("C19.s2", "s2|range", uf.where(bi, None),
                        "bits passed to f32::from_bits are not confined to [0x3F800000, 0x3FFFFFFF]: the unit sample can leave [1,2)", config=cfg)
        if consumed != 23 or n_gen != 1:
            rep.violate("C19.s2", "s2|mantissa", uf.where(bi, None),
                        "unit sample does not consume exactly 23 mantissa bits of one generator draw (bits=%s, draws=%d)" % (consumed, n_gen), config=cfg)
    ret = usl.local(0)
    # result == unit*(end-start)+start as a polynomial identity, unit = from_bits(..) - 1.0
    from . import poly as P
    atoms = [
        (lambda t: t[0] == "call" and "from_bits" in t[1], "F"),
        (lambda t: t[0] == "field" and t[2] == "Range.start", "S"),
        (lambda t: t[0] == "field" and t[2] == "Range.end", "E"),
    ]
    got = P.poly(ret, atoms)
    F1 = {("F",): 1, (): -1}
    want = P.padd(P.pmul(F1, {("E",): 1, ("S",): -1}), {("S",): 1})
    shape_ok = got == want
    rep.inst("C19.s2", "Uniform<f32>::sample == (from_bits(..) - 1.0) * (end - start) + start as a polynomial identity: %s   [%s]" % (shape_ok, T.show(ret)[:200]), config=cfg)
    if not shape_ok:
        opaque = [m for m in got if any(x.startswith("?") for x in m)]
        if opaque:
            # not an affine polynomial: extract the formula by symbolic interpretation (unit + 1 = F in [1, 2)) and look for a
            # range and a unit value that take the sample outside [start, end]; without one the rule cannot decide
            from . import symalg as S2, absint as A2
            RNG = "core::ops::range::Range"
            it2 = S2.interp(prog, models={"Xorshift64::next_bits": lambda *_a: S2.sym("bits"), "f32>::from_bits": lambda *_a: S2.sym("F"),
                                          "f32>::min": S2._opaque("fmin"), "f32>::max": S2._opaque("fmax"), "f32>::clamp": S2._opaque("fclamp")})
            me = ("adt", "retrofire_core::math::rand::Uniform", "Uniform", [("adt", RNG, "Range", [S2.sym("S"), S2.sym("E")])])
            try:
                val = A2.deref_all(it2, it2.call_body(uf0, [S2.ref_to(me), A2.UNKNOWN]))
            except (A2.Undecided, A2.Panic) as e:
                raise common.Infra("C19.s2: float sample is computed through constructs the rule cannot interpret (%s)" % e)
            wit = None
            try:
                for lo, hi in ((0.0, 1.0), (-1.0, 1.0), (0.0, 1e-8), (5.0, 5.000001), (100.0, 101.0), (-3.0, -2.9999999), (-1e-9, 1e-9), (1000.0, 1e6)):
                    for f in (1.0, 1.5, 2.0 - 2.0 ** -23):
                        v = S2.num_eval(val, {"S": lo, "E": hi, "F": f})
                        if not (lo <= v <= hi):
                            wit = (lo, hi, f - 1.0, v)
                            break
                    if wit:
                        break
            except S2.NotNumeric as e:
                raise common.Infra("C19.s2: float sample has a form the rule cannot evaluate (%s)" % e)
            if wit is None:
                raise common.Infra("C19.s2: float sample is computed through constructs the polynomial normal form cannot see (%s) and no range takes it outside [start, end]; "
                                   "rule needs re-confirmation" % opaque[:1])
            rep.violate("C19.s2", "s2|range-witness", uf.where(),
                        "Uniform<f32>::sample leaves its range: for start = %r, end = %r and unit value %r the extracted formula gives %r" % wit, config=cfg)
            opaque = None
    if not shape_ok and opaque is None:
        pass
    elif not shape_ok:
        rep.violate("C19.s2", "s2|affine", uf.where(), "float sample is not the affine map unit*(end-start)+start of unit = from_bits(..) - 1.0 (got polynomial %s)" % got, config=cfg)

    # ---- s6 integer sample: start + rem_euclid(bits, end - start)
    ui = prog.body("retrofire_core::<math::rand::Uniform<i32> as math::rand::Distrib>::sample")
    from . import symalg as S, absint as A
    from fractions import Fraction

    def m_rem(it, args, callee, depth):
        return ("symop", "rem_euclid", A.deref_all(it, args[0]), A.deref_all(it, args[1]))

    def m_bits(it, args, callee, depth):
        return ("sym", "bits")
    it = S.interp(prog, models={"$::rem_euclid": m_rem, "Xorshift64::next_bits": m_bits})
    RANGE = "core::ops::range::Range"
    u = ("adt", "retrofire_core::math::rand::Uniform", "Uniform", [("adt", RANGE, "Range", [("sym", "S"), ("sym", "E")])])
    ok6 = False
    try:
        r = it.call_body(ui, [S.ref_to(u), A.UNKNOWN])
        if isinstance(r, tuple) and r[0] == "symop" and r[1] == "Add":
            for rem, off in ((r[2], r[3]), (r[3], r[2])):
                if isinstance(rem, tuple) and rem[0] == "symop" and rem[1] == "rem_euclid" and off == ("sym", "S"):
                    width = S.to_poly(rem[3])
                    ok6 = width == {("E",): Fraction(1), ("S",): Fraction(-1)} and "bits" in repr(rem[2])
    except (A.Undecided, A.Panic, S.NotPolynomial) as e:
        raise common.Infra("C19.s6: Uniform<i32>::sample could not be evaluated symbolically (%s)" % e)
    rep.inst("C19.s6", "Uniform<i32>::sample = start + rem_euclid(bits, end - start) (so start <= sample <= end - 1 by rem_euclid's range [0, width)): %s" % ok6, config=cfg)
    if not ok6:
        rep.violate("C19.s6", "s6|int-range", ui.where(), "integer sample is not start + rem_euclid(generator bits, end - start)", config=cfg)

    # ---- s3 / s4 by interpretation: the inner `Distrib::sample` calls are uninterpreted (each returns a fresh symbol and records its
    # receiver and generator); what must hold is which draws are made, in which order, from which generator, and what is returned -
    # however the composite is written (array::from_fn, a loop over iter_mut().zip(..), iterator sources, loop/match/break forms)
    RNGN = "core::ops::range::Range"
    UNI = "retrofire_core::math::rand::Uniform"

    def draws_of(body, self_val, env, n_draw_syms=1, accept=None, max_draws=None):
        """interpret body(&self, rng); -> (result, [(receiver value, same generator?)], interpreter)"""
        log = []
        gcell = A.Frame(None)
        gcell.locals[0] = ("sym", "RNG")
        gref = ("ref", gcell, 0, [])

        def root(it_, r):
            while isinstance(r, tuple) and r[0] == "ref" and isinstance(it_.load_ref(r), tuple) and it_.load_ref(r)[0] == "ref":
                r = it_.load_ref(r)
            return r[1] if isinstance(r, tuple) and r[0] == "ref" else None

        def m_sample(it_, args, c, d):
            k = len(log)
            if max_draws is not None and k >= max_draws:
                raise _Endless("more than %d draws" % max_draws)
            recv = A.deref_all(it_, args[0])
            log.append((A.copy_val(recv), root(it_, args[1]) is gcell))
            if n_draw_syms == 1:
                return S.sym("u%d" % k)
            return ("array", [S.sym("v%d_%d" % (k, j)) for j in range(n_draw_syms)])

        def orc(op, x, y):
            if accept is None:
                return None
            return accept(op, x, y)
        it_ = S.interp(prog, models={"rand::Distrib::sample": m_sample}, oracle=orc)
        r = A.deref_all(it_, it_.call_body(body, [S.ref_to(self_val), gref], env=env))
        return r, log, it_

    def rng_of(start, end):
        return ("adt", UNI, "Uniform", [("adt", RNGN, "Range", [start, end])])

    # (D, E): component 0 then component 1 from the same generator into (first, second)
    pair = prog.body("retrofire_core::<(D, E) as math::rand::Distrib>::sample")
    try:
        r, log, it_ = draws_of(pair, ("tuple", [("sym", "D"), ("sym", "E")]), {})
        ok = [x[0] for x in log] == [("sym", "D"), ("sym", "E")] and all(x[1] for x in log) and isinstance(r, tuple) and r[0] == "tuple" \
            and [A.deref_all(it_, x) for x in r[1]] == [S.sym("u0"), S.sym("u1")]
    except (A.Undecided, A.Panic) as e:
        raise common.Infra("C19.s3: (D, E)::sample could not be interpreted (%s)" % e)
    rep.inst("C19.s3", "(D,E)::sample draws self.0 then self.1 from the same rng and returns (first, second): %s" % ok, config=cfg)
    if not ok:
        rep.violate("C19.s3", "s3|pair-order", pair.where(), "(D, E)::sample does not draw component 0 before component 1 from the same generator into (0, 1)", config=cfg)
    # Uniform<[T; N]>: component i from Uniform(start[i]..end[i]), ascending i, same generator
    arr = prog.body("retrofire_core::<math::rand::Uniform<[T; N]> as math::rand::Distrib>::sample")
    st3, en3 = [S.sym("s%d" % i) for i in range(3)], [S.sym("e%d" % i) for i in range(3)]
    try:
        r, log, it_ = draws_of(arr, rng_of(("array", list(st3)), ("array", list(en3))), {"N": 3, "T": "f32"})
        recvs = []
        for rv, same in log:
            rg = A.deref_all(it_, rv[3][0]) if isinstance(rv, tuple) and rv[0] == "adt" and rv[3] else None
            recvs.append((A.deref_all(it_, rg[3][0]), A.deref_all(it_, rg[3][1]), same) if isinstance(rg, tuple) and rg[0] == "adt" and len(rg[3]) >= 2 else None)
        ok_arr = recvs == [(st3[i], en3[i], True) for i in range(3)] and isinstance(r, tuple) and r[0] == "array" \
            and [A.deref_all(it_, x) for x in r[1]] == [S.sym("u%d" % i) for i in range(3)]
    except (A.Undecided, A.Panic) as e:
        raise common.Infra("C19.s3: Uniform<[T; N]>::sample could not be interpreted (%s)" % e)
    rep.inst("C19.s3", "Uniform<[T;N]>::sample: component i is drawn from Uniform(start[i]..end[i]), ascending i, same rng, into slot i: %s" % bool(ok_arr), config=cfg)
    if not ok_arr:
        rep.violate("C19.s3", "s3|array-order", arr.where(), "array distribution does not draw component i from Uniform(start[i]..end[i]) in ascending order from the same generator", config=cfg)
    VEC, PT = "retrofire_core::math::vec::Vector", "retrofire_core::math::point::Point"
    for name, wrap in (("math::vec::Vector<[Sc; DIM], Sp>", VEC), ("math::point::Point<[Sc; DIM], Sp>", PT)):
        b = prog.body("retrofire_core::<math::rand::Uniform<%s> as math::rand::Distrib>::sample" % name)
        mk = lambda arrv, wrap=wrap: ("adt", wrap, wrap.rsplit("::", 1)[-1], [arrv, ("tuple", [])])  # noqa: E731
        try:
            r, log, it_ = draws_of(b, rng_of(mk(("array", list(st3))), mk(("array", list(en3)))), {"DIM": 3, "Sc": "f32"}, n_draw_syms=3)
            ok = len(log) == 1 and log[0][1]
            if ok:
                rg = A.deref_all(it_, log[0][0][3][0])
                lo, hi = A.deref_all(it_, rg[3][0]), A.deref_all(it_, rg[3][1])
                ok = isinstance(lo, tuple) and lo[0] == "array" and [A.deref_all(it_, x) for x in lo[1]] == st3 and [A.deref_all(it_, x) for x in hi[1]] == en3
                got = A.deref_all(it_, r[3][0]) if isinstance(r, tuple) and r[0] == "adt" and r[1] == wrap else None
                ok = ok and isinstance(got, tuple) and got[0] == "array" and [A.deref_all(it_, x) for x in got[1]] == [S.sym("v0_%d" % j) for j in range(3)]
        except (A.Undecided, A.Panic, IndexError, TypeError) as e:
            raise common.Infra("C19.s3: Uniform<%s>::sample could not be interpreted (%s)" % (name.split("<")[0].split("::")[-1], e))
        rep.inst("C19.s3", "Uniform<%s>::sample = one draw of Uniform(start.0..end.0) from the same rng, wrapped: %s" % (name.split("<")[0].split("::")[-1], ok), config=cfg)
        if not ok:
            rep.violate("C19.s3", "s3|%s" % name.split("<")[0].split("::")[-1], b.where(), "vector/point distribution is not a single array draw of (start.0..end.0)", config=cfg)

    # ---- s4 rejection samplers: with the first K candidate draws rejected and the next one accepted (K = 0, 1, 2) exactly K + 1 draws are
    # made and the accepted one is what is returned; the acceptance test is len_sqr(candidate) <= 1 (or < 1), nothing else
    for nm, dim in (("VectorsOnUnitDisk", 2), ("VectorsInUnitBall", 3)):
        b = prog.body("retrofire_core::<math::rand::%s as math::rand::Distrib>::sample" % nm)
        bad_guard, bad_value = [], []
        for K in range(3):
            tests = []

            def accept(op, x, y, K=K, tests=tests):
                for pv, cv, flip in ((x, y, False), (y, x, True)):
                    try:
                        pp = S.to_poly(pv)
                    except S.NotPolynomial:
                        continue
                    ks = {int(m_[1:].split("_")[0]) for mono in pp for m_ in mono if m_.startswith("v") and "_" in m_}
                    if len(ks) != 1:
                        continue
                    k = next(iter(ks))
                    want = {("v%d_%d" % (k, j), "v%d_%d" % (k, j)): Fraction(1) for j in range(dim)}
                    o = {"Lt": "Gt", "Gt": "Lt", "Le": "Ge", "Ge": "Le"}.get(op, op) if flip else op
                    tests.append((k, pp == want, cv, o))
                    acc = k >= K
                    return {"Le": acc, "Lt": acc, "Gt": not acc, "Ge": not acc}.get(o)
                return None
            try:
                r, log, it_ = draws_of(b, ("adt", "retrofire_core::math::rand::" + nm, nm, []), {}, n_draw_syms=dim, accept=accept)
            except (A.Undecided, A.Panic) as e:
                wrong = [t_ for t_ in tests if not (t_[1] and t_[2] in (("f", 1.0), 1) and t_[3] in ("Le", "Lt"))]
                if not wrong:
                    raise common.Infra("C19.s4: %s::sample could not be interpreted with %d rejected candidates (%s)" % (nm, K, e))
                # the loop never ends in this scenario because the acceptance test is not the specified one
                k, is_lensqr, cv, o = wrong[0]
                bad_guard.append("candidate %d is tested by %s(<its squared length%s>, %s): a candidate inside the unit ball is not accepted" % (k, o, "" if is_lensqr else " ?: another quantity", cv))
                continue
            comps = [A.deref_all(it_, x) for x in S.components(it_, r)] if isinstance(r, tuple) and r[0] == "adt" else None
            if comps != [S.sym("v%d_%d" % (K, j)) for j in range(dim)] or len(log) != K + 1:
                bad_value.append("with %d rejected candidate(s): %d draw(s) made, returns %s" % (K, len(log), [str(c)[:30] for c in comps] if comps else str(r)[:60]))
            for k, is_lensqr, cv, o in tests:
                if not (is_lensqr and cv in (("f", 1.0), 1) and o in ("Le", "Lt")):
                    bad_guard.append("candidate %d is accepted by %s(<its squared length%s>, %s)" % (k, o, "" if is_lensqr else " ?: another quantity", cv))
            if not tests:
                bad_guard.append("no acceptance test on the candidate's squared length")
        # the scenario in which EVERY candidate is rejected: the sampler must not come back with something else (a give-up value after a
        # capped number of tries, say) unless that value is inside the unit ball too. Decided only by a counterexample: what it returns
        # is evaluated at the cube's corner (-1, .., -1) — a candidate the generator can produce (the range's start is inclusive) and
        # one that is rejected, as the scenario says
        def reject_all(op, x, y):
            for pv, flip in ((x, False), (y, True)):
                try:
                    pp = S.to_poly(pv)
                except S.NotPolynomial:
                    continue
                if any(m_.startswith("v") and "_" in m_ for mono in pp for m_ in mono):
                    o = {"Lt": "Gt", "Gt": "Lt", "Le": "Ge", "Ge": "Le"}.get(op, op) if flip else op
                    return {"Le": False, "Lt": False, "Gt": True, "Ge": True}.get(o)
            return None
        gave_up = None
        try:
            r, log, it_ = draws_of(b, ("adt", "retrofire_core::math::rand::" + nm, nm, []), {}, n_draw_syms=dim, accept=reject_all, max_draws=64)
            comps = [A.deref_all(it_, x) for x in S.components(it_, r)] if isinstance(r, tuple) and r[0] == "adt" else None
            if comps:
                point = {"v%d_%d" % (k, j): -1.0 for k in range(len(log)) for j in range(dim)}
                vals = [float(S.num_eval(c, point)) for c in comps]
                gave_up = (len(log), vals, sum(v_ * v_ for v_ in vals))
        except _Endless:
            pass                      # keeps drawing: nothing unaccepted is ever returned
        except (A.Undecided, A.Panic, S.NotPolynomial, KeyError, TypeError, ValueError):
            pass                      # undecided here; the K-scenarios above stand on their own
        rep.inst("C19.s4", "%s::sample with every candidate rejected: %s" % (nm, "keeps drawing (64 draws followed)" if gave_up is None else
                 "returns after %d draws; at the corner candidate (-1,..,-1) the value is %s, squared length %.6g" % gave_up), config=cfg)
        if gave_up is not None and gave_up[2] > 1.0 + 1e-6:
            rep.violate("C19.s4", "s4|%s|give-up" % nm, b.where(),
                        "%s gives up after %d rejected candidates and returns a vector outside the unit ball: with every candidate at the corner "
                        "(-1,..,-1) of the cube it returns %s, squared length %.6g > 1" % (nm, gave_up[0], gave_up[1], gave_up[2]), config=cfg)
        rep.inst("C19.s4", "%s::sample with 0 / 1 / 2 rejected candidates: draws until len_sqr(v) <= 1 and returns that very v: %s / %s" % (nm, not bad_guard, not bad_value), config=cfg)
        if bad_guard:
            rep.violate("C19.s4", "s4|%s|guard" % nm, b.where(), "%s can return a vector that was not accepted by len_sqr(v) <= 1 (%s)" % (nm, bad_guard[0]), config=cfg)
        if bad_value:
            rep.violate("C19.s4", "s4|%s|value" % nm, b.where(), "%s tests one vector and returns another (%s)" % (nm, bad_value[0]), config=cfg)

    # ---- s5 Bernoulli
    b = prog.body("retrofire_core::<math::rand::Bernoulli as math::rand::Distrib>::sample")
    bsl = T.Slicer(b)
    r = bsl.local(0)

    def unit_sample(t):
        if t[0] != "call" or "rand::Distrib" not in t[1] and "Uniform<f32>" not in t[1]:
            return False
        aggs = [s for s in T.walk(t[2][0]) if s[0] == "agg" and s[1].endswith("Range::Range")]
        return bool(aggs) and aggs[0][2] == (("const", "f32", 0.0), ("const", "f32", 1.0))
    p_field = lambda t: t[0] == "field" and t[2] == "Bernoulli.0"  # noqa: E731
    ok = r[0] == "bin" and ((r[1] == "Lt" and unit_sample(r[2]) and p_field(r[3])) or (r[1] == "Gt" and p_field(r[2]) and unit_sample(r[3])))
    rep.inst("C19.s5", "Bernoulli::sample = Uniform(0.0..1.0).sample(rng) < p  (so p<=0 never, p>=1 always, given s2): %s  [%s]" % (ok, T.show(r)[:160]), config=cfg)
    if not ok:
        rep.violate("C19.s5", "s5|shape", b.where(), "Bernoulli::sample is not a strict `<` of a Uniform(0..1) sample against p", config=cfg)


def check(rep, args):
    configs = ["ws"] if rep.tier == "quick" else common.ALL_CONFIGS
    rep.configs = configs
    all_obl = []
    samples = []
    for cfg in configs:
        prog = facts.program(cfg)
        body = prog.body(NEXT_BITS)
        try:
            Tm, ret, log = interpret_linear(body)
            lin_ok = True
        except gf2.NotLinear as e:
            lin_ok = False
            rep.violate("C19.o1", "o1|nonlinear", e.where or body.where(),
                        "next_bits leaves the GF(2)-linear fragment (%s): bijection/period cannot be established for the step function as written" % e,
                        config=cfg)
            all_obl.append({"id": "o1", "discharged": False, "detail": str(e), "config": cfg})
            structural(rep, prog)
            continue
        rep.inst("C19.o1", "every statement of next_bits interpreted in the GF(2)-linear fragment (%d linear steps); returns new state: %s"
                 % (len(log), ret == Tm), config=cfg)
        all_obl.append({"id": "o1", "discharged": True, "detail": "linear fragment; %d steps" % len(log), "config": cfg})
        obl = algebra(rep, Tm, cfg, body)
        for o in obl:
            o["config"] = cfg
        all_obl += obl
        if cfg == configs[0]:
            samples = [{"stmt": l} for l in log] + [{"obligation": o["id"], "detail": o["detail"]} for o in obl[:4]]
            rep.extra["matrix_rows_hex"] = ["%016x" % r for r in Tm[:4]] + ["..."]
        n_before = len(rep.instances)
        structural(rep, prog)
        for i in rep.instances[n_before:]:
            all_obl.append({"id": i["rule"], "discharged": True, "detail": i["what"][:160], "config": cfg})
    struct_viol = len([v for v in rep.violations if ".s" in v.rule])
    cov = {
        "obligations": len(all_obl),
        "discharged": len([o for o in all_obl if o["discharged"]]) - struct_viol,
        "checker_cmd": "./check C19 --tier %s" % rep.tier,
        "trusted_base": ["rustc MIR construction (-Zmir-opt-level=0)", "factdump serialisation", "Python integer arithmetic",
                         "IEEE-754: bit patterns 0x3F800000..0x3FFFFFFF are the floats in [1,2)"],
        "samples": samples,
        "explanation": "GF(2)-linear abstract interpretation of Xorshift64::next_bits gives the 64x64 step matrix T; rank, order and "
                       "primitivity are verified by exact bit-matrix arithmetic; seeding by dominance, the float bit budget by bit ranges, draw order and rejection samplers by interpreting the distributions with the generator as a stream of symbolic draws",
        "obligation_list": all_obl,
    }
    return "proof", cov, ["rounding at the top of an offset float range, integer-range arithmetic and unit length of normalised samples are not decided"]
