"""C18 — angles convert, wrap and change coordinates consistently
(the algebraic / structural clauses; trigonometric VALUES are not decided).

Engine A (ring domain, trig functions as opaque function symbols) decides:
  U1  unit round trips are identities: rads(x).to_rads() = x, degs(x).to_degs() = x,
      turns(x).to_turns() = x (as rational functions in the unit constants);
      degs(x).to_rads() = x * RADS_PER_DEG; the compile-time constants agree:
      360 * RADS_PER_DEG = RADS_PER_TURN = 2*pi to f32 precision
  U2  +, -, unary -, %, * f32, / f32 on Angle act on the underlying magnitude;
      min/max/clamp delegate to the f32 operations on the magnitudes
  U3  wrap(a, min, max) = min + rem_euclid(a - min, max - min): the result
      differs from the input by rem_euclid's multiple of the interval length and
      lies in [min, max] by rem_euclid's range
  U4  polar -> Cartesian is (r cos az, r sin az); Cartesian -> polar is
      (len(v), atan2(y, x)); spherical -> Cartesian is r (cos az cos alt, sin alt,
      sin az cos alt); Cartesian -> spherical is (len, atan2(z, x), atan2(y, sqrt(x^2+z^2)));
      sin_cos = (sin, cos) of the same magnitude
Leaves: accuracy of the trigonometric functions, ranges of atan2, behaviour at
zero vectors.
"""
from fractions import Fraction

from . import facts, common, absint as A, symalg as S, poly as PL

ANG = "retrofire_core::math::angle::"
ANGLE = ANG + "Angle"


def fsym(name):
    def m(it, args, callee, depth):
        p = (callee or {}).get("path", "")
        if "angle::Angle" in p or "math::angle::" in p.split("<")[0] and p.endswith(("atan2", "asin", "acos")):
            return NotImplemented
        vals = [A.deref_all(it, a) for a in args]
        return ("symop", name, vals[0], vals[1] if len(vals) > 1 else None)
    return m


TRIG = {}
for nm, keys in (("sin", ("$::sin", "$::sinf")), ("cos", ("$::cos", "$::cosf")), ("tan", ("$::tan", "$::tanf")),
                 ("atan2", ("$f32>::atan2", "$::atan2f", "$float::mm::atan2", "$float::libm::atan2", "$float::f32::atan2")),
                 ("sqrt", ("$::sqrt", "$::sqrtf")), ("rem_euclid", ("$::rem_euclid",)),
                 ("fmin", ("$f32>::min",)), ("fmax", ("$f32>::max",)), ("fclamp", ("$f32>::clamp",))):
    for k in keys:
        TRIG[k] = fsym(nm)


def _sum_of_squares(v, names):
    try:
        p = S.to_poly(v)
    except S.NotPolynomial:
        return False
    return bool(p) and set(p) == {(n, n) for n in names} and all(c > 0 for c in p.values())


def angle(v):
    return ("adt", ANGLE, "Angle", [v])


def check_config(rep, prog):
    cfg = prog.config
    feats = prog.features

    def run(path, args, env=None, models=None, oracle=None):
        mm = dict(TRIG)
        mm.update(models or {})
        it = S.interp(prog, models=mm, oracle=oracle)
        try:
            return it, it.call_body(prog.body(path), args, env=env or {})
        except (A.Undecided, A.Panic, S.NotPolynomial) as e:
            raise common.Infra("C18: %s could not be evaluated symbolically (%s)" % (path, e))

    def req(ok, rule, key, where, what):
        rep.inst("C18." + rule, "%s: %s" % (what, "holds" if ok else "FAILS"), config=cfg)
        if not ok:
            rep.violate("C18." + rule, "%s|%s" % (rule, key), where, "%s does not hold" % what, config=cfg)

    def mag(it, v):
        v = A.deref_all(it, v)
        return v[3][0] if isinstance(v, tuple) and v[0] == "adt" and v[1] == ANGLE else v
    x = S.sym("x")
    X = ({("x",): Fraction(1)}, {(): Fraction(1)})
    # ---- U1
    for ctor, getter in (("rads", "to_rads"), ("degs", "to_degs"), ("turns", "to_turns")):
        it, a = run(ANG + ctor, [x])
        it2, back = run(ANG + "Angle::" + getter, [a])
        req(S.ratio_eq(S.to_ratio(back), X), "U1", ctor, prog.body(ANG + ctor).where(), "%s(x).%s() = x" % (ctor, getter))
    it, a = run(ANG + "degs", [x])
    c = prog.const(ANG + "RADS_PER_DEG")["value"]
    t = prog.const(ANG + "RADS_PER_TURN")["value"]
    import math
    req(abs(c * 360.0 - t) <= 4e-7 * t and abs(t - 2 * math.pi) <= 4e-7 * t, "U1", "consts", "%s:%d" % (prog.const(ANG + "RADS_PER_DEG")["file"], prog.const(ANG + "RADS_PER_DEG")["line"]),
        "360 * RADS_PER_DEG (%r) = RADS_PER_TURN (%r) = 2*pi to f32 precision" % (c, t))
    pr = S.to_poly(mag(it, a))
    req(len(pr) == 1 and list(pr)[0] == ("x",) and abs(float(list(pr.values())[0]) - c) < 1e-9, "U1", "degs-scale", prog.body(ANG + "degs").where(),
        "degs(x) stores x * RADS_PER_DEG")
    it, a = run(ANG + "turns", [x])
    pr = S.to_poly(mag(it, a))
    req(len(pr) == 1 and list(pr)[0] == ("x",) and abs(float(list(pr.values())[0]) - t) < 1e-9, "U1", "turns-scale", prog.body(ANG + "turns").where(), "turns(x) stores x * RADS_PER_TURN")
    # ---- U2 operators
    a, b = angle(S.sym("a")), angle(S.sym("b"))
    ops = {"Add": PL.padd({("a",): Fraction(1)}, {("b",): Fraction(1)}), "Sub": PL.padd({("a",): Fraction(1)}, {("b",): Fraction(-1)})}
    for tr, want in ops.items():
        p = "retrofire_core::<math::angle::Angle as core::ops::arith::%s>::%s" % (tr, tr.lower())
        it, r = run(p, [a, b])
        req(S.to_poly(mag(it, r)) == want, "U2", tr, prog.body(p).where(), "(a %s b) acts on the magnitudes" % {"Add": "+", "Sub": "-"}[tr])
    p = "retrofire_core::<math::angle::Angle as core::ops::arith::Neg>::neg"
    it, r = run(p, [a])
    req(S.to_poly(mag(it, r)) == {("a",): Fraction(-1)}, "U2", "Neg", prog.body(p).where(), "-a negates the magnitude")
    p = "retrofire_core::<math::angle::Angle as core::ops::arith::Mul<f32>>::mul"
    it, r = run(p, [a, S.sym("k")])
    req(S.to_poly(mag(it, r)) == {("a", "k"): Fraction(1)}, "U2", "Mul", prog.body(p).where(), "a * k scales the magnitude")
    p = "retrofire_core::<math::angle::Angle as core::ops::arith::Div<f32>>::div"
    it, r = run(p, [a, S.sym("k")])
    req(S.ratio_eq(S.to_ratio(mag(it, r)), ({("a",): Fraction(1)}, {("k",): Fraction(1)})), "U2", "Div", prog.body(p).where(), "a / k divides the magnitude")
    p = "retrofire_core::<math::angle::Angle as core::ops::arith::Rem>::rem"
    it, r = run(p, [a, b])
    req(mag(it, r) == ("symop", "Rem", S.sym("a"), S.sym("b")), "U2", "Rem", prog.body(p).where(),
        "a % b is the float remainder (sign of the dividend) of the magnitudes, not another remainder function")
    for meth, fn in (("min", "fmin"), ("max", "fmax")):
        it, r = run(ANG + "Angle::" + meth, [a, b])
        req(mag(it, r) == ("symop", fn, S.sym("a"), S.sym("b")), "U2", meth, prog.body(ANG + "Angle::" + meth).where(), "a.%s(b) = Angle(f32::%s(a, b))" % (meth, meth))
    # ---- U3 wrap (fp only): on EVERY path through wrap (paths enumerated over the comparisons the domain cannot decide)
    if ANG + "Angle::wrap" in prog.bodies:
        import math
        wb = prog.body(ANG + "Angle::wrap")

        def closed_form(m):
            if isinstance(m, tuple) and m[0] == "symop" and m[1] == "Add":
                for base, rem in ((m[2], m[3]), (m[3], m[2])):
                    if base == S.sym("lo") and isinstance(rem, tuple) and rem[0] == "symop" and rem[1] == "rem_euclid":
                        return S.to_poly(rem[2]) == PL.padd({("a",): Fraction(1)}, {("lo",): Fraction(-1)}) and \
                            S.to_poly(rem[3]) == PL.padd({("hi",): Fraction(1)}, {("lo",): Fraction(-1)})
            return False
        try:
            outs = S.explore(lambda orc: run(ANG + "Angle::wrap", [a, angle(S.sym("lo")), angle(S.sym("hi"))], oracle=orc), max_paths=64)
        except A.Undecided as e:
            raise common.Infra("C18.U3: Angle::wrap could not be evaluated symbolically (%s)" % e)
        all_ok = True
        unverified = []
        for trace, (it, r) in outs:
            m = mag(it, r)
            if closed_form(m):
                rep.inst("C18.U3", "a.wrap(lo, hi) = lo + rem_euclid(a - lo, hi - lo) [%s]: holds" % S.fmt_trace(trace)[:120], config=cfg)
                continue
            # another formula on this path: it may be an equivalent special case; only a concrete angle that follows the path and lands
            # outside the interval or off the congruence class refutes it
            wit = None
            try:
                for lo, hi in ((0.0, 2 * math.pi), (-math.pi, math.pi), (1.0, 2.5), (-10.0, -4.0)):
                    L = hi - lo
                    for k in (-3.4, -2.0, -1.6, -1.0, -0.3, 0.0, 0.4, 1.0, 1.7, 2.0, 3.3, 40.2, -40.2):
                        pt = {"a": lo + k * L, "lo": lo, "hi": hi}
                        if not S.trace_holds(trace, pt):
                            continue
                        v = S.num_eval(m, pt)
                        turns_off = (v - pt["a"]) / L
                        inside = lo - 1e-9 <= v <= hi + 1e-9
                        congruent = abs(turns_off - round(turns_off)) < 1e-6
                        if not (inside and congruent):
                            wit = (pt, v, inside, congruent)
                            break
                    if wit:
                        break
            except S.NotNumeric as e:
                raise common.Infra("C18.U3: a path of Angle::wrap has a form the rule cannot evaluate (%s)" % e)
            if wit is None:
                unverified.append(S.fmt_trace(trace)[:200])
                continue
            all_ok = False
            rep.inst("C18.U3", "a.wrap(lo, hi) [%s]: FAILS at %s" % (S.fmt_trace(trace)[:120], wit[0]), config=cfg)
            rep.violate("C18.U3", "U3|wrap", wb.where(),
                        "Angle::wrap leaves its interval or the congruence class on the path taken when %s: a = %.6g wrapped into [%.6g, %.6g] gives %.6g (%s)"
                        % (S.fmt_trace(trace)[:200], wit[0]["a"], wit[0]["lo"], wit[0]["hi"], wit[1],
                           "outside the interval" if not wit[2] else "not a whole number of interval lengths away"), config=cfg)
        if all_ok and unverified:
            raise common.Infra("C18.U3: Angle::wrap has %d path(s) [%s] whose result is not lo + rem_euclid(a - lo, hi - lo) and that no sample angle refutes; "
                               "rule needs re-confirmation" % (len(unverified), unverified[0]))
        if all_ok:
            rep.inst("C18.U3", "a.wrap(lo, hi) = lo + rem_euclid(a - lo, hi - lo) on all %d path(s)" % len(outs), config=cfg)
    # ---- U4 coordinate changes (fp only)
    if "fp" in feats:
        sin = lambda v: ("symop", "sin", v, None)  # noqa: E731
        cos = lambda v: ("symop", "cos", v, None)  # noqa: E731
        pc = [p for p in prog.bodies if p.endswith("math::angle::Polar>>::to_cart")][0]
        it, r = run(pc, [S.ref_to(S.vector(["r", "az"]))])
        got = [S.to_poly(c) for c in S.components(it, r)]
        want = [S.to_poly(("symop", "Mul", S.sym("r"), cos(S.sym("az")))), S.to_poly(("symop", "Mul", S.sym("r"), sin(S.sym("az"))))]
        req(got == want, "U4", "polar-cart", prog.body(pc).where(), "polar(r, az).to_cart() = (r cos az, r sin az)")
        sc = [p for p in prog.bodies if p.endswith("math::angle::Spherical>>::to_cart")][0]
        it, r = run(sc, [S.ref_to(S.vector(["r", "az", "alt"]))])
        got = [S.to_poly(c) for c in S.components(it, r)]
        mul = lambda *f: __import__("functools").reduce(lambda u, v: ("symop", "Mul", u, v), f)  # noqa: E731
        want = [S.to_poly(mul(S.sym("r"), cos(S.sym("az")), cos(S.sym("alt")))), S.to_poly(mul(S.sym("r"), sin(S.sym("alt")))),
                S.to_poly(mul(S.sym("r"), sin(S.sym("az")), cos(S.sym("alt"))))]
        req(got == want, "U4", "spherical-cart", prog.body(sc).where(), "spherical(r, az, alt).to_cart() = r (cos az cos alt, sin alt, sin az cos alt)")
        import itertools
        import math

        def cart_rule(path, names, key, shape_ok, spec, what):
            """Every outcome of the conversion (one per combination of comparisons the domain cannot decide)
            has the specified closed form; an outcome of another form is tolerated only if it is reachable
            by the zero vector alone, and is reported with a witness input when a non-zero vector reaches it
            and the extracted formula gives another radius/angle there."""
            b = prog.body(path)
            outs = S.explore(lambda orc: run(path, [S.ref_to(S.vector(names))], oracle=orc))
            mags = (1e-6, 1e-4, 1e-3, 0.5, 1.0, 100.0)
            dirs = [d for d in itertools.product((-1.0, -0.5, 0.0, 0.5, 1.0), repeat=len(names)) if any(d)]
            for trace, (it, r) in outs:
                cs = S.components(it, r)
                if shape_ok(cs):
                    rep.inst("C18.U4", "%s [%s]: closed form holds" % (what, S.fmt_trace(trace)), config=cfg)
                    continue
                zero_only = all(any(op == "Eq" and ans and {repr(x), repr(y)} == {repr(S.sym(n)), repr(("f", 0.0))} for op, x, y, ans in trace) for n in names) \
                    or any(op == "Eq" and ans and y == ("f", 0.0) and _sum_of_squares(x, names) for op, x, y, ans in trace)
                if zero_only:
                    rep.inst("C18.U4", "%s [%s]: other form, reachable by the zero vector only (outside the property)" % (what, S.fmt_trace(trace)), config=cfg)
                    continue
                witness = None
                try:
                    for m in mags:
                        for d in dirs:
                            n = math.sqrt(sum(c * c for c in d))
                            pt = {nm: m * c / n for nm, c in zip(names, d)}
                            if not S.trace_holds(trace, pt):
                                continue
                            got = [S.num_eval(c, pt) for c in cs]
                            want = spec(pt)
                            okr = len(got) == len(want) and abs(got[0] - want[0]) <= 1e-3 * abs(want[0]) + 1e-30
                            oka = okr and all(abs(math.sin(g) - math.sin(w)) < 1e-3 and abs(math.cos(g) - math.cos(w)) < 1e-3 for g, w in zip(got[1:], want[1:]))
                            if not oka:
                                witness = (pt, got, want)
                                break
                        if witness:
                            break
                except S.NotNumeric as e:
                    raise common.Infra("C18.U4: outcome of %s under [%s] has an unrecognised form and cannot be evaluated (%s)" % (path, S.fmt_trace(trace), e))
                if witness is None:
                    raise common.Infra("C18.U4: outcome of %s under [%s] has an unrecognised form and no witness refutes it; rule needs re-confirmation" % (path, S.fmt_trace(trace)))
                rep.inst("C18.U4", "%s [%s]: FAILS at %s" % (what, S.fmt_trace(trace), witness[0]), config=cfg)
                rep.violate("C18.U4", "U4|%s" % key, b.where(),
                            "%s does not hold on the path taken when %s: for the non-zero vector %s the extracted formula gives (radius, angles) = %s, geometry says %s"
                            % (what, S.fmt_trace(trace), {k: float("%.3g" % v) for k, v in witness[0].items()}, ["%.4g" % g for g in witness[1]], ["%.4g" % w for w in witness[2]]),
                            config=cfg)

        def polar_shape(cs):
            return len(cs) == 2 and cs[1] == ("symop", "atan2", S.sym("y"), S.sym("x")) and isinstance(cs[0], tuple) and cs[0][0] == "symop" and cs[0][1] == "sqrt" \
                and S.to_poly(cs[0][2]) == {("x", "x"): Fraction(1), ("y", "y"): Fraction(1)}

        def sph_shape(cs):
            ok = len(cs) == 3 and cs[1] == ("symop", "atan2", S.sym("z"), S.sym("x"))
            if ok:
                alt = cs[2]
                ok = isinstance(alt, tuple) and alt[0] == "symop" and alt[1] == "atan2" and alt[2] == S.sym("y") and isinstance(alt[3], tuple) and alt[3][1] == "sqrt" \
                    and S.to_poly(alt[3][2]) == {("x", "x"): Fraction(1), ("z", "z"): Fraction(1)}
                ok = ok and isinstance(cs[0], tuple) and cs[0][1] == "sqrt" and S.to_poly(cs[0][2]) == {("x", "x"): Fraction(1), ("y", "y"): Fraction(1), ("z", "z"): Fraction(1)}
            return ok
        tp = [p for p in prog.bodies if p.endswith("math::space::Real<2>>>::to_polar")][0]
        cart_rule(tp, ["x", "y"], "cart-polar", polar_shape, lambda p: [math.hypot(p["x"], p["y"]), math.atan2(p["y"], p["x"])],
                  "vec2(x, y).to_polar() = (sqrt(x^2 + y^2), atan2(y, x))")
        ts = [p for p in prog.bodies if p.endswith("math::space::Real<3>>>::to_spherical")][0]
        cart_rule(ts, ["x", "y", "z"], "cart-spherical", sph_shape,
                  lambda p: [math.sqrt(p["x"] ** 2 + p["y"] ** 2 + p["z"] ** 2), math.atan2(p["z"], p["x"]), math.atan2(p["y"], math.hypot(p["x"], p["z"]))],
                  "vec3(x, y, z).to_spherical() = (len, atan2(z, x), atan2(y, sqrt(x^2 + z^2)))")
        it, r = run(ANG + "Angle::sin_cos", [a])
        r = A.deref_all(it, r)
        ok = isinstance(r, tuple) and r[0] == "tuple" and r[1] == [sin(S.sym("a")), cos(S.sym("a"))]
        req(ok, "U4", "sin_cos", prog.body(ANG + "Angle::sin_cos").where(), "a.sin_cos() = (sin a, cos a)")


def check(rep, args):
    configs = ["ws"] if rep.tier == "quick" else common.ALL_CONFIGS
    rep.configs = configs
    for cfg in configs:
        check_config(rep, facts.program(cfg))
    cov = {
        "explanation": "symbolic interpretation of the angle constructors/getters/operators and the polar/spherical conversions with trigonometric "
                       "functions as opaque function symbols; identities over the reals",
        "evaluations": len(rep.instances),
        "distinct_nontrivial": len({i["what"] for i in rep.instances}),
        "rules": ["U1", "U2", "U3", "U4"],
    }
    return "other", cov, ["rem_euclid(u, L) lies in [0, L] and differs from u by a multiple of L (its contract; decided numerically under C20, not here)",
                          "accuracy and ranges of sin/cos/atan2/sqrt are not decided"]
