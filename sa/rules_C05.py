"""C05 — fragments carry correctly interpolated depth and attributes: the FORMULA, over the reals.
(Accuracy to 0.5 % and finiteness under float rounding are numeric and NOT decided.)

The scan converter is interpreted symbolically (sa/raster_sym.py) on a trapezoid with horizontal
bases whose corner data lie on two planes: reciprocal depth z = g(x, y) and attribute a = f(x, y)
(three symbols each), with `round_up_to_half` an opaque function RND. For the first rows x cols
fragments (2 x 3 quick, 3 x 4 thorough) it decides, as identities of rational functions in the
corner coordinates, the plane coefficients and the RND values:
  I1  fragment (k, m) sits at x = RND(left-edge x of its row) + m, y = RND(y0) + k: pixel centres,
      one pixel apart, on the row the scanline reports, starting at the rounded left edge
  I2  its depth is g at that position (the plane through the vertex depths)
  I3  its attribute is f / g at that position (plane value divided by the interpolated
      reciprocal depth: perspective correction)
  I4  tri_fill hands scan() data on the same planes: the split point mid1 lies on the long edge at
      the middle vertex's y with plane data, for every order of the three vertices' y and both
      left/right arrangements (scenarios fixed through the comparison oracle)
Leaves: rounding error of the incremental evaluation (0.5 % clause), NaN/inf on degenerate input.
"""
from . import facts, common, absint as A, symalg as S, raster_sym as RS
from .raster_sym import sym, add, mul, sub, div, plane


def left_x(Y):
    """x of the left edge at height Y: lx0 + (Y - y0) (lx1 - lx0) / (y1 - y0)"""
    return add(sym("lx0"), mul(sub(Y, sym("y0")), div(sub(sym("lx1"), sym("lx0")), sub(sym("y1"), sym("y0")))))


def scan_rules(rep, prog, rows, cols):
    cfg = prog.config
    b = prog.body(RS.R + "scan")
    texts = (("I1", "fragments sit at pixel centres x = RND(left edge) + m, y = RND(y0) + k"),
             ("I2", "fragment depth is the plane through the vertex depths at the fragment's centre"),
             ("I3", "fragment attribute is the attribute plane divided by the interpolated reciprocal depth at the fragment's centre"))
    for trace, (it, frags, lines, log) in RS.explore_scan(prog, rows, cols):
        if len(frags) != rows or any(len(f) != cols for f in frags):
            raise common.Infra("C05: expected %d x %d fragments from the symbolic scan, got %s" % (rows, cols, [len(f) for f in frags]))
        ry0 = ("symop", "RND", sym("y0"), None)
        pairs, what, checks = [], [], []
        for k in range(rows):
            Yk = add(ry0, ("f", float(k)))
            x0k = log[1 + k][1]            # RND(<left edge x of row k>) as used for the fragment count
            if not RS.is_rnd(x0k):
                raise common.Infra("C05.I1: the span start of row %d is not a rounded value (%r)" % (k, x0k))
            pairs.append((x0k[2], left_x(Yk)))
            what.append(("I1", "row %d: the span starts at the rounded x of the LEFT EDGE at the row's y (lx0 + (y - y0)(lx1 - lx0)/(y1 - y0))" % k))
            checks.append(None)
            for m in range(cols):
                fr = frags[k][m]
                pos, var = fr[3][0], A.deref_all(it, fr[3][1])
                px, py, pz = S.components(it, pos)
                X = add(x0k, ("f", float(m)))
                pairs += [(px, X), (py, Yk), (pz, plane("g", X, Yk)), (mul(var, plane("g", X, Yk)), plane("f", X, Yk))]
                what += [("I1", "fragment (%d,%d): x = RND(left x) + %d" % (k, m, m)), ("I1", "fragment (%d,%d): y = RND(y0) + %d" % (k, m, k)),
                         ("I2", "fragment (%d,%d): depth = g(x, y), the plane through the vertex depths" % (k, m)),
                         ("I3", "fragment (%d,%d): attribute * g(x, y) = f(x, y) (plane value / interpolated reciprocal depth)" % (k, m))]
                checks += [("px", px, X), ("px", py, Yk), ("depth", pz, plane("g", X, Yk)), ("attr", var, div(plane("f", X, Yk), plane("g", X, Yk)))]
        try:
            res = S.field_identities(pairs)
        except A.Undecided as e:
            raise common.Infra("C05: identities could not be decided (%s)" % e)
        bad = {}
        for (rule, w), r, c in zip(what, res, checks):
            if not r["equal"]:
                bad.setdefault(rule, []).append((w, c))
        cond = "" if not trace else " [when %s]" % S.fmt_trace(trace)[:160]
        wits = {}
        if trace and bad:
            # a data-dependent branch of the scan converter on which the identities no longer hold: reported with an input that takes the
            # branch and on which a fragment is off by more than the property's tolerance; without such an input the rule cannot decide
            for rule_, lst in bad.items():
                w_ = RS.scan_witness(trace, log, rows, cols, [(w, c[0], c[1], c[2]) for w, c in lst if c is not None])
                if w_ is not None:
                    wits[rule_] = w_
            bad = {r_: l_ for r_, l_ in bad.items() if r_ in wits}
            if not bad:
                raise common.Infra("C05: on the path%s the interpolation identities do not hold (%s) but no trapezoid was found that takes it and is off by more than "
                                   "0.5 %% of the value range: undecided in configuration %s" % (cond, "position / depth / attribute of the block's fragments", cfg))
        for rule, txt in texts:
            n = sum(1 for (r_, _w) in what if r_ == rule)
            rep.inst("C05." + rule, "%s: %d identities on a %d x %d block of a symbolic trapezoid%s: %s"
                     % (txt, n, rows, cols, cond, "hold" if rule not in bad else "FAIL (%s)" % bad[rule][0][0]), config=cfg)
            if rule in bad:
                wit = wits.get(rule)
                extra = "" if wit is None else "; e.g. for %s the check '%s' gives %.6g where the plane gives %.6g (tolerance %.3g)" % (
                    wit["input"], wit["check"], wit["got"], wit["want"], wit["tolerance"])
                rep.violate("C05." + rule, "%s|scan" % rule, b.where(),
                            "%s does not hold as an identity over the reals%s: %d of %d instances fail, first: %s%s" % (txt, cond, len(bad[rule]), n, bad[rule][0][0], extra), config=cfg)
        rep.count("identities", len(pairs))
        if rows == 1:
            # I5: the formulas above are rational functions; an identity says nothing at their POLES. A trapezoid exactly one row tall whose
            # edges meet at its far end (the lower half of a triangle with its bottom vertex one row below the middle one - integer vertex
            # coordinates do it) has span width 0 one row down: whatever is divided by that width is not finite. The extracted fragment
            # values are evaluated at such a trapezoid, which has the scenario's own row and fragment counts.
            import math
            pt = {"y0": 80.0, "y1": 81.0, "lx0": 20.0, "rx0": 26.0, "lx1": 23.0, "rx1": 23.0,
                  "gx": 1e-4, "gy": -2e-4, "gc": 1.0, "fx": 0.25, "fy": -0.5, "fc": 3.0}
            try:
                fits = S.trace_holds(trace, pt) and all(S.num_eval(a_, pt) - S.num_eval(b_, pt) == n_ for a_, b_, n_ in log)
            except (S.NotNumeric, ZeroDivisionError, OverflowError):
                fits = False
            if fits:
                worst = None
                for m in range(cols):
                    fr = frags[0][m]
                    pos, var = fr[3][0], A.deref_all(it, fr[3][1])
                    for nm, v in zip(("x", "y", "reciprocal depth"), S.components(it, pos)):
                        try:
                            val = S.num_eval(A.deref_all(it, v), pt)
                        except (S.NotNumeric, ZeroDivisionError, OverflowError):
                            val = math.nan
                        if not math.isfinite(val) and worst is None:
                            worst = (m, nm, val)
                    try:
                        val = S.num_eval(var, pt)
                    except (S.NotNumeric, ZeroDivisionError, OverflowError):
                        val = math.nan
                    if not math.isfinite(val) and worst is None:
                        worst = (m, "attribute", val)
                rep.inst("C05.I5", "one-row trapezoid ending in an apex (y 80..81, left edge 20 -> 23, right edge 26 -> 23: three fragments on row 80.5)%s: every "
                                   "fragment value is finite: %s" % (cond, worst is None), config=cfg)
                if worst is not None:
                    rep.violate("C05.I5", "I5|apex-pole", b.where(),
                                "for a trapezoid exactly one row tall whose edges meet at its far end (e.g. the lower half of the triangle (150,20) (20,80) (260,81)) the %s of "
                                "fragment %d evaluates to %s: the per-pixel step is divided by the span width one row further down, which is 0 there%s"
                                % (worst[1], worst[0], worst[2], cond), config=cfg)
            else:
                rep.inst("C05.I5", "one-row trapezoid ending in an apex: does not follow this path%s" % cond, config=cfg)


def dropped_triangle_witness(order, constraints, tries=20000):
    """A concrete triangle (vertex y ranks as in `order`) that follows every recorded decision and strictly contains a pixel centre
    (by more than the 0.001 px band): used to show that a path on which tri_fill skips a trapezoid is taken by a triangle that has
    fragments to produce. Deterministic pseudo-random search; None when nothing is found."""
    import random
    import math
    rnd = random.Random(20240917)
    names = ["A", "B", "C"]
    for _ in range(tries):
        ax, ay = rnd.uniform(0, 20), rnd.uniform(0, 8)
        cx, cy = ax + rnd.uniform(-12, 12), ay + rnd.uniform(1.5, 14)
        t = rnd.uniform(0.15, 0.85)
        bx, by = ax + t * (cx - ax) + rnd.choice((-1, 1)) * rnd.uniform(0.05, 2.5), ay + t * (cy - ay)
        if _ % 3 == 1:
            # a sliver less than one pixel tall that straddles a row of pixel centres, several pixels wide
            k = float(rnd.randrange(0, 8))
            ay, cy = k + rnd.uniform(0.05, 0.4), k + rnd.uniform(0.6, 0.95)
            ax, cx = rnd.uniform(0, 6), rnd.uniform(0, 6)
            by, bx = rnd.uniform(ay + 0.01, cy - 0.01), rnd.uniform(9, 20)
        elif _ % 3 == 2:
            # a sliver less than one pixel wide that straddles a column of pixel centres, several pixels tall
            kx = float(rnd.randrange(0, 12))
            ax, cx = kx + rnd.uniform(0.05, 0.4), kx + rnd.uniform(0.1, 0.45)
            ay, cy = rnd.uniform(0, 3), rnd.uniform(9, 16)
            by, bx = rnd.uniform(ay + 1, cy - 1), kx + rnd.uniform(0.6, 0.95)
        pts = [(ax, ay), (bx, by), (cx, cy)]           # by rank: top, mid, bottom
        point = {}
        for i, n in enumerate(names):
            point["x" + n], point["y" + n] = pts[order[i]]
        point.update({"gx": 0.0, "gy": 0.0, "gc": 1.0, "fx": 0.1, "fy": 0.2, "fc": 0.3})
        try:
            if not S.trace_holds(constraints, point):
                continue
        except (S.NotNumeric, ZeroDivisionError):
            return None
        # a pixel centre strictly inside
        x_lo, x_hi = min(p[0] for p in pts), max(p[0] for p in pts)
        for py in range(int(math.floor(ay)), int(math.ceil(cy)) + 1):
            for px in range(int(math.floor(x_lo)), int(math.ceil(x_hi)) + 1):
                c = (px + 0.5, py + 0.5)
                ds = []
                for (p, q) in ((pts[0], pts[1]), (pts[1], pts[2]), (pts[2], pts[0])):
                    ex, ey = q[0] - p[0], q[1] - p[1]
                    ds.append(((c[0] - p[0]) * ey - (c[1] - p[1]) * ex) / math.hypot(ex, ey))
                if all(d > 0.01 for d in ds) or all(d < -0.01 for d in ds):
                    return (", ".join("%s=(%.3f, %.3f)" % (n, point["x" + n], point["y" + n]) for n in names), "(%.1f, %.1f)" % c)
    return None


def tri_fill_rules(rep, prog, scenarios, mode="C05"):
    """I4 (C05): for each ordering scenario, the data tri_fill hands to scan() lie on the planes.
    J3 (C04): the two trapezoids are (top..mid) then (mid..bot) in that order, their bases lie on those y, the middle vertex is the
    left corner exactly when its x is the smaller one, and the opposite corner lies on the long edge."""
    cfg = prog.config
    rule = "C05.I4" if mode == "C05" else "C04.J3"
    tb = prog.body(RS.R + "tri_fill")
    names = ["A", "B", "C"]
    n_ok = 0
    for order, left_is_mid0 in scenarios:
        # order: permutation giving the rank of each vertex's y (0 = top)
        ys = {n: sym("y" + n) for n in names}
        xs = {n: sym("x" + n) for n in names}
        rank = {ys[n]: order[i] for i, n in enumerate(names)}
        state = {"calls": [], "decisions": []}

        def orc(op, a_, b_, rank=rank, left_is_mid0=left_is_mid0):
            if a_ in rank and b_ in rank:
                ra, rb = rank[a_], rank[b_]
                ans = {"Lt": ra < rb, "Gt": ra > rb, "Le": ra <= rb, "Ge": ra >= rb, "Eq": ra == rb, "Ne": ra != rb}[op]
                state["decisions"].append((op, a_, b_, ans))
                return ans
            if op in ("Lt", "Gt", "Le", "Ge"):
                # mid0.x < mid1.x : the only other ordering comparison in tri_fill
                v = left_is_mid0 if op in ("Lt", "Le") else not left_is_mid0
                state["decisions"].append((op, a_, b_, v))
                return v
            return None

        def m_scan(it_, args, callee, depth):
            state["calls"].append([A.deref_all(it_, a_) for a_ in args])
            return ("iter", S.ListIt([]))

        def m_sort_by(it_, args, callee, depth):
            r = args[0]
            while isinstance(it_.load_ref(r), tuple) and it_.load_ref(r)[0] == "ref":
                r = it_.load_ref(r)
            arr = it_.load_ref(r)
            items = list(arr[1])
            out = []
            for x in items:                     # insertion sort driven by the code's own comparator
                pos = len(out)
                for j, y in enumerate(out):
                    cx, cy = A.Frame(None), A.Frame(None)
                    cx.locals[0], cy.locals[0] = x, y
                    o = A.deref_all(it_, it_.invoke(args[1], [("ref", cx, 0, []), ("ref", cy, 0, [])], depth))
                    if o[2] == "Less":
                        pos = j
                        break
                out.insert(pos, x)
            it_._store(r[1], r[2], list(r[3]), ("array", out))
            return ("tuple", [])
        def run(fork):
            state["calls"], state["decisions"] = [], []
            it_ = RS.interp(prog, [], extra_models={"raster::scan": m_scan, "slice::<impl [T]>::sort_by": m_sort_by})

            def both(op, a_, b_):
                r_ = orc(op, a_, b_)
                return r_ if r_ is not None else fork(op, a_, b_)
            it_.oracle = both
            verts = ("array", [("adt", RS.VTX, "Vertex", [RS.pt(xs[n], ys[n], plane("g", xs[n], ys[n])), plane("f", xs[n], ys[n])]) for n in names])
            it_.call_body(tb, [verts, A.UNKNOWN], env={"V": "f32"})
            return it_, list(state["calls"]), list(state["decisions"])
        try:
            # a comparison that is neither the y order nor the left/right choice (an early-out, say) forks the interpretation
            paths = S.explore(run, max_paths=8)
        except (A.Undecided, A.Panic, S.NotPolynomial) as e:
            raise common.Infra(rule + ": tri_fill could not be interpreted symbolically in scenario %s (%s)" % ((order, left_is_mid0), e))
        main = [(tr, r) for tr, r in paths if len(r[1]) == 2]
        halves = []
        for tr, (_it, calls_, decisions) in paths:
            if len(calls_) == 2:
                continue
            if mode == "C05":
                # fragments that are never produced carry no wrong value: the dropped trapezoid is C04.J3's finding, not this property's
                rep.inst(rule, "tri_fill, y order %s: a path with %d scan() call(s) exists (when %s); nothing is interpolated on it" % (order, len(calls_), S.fmt_trace(tr)[:120]), config=cfg)
                continue
            # a half (or the whole triangle) without a single row of pixel centres: the code may skip it. Rows run from RND(y0) to
            # RND(y1), RND = the first centre row at or below y, so RND(y0) == RND(y1) on the path means there is nothing to produce
            top_, mid_, bot_ = (ys[names[order.index(k_)]] for k_ in (0, 1, 2))
            same = lambda p_, q_: any(((op_ == "Eq" and ans_) or (op_ == "Ne" and not ans_)) and  # noqa: E731
                                      {a_, b_} == {("symop", "RND", p_, None), ("symop", "RND", q_, None)} for op_, a_, b_, ans_ in tr)
            if mode == "C04" and len(calls_) == 0 and (same(top_, bot_) or (same(top_, mid_) and same(mid_, bot_))):
                rep.inst(rule, "tri_fill, y order %s: no scan() call when %s - no row of pixel centres between top and bottom, nothing to produce"
                         % (order, S.fmt_trace(tr)[:120]), config=cfg)
                continue
            if mode == "C04" and len(calls_) == 1 and (same(mid_, bot_) or same(top_, mid_)):
                # the remaining trapezoid is judged by the same identities as in the two-call case
                halves.append((_it, [(0 if same(mid_, bot_) else 1, calls_[0])], "one scan() call when " + S.fmt_trace(tr)[:100]))
                continue
            wit = dropped_triangle_witness(order, decisions + list(tr))
            if wit is None:
                raise common.Infra(rule + ": tri_fill makes %d scan() calls when %s (vertex y order %s); no triangle covering a pixel centre was found on that path, "
                                   "the rule cannot decide it" % (len(calls_), S.fmt_trace(tr), order))
            rep.violate(rule, "%s|tri_fill-dropped" % rule.split(".")[1], tb.where(),
                        "tri_fill makes %d scan() call(s) instead of 2 when %s: the triangle %s takes that path although the pixel centre %s lies inside it — %s"
                        % (len(calls_), S.fmt_trace(tr)[:200], wit[0], wit[1], "its fragments are never produced"), config=cfg)
        if main:
            halves.insert(0, (main[0][1][0], list(enumerate(main[0][1][1])), "two scan() calls"))
        top = names[order.index(0)]
        mid = names[order.index(1)]
        bot = names[order.index(2)]
        for it, indexed_calls, label in halves:
          pairs, what = [], []
          for ci, c in indexed_calls:
              yr, lr, rr = c[0], c[1], c[2]
              want_y = (ys[top], ys[mid]) if ci == 0 else (ys[mid], ys[bot])
              pairs += [(A.deref_all(it, yr[3][0]), want_y[0]), (A.deref_all(it, yr[3][1]), want_y[1])]
              what += ["scan #%d y range starts at %s" % (ci + 1, "top" if ci == 0 else "mid"), "scan #%d y range ends at %s" % (ci + 1, "mid" if ci == 0 else "bot")]
              for side, e in (("left", lr), ("right", rr)):
                  for endn, v in (("start", A.deref_all(it, e[3][0])), ("end", A.deref_all(it, e[3][1]))):
                      pos, var = v[1][0], A.deref_all(it, v[1][1])
                      px, py, pz = S.components(it, pos)
                      wy = want_y[0] if endn == "start" else want_y[1]
                      if mode == "C05":
                          pairs += [(py, wy), (pz, plane("g", px, py)), (var, plane("f", px, py))]
                          what += ["scan #%d %s edge %s lies on the base y" % (ci + 1, side, endn), "scan #%d %s edge %s depth on the plane" % (ci + 1, side, endn),
                                   "scan #%d %s edge %s attribute on the plane" % (ci + 1, side, endn)]
                      else:
                          pairs += [(py, wy)]
                          what += ["scan #%d %s edge %s lies on the base y" % (ci + 1, side, endn)]
                          # corners: apex of the upper trapezoid is the top vertex, of the lower one the bottom vertex; at the shared base the
                          # middle vertex sits on the side the x comparison chose and the other corner is on the long edge top-bot
                          is_apex = (ci == 0 and endn == "start") or (ci == 1 and endn == "end")
                          if is_apex:
                              pairs.append((px, xs[top] if ci == 0 else xs[bot]))
                              what.append("scan #%d %s edge %s is the %s vertex" % (ci + 1, side, endn, "top" if ci == 0 else "bottom"))
                          else:
                              on_mid_side = (side == "left") == left_is_mid0
                              long_x = add(xs[top], mul(sub(ys[mid], ys[top]), div(sub(xs[bot], xs[top]), sub(ys[bot], ys[top]))))
                              pairs.append((px, xs[mid] if on_mid_side else long_x))
                              what.append("scan #%d %s edge %s is %s" % (ci + 1, side, endn, "the middle vertex" if on_mid_side else "the point of the long edge at the middle vertex's y"))
          try:
              res = S.field_identities(pairs)
          except A.Undecided as e:
              raise common.Infra(rule + ": identities could not be decided (%s)" % e)
          bad = [w for w, r in zip(what, res) if not r["equal"]]
          rep.inst(rule, "tri_fill, y order %s (top %s, mid %s, bot %s), %s, %s: %d identities on the trapezoid(s) handed to scan(): %s"
                   % (order, top, mid, bot, "mid vertex on the left" if left_is_mid0 else "mid vertex on the right", label, len(pairs), "hold" if not bad else "FAIL (%s)" % bad[0]), config=cfg)
          if bad:
              rep.violate(rule, "%s|tri_fill" % rule.split(".")[1], tb.where(),
                          "tri_fill hands scan() a trapezoid whose corners are not where the triangle's geometry puts them (vertex y order %s, %s): %s"
                          % (order, "mid left" if left_is_mid0 else "mid right", "; ".join(bad[:3])), config=cfg)
          else:
              n_ok += 1
    rep.count("tri_fill_scenarios", len(scenarios))


def check(rep, args):
    thorough = rep.tier == "thorough"
    # both tiers look at the no_std build too: tolerances such as ApproxEq's relative epsilon differ by three orders of magnitude there
    configs = ["ws", "none"]
    rep.configs = configs
    import itertools
    for cfg in configs:
        prog = facts.program(cfg)
        rep.guard(scan_rules, rep, prog, 3 if thorough else 2, 4 if thorough else 3)
        # a trapezoid ONE row tall (the sliver below / above a triangle's middle vertex): the edges may meet before the next row, so a
        # quantity extrapolated one row down (a span width, say) can have either sign there - a guard on it forks and is judged by witness
        rep.guard(scan_rules, rep, prog, 1, 3)
        perms = list(itertools.permutations((0, 1, 2)))
        scen = [(p, s) for p in perms for s in (True, False)] if thorough else [((0, 1, 2), True), ((2, 0, 1), False), ((1, 2, 0), True)]
        rep.guard(tri_fill_rules, rep, prog, scen)
    cov = {
        "explanation": "symbolic interpretation of scan()/ScanlineIter::next/Scanline::fragments on a trapezoid with planar data and of tri_fill per vertex-order "
                       "scenario; fragment position, depth and attribute compared with the plane formulas as exact rational-function identities",
        "evaluations": len(rep.instances),
        "distinct_nontrivial": len({i["what"] for i in rep.instances}),
        "rules": ["I1", "I2", "I3", "I4", "I5"],
    }
    return "other", cov, ["identities hold over the reals; the 0.5 % accuracy of the incremental float evaluation and finiteness on tiny triangles are not decided",
                          "round_up_to_half is an uninterpreted function here (its meaning is C20.F7 / C04)",
                          "vertex data are taken to be planar (they are: three vertices)"]
