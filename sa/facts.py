"""Fact base loader and CFG utilities over the factdump JSON (engine core).

Positions inside a body are (bb, idx); idx == len(stmts) denotes the terminator.
"""
from . import common


class Body:
    def __init__(self, path, d, crate):
        self.path = path
        self.crate = crate
        self.d = d
        self.kind = d["kind"]
        self.parent = d.get("parent")
        self.root = d.get("root")
        self.file = d["file"]
        self.line = d["line"]
        self.end_line = d["end_line"]
        self.argc = d["argc"]
        self.locals = d["locals"]
        self.debug = d["debug"]
        self.blocks = d["blocks"]
        self.is_pub = d.get("pub", False)
        self.impl_self = d.get("impl_self")
        self.impl_trait = d.get("impl_trait")
        self._succ = None
        self._pred = None
        self._dom = {}
        self._defs = None

    def __repr__(self):
        return "<Body %s>" % self.path

    @classmethod
    def promoted(cls, parent, idx):
        """Body-like view of promoted constant `idx` of `parent`."""
        pd = parent.d["promoted"][idx]
        d = {"kind": "Promoted", "parent": parent.path, "root": parent.root, "file": parent.file,
             "line": parent.line, "end_line": parent.end_line, "argc": 0,
             "locals": pd["locals"], "debug": [], "blocks": pd["blocks"]}
        return cls("%s::promoted[%d]" % (parent.path, idx), d, parent.crate)

    # ---- naming
    def where(self, bb=None, idx=None):
        if bb is None:
            return "%s:%d" % (self.file, self.line)
        return "%s:%d" % (self.file, self.node(bb, idx).get("line", self.line))

    def node(self, bb, idx):
        b = self.blocks[bb]
        if idx is None or idx >= len(b["stmts"]):
            return b["term"]
        return b["stmts"][idx]

    def term(self, bb):
        return self.blocks[bb]["term"]

    def local_name(self, l):
        for v in self.debug:
            p = v.get("place")
            if p and p["l"] == l and not p["p"]:
                return v["name"]
        return "_%d" % l

    def debug_local(self, name):
        """MIR locals bound to a source-level variable name (no projection)."""
        return [v["place"]["l"] for v in self.debug
                if v["name"] == name and v.get("place") and not v["place"]["p"]]

    # ---- CFG
    def term_edges(self, bb, unwind=True):
        """List of (target, label). label: ('goto',), ('switch', v), ('otherwise',),
        ('ret',) for call return, ('ok',) for assert success, ('unwind',), ('drop',)"""
        t = self.blocks[bb]["term"]
        k = t["k"]
        out = []
        if k == "Goto":
            out.append((t["t"], ("goto",)))
        elif k == "SwitchInt":
            for v, tb in t["targets"]:
                out.append((tb, ("switch", v)))
            out.append((t["otherwise"], ("otherwise",)))
        elif k == "Call":
            if t["t"] is not None:
                out.append((t["t"], ("ret",)))
            if unwind and t.get("unwind") is not None:
                out.append((t["unwind"], ("unwind",)))
        elif k == "Assert":
            out.append((t["t"], ("ok",)))
            if unwind and t.get("unwind") is not None:
                out.append((t["unwind"], ("unwind",)))
        elif k == "Drop":
            out.append((t["t"], ("drop",)))
            if unwind and t.get("unwind") is not None:
                out.append((t["unwind"], ("unwind",)))
        return out

    def succs(self, bb, unwind=True):
        return [t for t, _ in self.term_edges(bb, unwind)]

    def preds(self):
        if self._pred is None:
            p = {i: [] for i in range(len(self.blocks))}
            for i in range(len(self.blocks)):
                for s in self.succs(i):
                    p[s].append(i)
            self._pred = p
        return self._pred

    def reachable(self, start=0, removed_edges=(), removed_blocks=(), unwind=True, start_after=None):
        """Blocks reachable from `start` (inclusive) avoiding removed edges/blocks.
        removed_edges: set of (src, dst) or (src, dst, label)."""
        removed_edges = set(removed_edges)
        removed_blocks = set(removed_blocks)
        seen = set()
        if start in removed_blocks:
            return seen
        stack = [start]
        seen.add(start)
        while stack:
            b = stack.pop()
            for t, lab in self.term_edges(b, unwind):
                if (b, t) in removed_edges or (b, t, lab) in removed_edges:
                    continue
                if t in removed_blocks or t in seen:
                    continue
                seen.add(t)
                stack.append(t)
        return seen

    def reachable_sensitive(self, start, removed_edges=(), removed_blocks=(), unwind=False, consts=None, max_states=4000):
        """Like reachable(), but path-sensitive in the integer/bool locals that are assigned literals (or copies of such locals) along the
        way: a switch on a local whose value is known on this path follows only the matching target. `let culled = match m { None => false,
        .. }; if culled { continue }` is thereby not a path from the None arm to the `continue`. Locals re-assigned something else become
        unknown; the state space is the (block, known-constants) pairs, bounded."""
        removed_edges = set(removed_edges)
        removed_blocks = set(removed_blocks)
        seen_blocks = set()
        if start in removed_blocks:
            return seen_blocks
        init = frozenset((consts or {}).items())
        stack = [(start, init)]
        seen = {(start, init)}
        while stack:
            b, st = stack.pop()
            seen_blocks.add(b)
            env = dict(st)
            blk = self.blocks[b]
            for s_ in blk["stmts"]:
                if s_["k"] != "Assign":
                    continue
                lhs = s_["lhs"]
                if lhs["p"]:
                    continue
                rv = s_["rv"]
                val = None
                if rv["k"] == "Use":
                    a = rv["a"]
                    k_ = a.get("k")
                    if k_ is not None and isinstance(k_.get("v"), int) and not isinstance(k_.get("v"), bool) and k_.get("ty") in ("bool", "u8", "u16", "u32", "u64", "usize", "i8", "i16", "i32", "i64", "isize"):
                        val = int(k_["v"])
                    else:
                        pl = a.get("c") or a.get("m")
                        if pl is not None and not pl["p"] and pl["l"] in env:
                            val = env[pl["l"]]
                elif rv["k"] == "UnaryOp" and rv.get("op") == "Not":
                    pl = rv["a"].get("c") or rv["a"].get("m")
                    if pl is not None and not pl["p"] and pl["l"] in env and rv.get("ty") == "bool":
                        val = 1 - env[pl["l"]]
                if val is None:
                    env.pop(lhs["l"], None)
                else:
                    env[lhs["l"]] = val
            t = blk["term"]
            if t["k"] == "Call" and t.get("dest") is not None and not t["dest"]["p"]:
                env.pop(t["dest"]["l"], None)
            edges = self.term_edges(b, unwind)
            if t["k"] == "SwitchInt":
                pl = t["discr"].get("c") or t["discr"].get("m")
                if pl is not None and not pl["p"] and pl["l"] in env:
                    v = env[pl["l"]]
                    hit = [(tb, lab) for tb, lab in edges if lab[0] == "switch" and lab[1] == v]
                    edges = hit or [(tb, lab) for tb, lab in edges if lab[0] == "otherwise"]
            nst = frozenset(env.items())
            for tb, lab in edges:
                if (b, tb) in removed_edges or (b, tb, lab) in removed_edges or tb in removed_blocks:
                    continue
                key = (tb, nst)
                if key in seen:
                    continue
                if len(seen) > max_states:
                    # give up precision, stay sound: fall back to the insensitive closure from here
                    seen_blocks |= self.reachable(tb, removed_edges, removed_blocks, unwind)
                    continue
                seen.add(key)
                stack.append(key)
        return seen_blocks

    def facts_at(self, target, max_states=6000):
        """Comparisons known to hold (or to fail) whenever block `target` is reached, path-sensitively: {(bb, stmt index): truth} of the
        comparison statements `l = a <op> b` whose outcome is fixed on EVERY path from the entry to `target`. Booleans are tracked through
        copies, `!`, literal assignments and the lazy `&&` / `||` shapes (a flag local assigned a literal on one arm and a comparison on
        the other), so `let ok = a == b && c == d; if !ok { .. } else { HERE }` yields both comparisons as true at HERE. Returns None when
        the search is cut off."""
        CMP = ("Eq", "Ne", "Lt", "Le", "Gt", "Ge")
        init = (0, frozenset(), frozenset())
        stack = [init]
        seen = {init}
        result = None
        while stack:
            b, envf, facts = stack.pop()
            env = dict(envf)
            if b == target:
                f = dict(facts)
                result = f if result is None else {k: v for k, v in result.items() if f.get(k) == v}
                continue
            blk = self.blocks[b]
            for si, s_ in enumerate(blk["stmts"]):
                if s_["k"] != "Assign" or s_["lhs"]["p"]:
                    continue
                rv = s_["rv"]
                val = None
                if rv["k"] == "Use":
                    k_ = rv["a"].get("k")
                    if k_ is not None and k_.get("ty") == "bool" and isinstance(k_.get("v"), int):
                        val = ("const", int(k_["v"]))
                    else:
                        pl = rv["a"].get("c") or rv["a"].get("m")
                        if pl is not None and not pl["p"] and pl["l"] in env:
                            val = env[pl["l"]]
                elif rv["k"] == "BinaryOp" and rv["op"] in CMP:
                    val = ("cmp", (b, si), True)
                elif rv["k"] == "UnaryOp" and rv.get("op") == "Not":
                    pl = rv["a"].get("c") or rv["a"].get("m")
                    if pl is not None and not pl["p"] and pl["l"] in env:
                        v0 = env[pl["l"]]
                        val = ("const", 1 - v0[1]) if v0[0] == "const" else ("cmp", v0[1], not v0[2])
                if val is None:
                    env.pop(s_["lhs"]["l"], None)
                else:
                    env[s_["lhs"]["l"]] = val
            t = blk["term"]
            if t["k"] == "Call" and t.get("dest") is not None and not t["dest"]["p"]:
                env.pop(t["dest"]["l"], None)
            edges = self.term_edges(b, False)
            nxt = []
            if t["k"] == "SwitchInt" and t["dty"] == "bool":
                pl = t["discr"].get("c") or t["discr"].get("m")
                v0 = env.get(pl["l"]) if (pl is not None and not pl["p"]) else None
                for tb, lab in edges:
                    truth = not (lab[0] == "switch" and lab[1] == 0)
                    if v0 is not None and v0[0] == "const":
                        if bool(v0[1]) != truth:
                            continue
                        nxt.append((tb, facts))
                    elif v0 is not None and v0[0] == "cmp":
                        nxt.append((tb, facts | {(v0[1], truth == v0[2])}))
                    else:
                        nxt.append((tb, facts))
            else:
                nxt = [(tb, facts) for tb, _lab in edges]
            envf2 = frozenset(env.items())
            for tb, f2 in nxt:
                # contradictory facts cannot both hold: such a path is infeasible
                fd = {}
                bad = False
                for k_, v_ in f2:
                    if fd.setdefault(k_, v_) != v_:
                        bad = True
                if bad:
                    continue
                st = (tb, envf2, f2)
                if st in seen:
                    continue
                if len(seen) > max_states:
                    return None
                seen.add(st)
                stack.append(st)
        return result or {}

    def reachable_from_succs(self, bb, **kw):
        """Blocks reachable by leaving bb (bb itself only if on a cycle)."""
        res = set()
        rb = set(kw.get("removed_blocks", ()))
        re_ = set(kw.get("removed_edges", ()))
        for t, lab in self.term_edges(bb, kw.get("unwind", True)):
            if (bb, t) in re_ or (bb, t, lab) in re_ or t in rb:
                continue
            res |= self.reachable(t, **kw)
        return res

    def dominators(self, unwind=True):
        """idom map via iterative algorithm over reachable blocks."""
        key = unwind
        if key in self._dom:
            return self._dom[key]
        order = []
        seen = set()

        def dfs(b):
            stack = [(b, iter(self.succs(b, unwind)))]
            seen.add(b)
            while stack:
                n, it = stack[-1]
                adv = False
                for s in it:
                    if s not in seen:
                        seen.add(s)
                        stack.append((s, iter(self.succs(s, unwind))))
                        adv = True
                        break
                if not adv:
                    order.append(n)
                    stack.pop()
        dfs(0)
        rpo = list(reversed(order))
        idx = {b: i for i, b in enumerate(rpo)}
        preds = {b: [] for b in rpo}
        for b in rpo:
            for s in self.succs(b, unwind):
                if s in preds:
                    preds[s].append(b)
        idom = {0: 0}

        def intersect(a, b):
            while a != b:
                while idx[a] > idx[b]:
                    a = idom[a]
                while idx[b] > idx[a]:
                    b = idom[b]
            return a
        changed = True
        while changed:
            changed = False
            for b in rpo[1:]:
                ps = [p for p in preds[b] if p in idom]
                if not ps:
                    continue
                new = ps[0]
                for p in ps[1:]:
                    new = intersect(p, new)
                if idom.get(b) != new:
                    idom[b] = new
                    changed = True
        self._dom[key] = idom
        return idom

    def dominates(self, a, b, unwind=True):
        """block a dominates block b"""
        idom = self.dominators(unwind)
        if b not in idom:
            return True  # unreachable
        while True:
            if a == b:
                return True
            if b == 0:
                return False
            b = idom[b]

    def pos_dominates(self, pa, pb):
        """(bb, idx) position a dominates position b."""
        (ba, ia), (bb_, ib) = pa, pb
        if ba == bb_:
            return ia <= ib
        return self.dominates(ba, bb_)

    def edge_dominates(self, src, dst, target, label=None):
        """Every path entry -> target uses CFG edge src->dst (with label)."""
        e = (src, dst) if label is None else (src, dst, label)
        return target not in self.reachable(0, removed_edges=[e])

    def natural_loop(self, head):
        """Blocks of the natural loop(s) with header `head` (normal edges only)."""
        preds = {}
        for i in range(len(self.blocks)):
            for t in self.succs(i, unwind=False):
                preds.setdefault(t, []).append(i)
        latches = [p for p in preds.get(head, []) if self.dominates(head, p, unwind=False)]
        body = {head}
        stack = [l for l in latches]
        while stack:
            n = stack.pop()
            if n in body:
                continue
            body.add(n)
            stack.extend(preds.get(n, []))
        return body

    # ---- iteration helpers
    def stmts(self):
        for bi, b in enumerate(self.blocks):
            for si, s in enumerate(b["stmts"]):
                yield bi, si, s

    def terms(self):
        for bi, b in enumerate(self.blocks):
            yield bi, len(b["stmts"]), b["term"]

    def calls(self, pred=None):
        """Yield (bb, term) for Call terminators whose callee matches pred(callee_dict)."""
        for bi, _i, t in self.terms():
            if t["k"] == "Call" and "callee" in t:
                if pred is None or pred(t["callee"]):
                    yield bi, t

    def defs(self):
        """local -> list of (bb, idx, node, whole) where the local is written.
        whole=True when assigned without projection (or as call destination)."""
        if self._defs is None:
            d = {}
            for bi, si, s in self.stmts():
                if s["k"] in ("Assign", "SetDiscriminant"):
                    p = s["lhs"]
                    if p["p"] and p["p"][0] == "*":
                        continue  # a store THROUGH the pointer is not a definition of the pointer
                    d.setdefault(p["l"], []).append((bi, si, s, not p["p"]))
            for bi, ti, t in self.terms():
                if t["k"] == "Call":
                    p = t["dest"]
                    if p["p"] and p["p"][0] == "*":
                        continue
                    d.setdefault(p["l"], []).append((bi, ti, t, not p["p"]))
            self._defs = d
        return self._defs


def callee_name(t):
    """Canonical callee path of a Call terminator: resolved instance if known."""
    c = t.get("callee")
    if not c:
        return None
    if c.get("res"):
        return c["res"]["path"]
    return c["path"]


def callee_matches(c, *needles):
    """True if any needle is a substring of the declared or the resolved path."""
    paths = [c["path"], c.get("full", "")]
    if c.get("res"):
        paths.append(c["res"]["path"])
    return any(n in p for n in needles for p in paths)


class Program:
    """All facts of one feature configuration."""

    def __init__(self, facts, config="?"):
        self.config = config
        self.bodies = {}
        self.consts = {}
        self.adts = {}
        self.impls = []
        self.features = []
        for crate, d in facts.items():
            self.features = self.features or d.get("features", [])
            for p, b in d["bodies"].items():
                self.bodies[p] = Body(p, b, crate)
            self.consts.update(d["consts"])
            self.adts.update(d["adts"])
            for i in d["impls"]:
                i = dict(i)
                i["crate"] = crate
                self.impls.append(i)
        self._children = None

    def body(self, path):
        b = self.bodies.get(path)
        if b is None:
            raise common.AnchorMissing("anchor function missing: %s (config %s)" % (path, self.config))
        return b

    def lookup(self, path):
        """Body for a callee path, also when the call crosses the crate boundary: from another crate rustc spells
        `retrofire_core::math::vec::Vector::<R, retrofire_core::math::space::Real<2, B>>::y` and
        `<retrofire_core::math::point::Point<R, Sp> as core::ops::arith::Sub>::sub`, while the defining crate's own
        facts key the same items without the inner crate prefixes / with the crate in front of the `<`."""
        b = self.bodies.get(path)
        if b is not None or not path:
            return b
        for crate in ("retrofire_core", "retrofire_geom"):
            pre = crate + "::"
            if path.startswith(pre):
                return self.bodies.get(pre + path[len(pre):].replace(pre, ""))
            if path.startswith("<" + pre):
                return self.bodies.get(pre + "<" + path[1:].replace(pre, ""))
            if path.startswith("<") and (" as " + pre) in path:
                # blanket impl `<T as retrofire_core::math::Lerp>::lerp`
                hit = self.bodies.get(pre + path.replace(pre, ""))
                if hit is not None:
                    return hit
        return None

    # ---------------------------------------------------------------- inlining
    def inlined(self, body, depth=2, pred=None, max_blocks=80):
        """A copy of `body` in which calls to local, non-recursive functions are replaced by the callee's blocks
        (classic MIR inlining: callee locals renumbered, arguments assigned, `Return` turned into an assignment of the
        call's destination plus a goto). Rules that read CFG shape, dominance and provenance terms then see through
        helper functions extracted by a refactoring. `pred(callee_body)` can restrict what is inlined."""
        key = (body.path, depth, id(pred))
        cache = self.__dict__.setdefault("_inl_cache", {})
        if key in cache:
            return cache[key]
        import copy
        d = copy.deepcopy(body.d)
        d.setdefault("promoted", [])
        d["inlined_from"] = []
        work = [(bi, 0, (body.path,)) for bi in range(len(d["blocks"]))]      # (block, depth, call stack)
        while work:
            bi, dep, stack = work.pop(0)
            t = d["blocks"][bi]["term"]
            if t.get("k") != "Call" or not t.get("callee") or dep >= depth:
                continue
            c = t["callee"]
            cp = (c.get("res") or {}).get("path") or c["path"]
            cb = self.lookup(cp)
            if cb is None or cb.kind not in ("Fn", "AssocFn") or cb.path in stack or len(cb.blocks) > max_blocks:
                continue
            if c.get("trait") and not c.get("res"):
                continue                      # unresolved trait dispatch: not a known body
            if pred is not None and not pred(cb):
                continue
            if len(t["args"]) != cb.argc:
                continue
            loff, boff, poff = len(d["locals"]), len(d["blocks"]), len(d["promoted"])
            cd = copy.deepcopy(cb.d)

            def rl(x):
                """shift locals / blocks / promoted indices inside a callee JSON fragment"""
                if isinstance(x, list):
                    return [rl(y) for y in x]
                if not isinstance(x, dict):
                    return x
                out = {}
                for k_, v_ in x.items():
                    if k_ == "l" and isinstance(v_, int) and "p" in x:
                        out[k_] = v_ + loff
                    elif k_ == "i" and isinstance(v_, int) and len(x) == 1:
                        out[k_] = v_ + loff
                    elif k_ == "promoted" and isinstance(v_, int):
                        out[k_] = v_ + poff
                    else:
                        out[k_] = rl(v_)
                return out
            d["locals"].extend(cd["locals"])
            d["promoted"].extend(cd.get("promoted") or [])
            for dv in cd.get("debug", []):
                dv2 = rl(dv)
                dv2["name"] = dv2.get("name", "?")
                dv2["inlined"] = cb.path
                dv2.pop("arg", None)
                d["debug"].append(dv2)
            dest, cont, line = t["dest"], t["t"], t.get("line")
            for cblk in cd["blocks"]:
                nb = {"cleanup": cblk.get("cleanup", False), "stmts": rl(cblk["stmts"]), "inl": cb.path}
                ct = rl(cblk["term"])
                k = ct["k"]
                if k == "Return":
                    if cont is None:
                        ct = {"k": "Unreachable", "line": ct.get("line", line)}
                    else:
                        nb["stmts"].append({"k": "Assign", "lhs": dest, "rv": {"k": "Use", "a": {"m": {"l": loff, "p": []}}}, "line": ct.get("line", line), "inl_ret": cb.path})
                        ct = {"k": "Goto", "t": cont, "line": ct.get("line", line)}
                else:
                    for kk in ("t", "otherwise", "unwind"):
                        if isinstance(ct.get(kk), int):
                            ct[kk] = ct[kk] + boff
                    if "targets" in ct:
                        ct["targets"] = [[v_, tb + boff] for v_, tb in ct["targets"]]
                nb["term"] = ct
                d["blocks"].append(nb)
            # the call site: assign the arguments, jump into the callee
            blk = d["blocks"][bi]
            for ai, a in enumerate(t["args"]):
                blk["stmts"].append({"k": "Assign", "lhs": {"l": loff + 1 + ai, "p": []}, "rv": {"k": "Use", "a": a}, "line": line, "inl_arg": cb.path})
            blk["term"] = {"k": "Goto", "t": boff, "line": line, "inl_call": cb.path}
            d["inlined_from"].append(cb.path)
            for nbi in range(boff, len(d["blocks"])):
                work.append((nbi, dep + 1, stack + (cb.path,)))
        if d["inlined_from"]:
            self._fold_known_discriminants(d)
        nb_ = Body(body.path, d, body.crate)
        nb_.inlined_from = d["inlined_from"]
        cache[key] = nb_
        return nb_

    def _fold_known_discriminants(self, d):
        """After inlining, `match arg { Some(i) .. }` in a helper called with `Some(x)` switches on the discriminant of an
        aggregate built a few moves earlier: replace such switches by a goto to the arm taken (the other arms are dead)."""
        defs = {}
        for bi, blk in enumerate(d["blocks"]):
            for s_ in blk["stmts"]:
                if s_["k"] == "Assign" and not s_["lhs"]["p"]:
                    defs.setdefault(s_["lhs"]["l"], []).append(s_["rv"])
            t = blk["term"]
            if t.get("k") == "Call" and t.get("dest") and not t["dest"]["p"]:
                defs.setdefault(t["dest"]["l"], []).append({"k": "CallResult"})
        for i in range(1, d["argc"] + 1):
            defs.setdefault(i, []).append({"k": "Param"})

        def variant_of(local, depth=0):
            ds = defs.get(local, [])
            if len(ds) != 1 or depth > 4:
                return None
            rv = ds[0]
            if rv["k"] == "Aggregate" and rv.get("ak") == "Adt" and rv.get("variant"):
                return rv["adt"], rv["variant"]
            if rv["k"] == "Use":
                pl = rv["a"].get("m") or rv["a"].get("c")
                if pl and not pl["p"]:
                    return variant_of(pl["l"], depth + 1)
            return None
        def const_of(local, depth=0):
            ds = defs.get(local, [])
            if len(ds) != 1 or depth > 4:
                return None
            rv = ds[0]
            if rv["k"] == "Use":
                k_ = rv["a"].get("k")
                if k_ is not None and isinstance(k_.get("v"), int) and k_.get("ty") in ("bool", "usize", "u8", "u32", "i32", "isize", "u64", "i64", "u16", "i16", "i8"):
                    return int(k_["v"])
                pl = rv["a"].get("m") or rv["a"].get("c")
                if pl and not pl["p"]:
                    return const_of(pl["l"], depth + 1)
            return None
        # a helper's flag parameter bound to a literal at the inlined call site: `if flip { .. }` has one live arm
        for blk in d["blocks"]:
            t = blk["term"]
            if t.get("k") != "SwitchInt":
                continue
            pl = t["discr"].get("m") or t["discr"].get("c")
            if not pl or pl["p"]:
                continue
            cv = const_of(pl["l"])
            if cv is None:
                continue
            tgt = t["otherwise"]
            for tv, tb in t["targets"]:
                if tv == cv:
                    tgt = tb
            blk["term"] = {"k": "Goto", "t": tgt, "line": t.get("line"), "folded": "const %d" % cv}
        STD = {("core::option::Option", "None"): 0, ("core::option::Option", "Some"): 1, ("core::result::Result", "Ok"): 0, ("core::result::Result", "Err"): 1}
        for blk in d["blocks"]:
            t = blk["term"]
            if t.get("k") != "SwitchInt":
                continue
            pl = t["discr"].get("m") or t["discr"].get("c")
            if not pl or pl["p"]:
                continue
            ds = defs.get(pl["l"], [])
            if len(ds) != 1 or ds[0]["k"] != "Discriminant" or ds[0]["p"]["p"]:
                continue
            v = variant_of(ds[0]["p"]["l"])
            if v is None:
                continue
            val = STD.get(v)
            if val is None and v[0] in self.adts:
                for vv in self.adts[v[0]]["variants"]:
                    if vv["name"] == v[1]:
                        val = int(vv["discr"])
            if val is None:
                continue
            tgt = t["otherwise"]
            for tv, tb in t["targets"]:
                if tv == val:
                    tgt = tb
            blk["term"] = {"k": "Goto", "t": tgt, "line": t.get("line"), "folded": "%s::%s" % v}

    def find(self, *needles, kind=None):
        """Bodies whose path contains all needles."""
        r = [b for p, b in self.bodies.items()
             if all(n in p for n in needles) and (kind is None or b.kind == kind)]
        return sorted(r, key=lambda b: b.path)

    def one(self, *needles, kind=None):
        r = self.find(*needles, kind=kind)
        if len(r) != 1:
            raise common.AnchorMissing("expected exactly one body matching %s, found %d: %s (config %s)"
                                       % (needles, len(r), [b.path for b in r][:6], self.config))
        return r[0]

    def children(self, path):
        """Closure bodies whose parent is `path` (direct)."""
        if self._children is None:
            c = {}
            for b in self.bodies.values():
                if b.parent:
                    c.setdefault(b.parent, []).append(b)
            self._children = c
        return sorted(self._children.get(path, []), key=lambda b: b.path)

    def family(self, path):
        """Body + all nested closures."""
        res = [self.body(path)]
        i = 0
        while i < len(res):
            res.extend(self.children(res[i].path))
            i += 1
        return res

    def const(self, path):
        c = self.consts.get(path)
        if c is None:
            raise common.AnchorMissing("anchor constant missing: %s" % path)
        return c

    def adt(self, path):
        a = self.adts.get(path)
        if a is None:
            raise common.AnchorMissing("anchor type missing: %s" % path)
        return a


def program(config):
    return Program(common.facts_for(config), config)
