"""C03 — frustum clipping returns exactly the inside part, attributes intact.

Decides (static; engines T, D and finite-domain abstract interpretation):
  T1  view_frustum::PLANES (const-evaluated by rustc) is exactly the six half-spaces
      -w <= x,y,z <= w with pairwise distinct one-bit outcodes
  T2  ClipPlane::outcode / is_inside agree with the table (abstract interpretation
      with the signed distance as the only symbol); ClipVert::new stores
      outcode(&pos) of the position it stores and is the only constructor
  D1  Clip::clip: on the Visible arm the triangle itself is pushed and no clipping
      is reachable; on the Hidden arm nothing is emitted
  D2  batch independence: every path from filling the scratch polygon to the next
      iteration clears BOTH scratch vectors
  D3  paired interpolation: the new position and the new attribute are lerped
      between the same two vertices in the same order with the same t, and
      t*(d1-d0) == -d0 as a polynomial identity in the two signed distances;
      the new vertex goes through ClipVert::new; inside vertices are emitted
      as-is under is_inside
  D4  status(): exhaustive abstract evaluation over a two-plane outcode domain,
      generalised to six planes by the folds being bitwise-only
  D5  the fan keeps winding: Tri([a, e[0], e[1]]) over rest.windows(2)
Leaves: exactness of the clipped region, numeric attribute values.
"""
import itertools

from . import facts, guards as G, term as T, common, absint as A, poly as P

PLANES = "retrofire_core::render::clip::view_frustum::PLANES"
CLIPVERT = "retrofire_core::render::clip::ClipVert"
CLIPPLANE = "retrofire_core::render::clip::ClipPlane"
VEC = "retrofire_core::math::vec::Vector"
CLIP = "retrofire_core::<[geom::Tri<render::clip::ClipVert<A>>] as render::clip::Clip>::clip"
PLANE_CLIP = "retrofire_core::render::clip::ClipPlane::clip_simple_polygon"
STATUS = "retrofire_core::render::clip::view_frustum::status"


def loop_heads(body):
    return [bi for bi, _t in body.calls(lambda c: facts.callee_matches(c, "Iterator::next"))]


def table_rules(rep, prog):
    cfg = prog.config
    c = prog.const(PLANES)
    rows = c["value"]
    planes = []
    for r in rows:
        vec = tuple(r["0"]["0"])
        bit = r["1"]
        planes.append((vec, bit))
    rep.inst("C03.T1", "PLANES as evaluated by rustc: %s" % planes, config=cfg)
    want = {(0.0, 0.0, -1.0, -1.0), (0.0, 0.0, 1.0, -1.0), (-1.0, 0.0, 0.0, -1.0), (1.0, 0.0, 0.0, -1.0),
            (0.0, -1.0, 0.0, -1.0), (0.0, 1.0, 0.0, -1.0)}
    got = {p[0] for p in planes}
    if len(planes) != 6 or got != want:
        rep.violate("C03.T1", "T1|planes", "%s:%d" % (c["file"], c["line"]),
                    "frustum plane table is not the six half-spaces -w<=x,y,z<=w: missing %s, unexpected %s"
                    % (sorted(want - got), sorted(got - want)), config=cfg)
    bits = [p[1] for p in planes]
    ok_bits = all(b > 0 and b & (b - 1) == 0 for b in bits) and len(set(bits)) == len(bits)
    if not ok_bits:
        rep.violate("C03.T1", "T1|bits", "%s:%d" % (c["file"], c["line"]),
                    "plane outcode bits %s are not pairwise distinct powers of two (outcodes are summed and tested with &)" % bits,
                    config=cfg)
    return planes


def plane_fn_rules(rep, prog, planes):
    cfg = prog.config
    oc = prog.body("retrofire_core::render::clip::ClipPlane::outcode")
    ins = prog.body("retrofire_core::render::clip::ClipPlane::is_inside")
    results = []
    for (vec, bit) in planes[:2] + planes[-1:]:
        for rel in ("pos", "zero", "neg"):
            def orc(op, a, b, rel=rel):
                if a == ("sym", "dist") and b == ("f", 0.0):
                    return {"Gt": rel == "pos", "Ge": rel != "neg", "Lt": rel == "neg", "Le": rel != "pos",
                            "Eq": rel == "zero", "Ne": rel != "zero"}.get(op)
                if b == ("sym", "dist") and a == ("f", 0.0):
                    return {"Lt": rel == "pos", "Le": rel != "neg", "Gt": rel == "neg", "Ge": rel != "pos",
                            "Eq": rel == "zero", "Ne": rel != "zero"}.get(op)
                return None
            it = A.Interp(prog, oracle=orc, models={"ClipPlane::signed_dist": lambda it, args, c, d: ("sym", "dist")})
            plane = ("adt", CLIPPLANE, "ClipPlane", [A.UNKNOWN, bit])
            cell = A.Frame(None)
            cell.locals[0] = plane
            try:
                r = it.call_body(oc, [("ref", cell, 0, []), A.UNKNOWN])
            except (A.Undecided, A.Panic) as e:
                raise common.Infra("C03.T2: ClipPlane::outcode could not be evaluated abstractly (%s)" % e)
            want = bit if rel == "pos" else 0
            results.append((bit, rel, r))
            if r != want:
                rep.violate("C03.T2", "T2|outcode|%s" % rel, oc.where(),
                            "ClipPlane::outcode for a point with signed distance %s yields %r, expected %d (outside iff distance > 0)"
                            % (rel, r, want), config=cfg)
    rep.inst("C03.T2", "ClipPlane::outcode abstractly evaluated (bit, sign of distance, result): %s" % results, config=cfg)
    # is_inside(v) == (bit & v.outcode == 0)
    res2 = []
    for bit, code in itertools.product([1, 2, 32], [0, 1, 2, 3, 32, 33, 63]):
        it = A.Interp(prog)
        plane = ("adt", CLIPPLANE, "ClipPlane", [A.UNKNOWN, bit])
        adt = prog.adt(CLIPVERT)
        names = adt["variants"][0]["fields"]
        v = ("adt", CLIPVERT, "ClipVert", [code if n == "outcode" else A.UNKNOWN for n in names])
        c1, c2 = A.Frame(None), A.Frame(None)
        c1.locals[0] = plane
        c2.locals[0] = v
        try:
            r = it.call_body(ins, [("ref", c1, 0, []), ("ref", c2, 0, [])])
        except (A.Undecided, A.Panic) as e:
            raise common.Infra("C03.T2: ClipPlane::is_inside could not be evaluated abstractly (%s)" % e)
        want = int(bit & code == 0)
        res2.append((bit, code, r))
        if r != want:
            rep.violate("C03.T2", "T2|is_inside", ins.where(),
                        "ClipPlane::is_inside with plane bit %d and vertex outcode %d yields %r, expected %d" % (bit, code, r, want), config=cfg)
    rep.inst("C03.T2", "ClipPlane::is_inside abstractly evaluated on %d (bit, outcode) pairs" % len(res2), config=cfg)

    # ClipVert construction sites
    sites = []
    for b in prog.bodies.values():
        for bi, si, s in b.stmts():
            if s["k"] == "Assign" and s["rv"]["k"] == "Aggregate" and s["rv"].get("adt") == CLIPVERT:
                sites.append((b, bi, si, s))
    rep.floor("C03.T2.ctor", len(sites), 1, "ClipVert{..} construction sites")
    for b, bi, si, s in sites:
        if "as core::clone::Clone>::clone" in b.path:
            continue
        if not b.path.startswith("retrofire_core::render::clip::ClipVert::<V>::new"):
            rep.violate("C03.T2", "T2|ctor|%s" % b.path, b.where(bi, si),
                        "ClipVert is constructed outside ClipVert::new: its cached outcode may disagree with its position", config=cfg)
            continue
        sl = T.Slicer(b)
        names = s["rv"]["fields"]
        ops = [sl.operand(o) for o in s["rv"]["ops"]]
        pos_t = T.strip(ops[names.index("pos")], refs=True)
        oc_t = ops[names.index("outcode")]
        ok = oc_t[0] == "call" and "view_frustum::outcode" in oc_t[1] and T.strip(oc_t[2][0], refs=True) == pos_t
        rep.inst("C03.T2", "ClipVert::new stores outcode = outcode(&pos) of the stored pos: %s  [%s]" % (ok, T.show(oc_t)), config=cfg)
        if not ok:
            rep.violate("C03.T2", "T2|ctor-outcode", b.where(bi, si),
                        "ClipVert::new does not fill `outcode` from view_frustum::outcode of the position it stores (%s)" % T.show(oc_t), config=cfg)
    # outcode(pt) = sum of the bits of exactly those table planes whose signed distance to pt is > 0 — decided by
    # enumerating every combination of the comparisons the function makes on a symbolic point (replay forking)
    from . import symalg as S
    from fractions import Fraction
    of = prog.body("retrofire_core::render::clip::view_frustum::outcode")

    def run(orc):
        it = S.interp(prog, oracle=orc)
        return it.call_body(of, [S.ref_to(S.vector(["x", "y", "z", "w"]))])
    try:
        outs = S.explore(run, max_paths=256)
    except (A.Undecided, A.Panic) as e:
        raise common.Infra("C03.T2: view_frustum::outcode could not be evaluated symbolically (%s)" % e)
    table = {}
    for vec, bit in planes:
        poly = {(n,): Fraction(c) for n, c in zip("xyzw", vec) if c}
        table[tuple(sorted(poly.items()))] = bit
    bad_all = []
    for trace, r in outs:
        want = 0
        seen = set()
        for op, a, b, ans in trace:
            try:
                k = tuple(sorted(S.to_poly(a).items()))
            except S.NotPolynomial:
                k = None
            if op == "Gt" and b == ("f", 0.0) and k in table and k not in seen:
                seen.add(k)
                want += table[k] if ans else 0
            # any other comparison may be made, but must not change the result (checked below on every path)
        if len(seen) != len(table):
            bad_all.append(("only %d of the %d table planes are tested" % (len(seen), len(table)), trace))
        elif r != want:
            bad_all.append(("the result is %s where the bits of the planes the point is outside of sum to %d" % (r if isinstance(r, int) else S.fmt_trace([("Eq", r, ("f", 0.0), True)])[3:-6], want), trace))
    # a combination of comparison outcomes may be infeasible (left and right both outside needs w < 0 ...): only a
    # combination that some concrete point realises counts against the code
    witness = None
    if bad_all:
        grid = (-2.0, -1.0, -0.5, 0.0, 0.5, 1.0, 2.0)
        for why, trace in bad_all:
            for pt in itertools.product(grid, repeat=4):
                point = dict(zip("xyzw", pt))
                try:
                    if S.trace_holds(trace, point):
                        witness = (why, trace, point)
                        break
                except S.NotNumeric:
                    break
            if witness:
                break
        if not witness:
            raise common.Infra("C03.T2: view_frustum::outcode deviates from the plane table on %d comparison combination(s) (%s), none of which a sample point realises; "
                               "rule needs re-confirmation" % (len(bad_all), bad_all[0][0]))
    rep.inst("C03.T2", "view_frustum::outcode evaluated on a symbolic point over %d combinations of its comparisons: %s"
             % (len(outs), "FAILS" if witness else "equals the sum of the bits of the planes with signed distance > 0 in each"), config=cfg)
    rep.floor("C03.T2.outcode.%s" % cfg, len(outs), 1, "outcode comparison combinations")
    if witness:
        rep.violate("C03.T2", "T2|outcode-sum", of.where(),
                    "view_frustum::outcode is not the sum over PLANES of `signed distance > 0` bits: %s, e.g. for the clip-space point %s" % (witness[0], witness[2]), config=cfg)


def status_rules(rep, prog):
    cfg = prog.config
    st = prog.body(STATUS)
    # (i) folds are bitwise-only
    fam = prog.family(st.path)
    ops = set()
    for b in fam:
        for _bi, _si, s in b.stmts():
            if s["k"] == "Assign" and s["rv"]["k"] in ("BinaryOp", "UnaryOp") and s["rv"].get("ty") == "u8":
                ops.add(s["rv"]["op"])
    # the u8 operations status() performs: bitwise folds, and comparisons whose outcome on an outcode combination 1..63 does not depend on
    # WHICH non-zero value it is (== 0, != 0, >= 1, 1..=255 ...). Such a function of the three outcodes is decided by its values on the
    # outcode triples of any two planes; it is evaluated on two pairs (the lowest and the highest bits) so that a mask is seen too.
    bad_ops = []
    for b in fam:
        bsl_ = T.Slicer(b)
        for _bi, _si, s in b.stmts():
            if s["k"] != "Assign" or s["rv"]["k"] not in ("BinaryOp", "UnaryOp") or s["rv"].get("ty") != "u8":
                continue
            op = s["rv"]["op"]
            if op in ("BitAnd", "BitOr", "Not"):
                for side in ("a", "b"):
                    k_ = (s["rv"].get(side) or {}).get("k")
                    if k_ is not None and isinstance(k_.get("v"), int) and k_["v"] not in (0, 255):
                        bad_ops.append("%s with the constant %d (a mask)" % (op, k_["v"]))
                continue
            if op in ("Eq", "Ne", "Lt", "Le", "Gt", "Ge"):
                ka, kb = (s["rv"]["a"].get("k") or {}), (s["rv"]["b"].get("k") or {})
                c, left = (kb.get("v"), False) if isinstance(kb.get("v"), int) else ((ka.get("v"), True) if isinstance(ka.get("v"), int) else (None, False))
                if c is None:
                    bad_ops.append("%s between two computed values" % op)
                    continue
                f = {"Eq": lambda x, y: x == y, "Ne": lambda x, y: x != y, "Lt": lambda x, y: x < y, "Le": lambda x, y: x <= y,
                     "Gt": lambda x, y: x > y, "Ge": lambda x, y: x >= y}[op]
                outcomes = {(f(c, x) if left else f(x, c)) for x in range(1, 64)}
                if len(outcomes) != 1:
                    bad_ops.append("%s against %d (tells non-zero outcode sets apart)" % (op, c))
                continue
            bad_ops.append(op)
    bitwise = not bad_ops
    rep.inst("C03.D4", "status(): outcodes (u8) are combined with bitwise operators and zero tests only %s: %s" % (sorted(ops), bitwise), config=cfg)
    adt = prog.adt(CLIPVERT)
    names = adt["variants"][0]["fields"]
    from . import symalg as S_
    table = {}
    bad = 0
    for codes in list(itertools.product([0, 1, 2, 3], repeat=3)) + list(itertools.product([0, 16, 32, 48], repeat=3)):
        it = S_.interp(prog)        # iterator chains, folds and plain loops alike
        vs = ("array", [("adt", CLIPVERT, "ClipVert", [c if n == "outcode" else A.UNKNOWN for n in names]) for c in codes])
        cell = A.Frame(None)
        cell.locals[0] = vs
        try:
            r = it.call_body(st, [("ref", cell, 0, [])])
        except (A.Undecided, A.Panic) as e:
            raise common.Infra("C03.D4: status() could not be evaluated abstractly (%s)" % e)
        got = r[2] if isinstance(r, tuple) and r[0] == "adt" else repr(r)
        allo = codes[0] & codes[1] & codes[2]
        anyo = codes[0] | codes[1] | codes[2]
        want = "Hidden" if allo else ("Visible" if anyo == 0 else "Clipped")
        table[codes] = got
        if got != want:
            bad += 1
            if bad <= 3:
                rep.violate("C03.D4", "D4|status|%s" % want, st.where(),
                            "status() of vertices with outcodes %s is %s, expected %s" % (list(codes), got, want), config=cfg)
    rep.inst("C03.D4", "status() evaluated on all outcode triples over two pairs of planes (2 x 64): %d mismatches" % bad, config=cfg)
    if not bitwise:
        rep.violate("C03.D4", "D4|fold-not-bitwise", st.where(),
                    "status() treats outcodes with operations beyond bitwise folds and zero tests (%s): the two-plane evaluation does not generalise" % bad_ops[:3], config=cfg)


def must_clear_param(prog, body, n):
    """Every return of `body` is preceded by Vec::clear(param n) with no later append to it."""
    bsl = T.Slicer(body)
    cl = [bi for bi, t in body.calls(lambda c: facts.callee_matches(c, "Vec::<T, A>::clear"))
          if T.strip(bsl.operand(t["args"][0]), refs=True) == ("param", n)]
    if not cl:
        return False
    rets = G.return_blocks(body)
    if any(r in body.reachable(0, removed_blocks=set(cl), unwind=False) for r in rets):
        return False
    # nothing refills it after the clear
    for c in cl:
        after = body.reachable_from_succs(c, unwind=False)
        for bi, t in body.calls(lambda cc: facts.callee_matches(cc, "Vec::<T, A>::push", "Extend::extend", "Vec::<T, A>::append", "core::mem::swap")):
            if bi in after and any(T.strip(bsl.operand(a), refs=True) == ("param", n) for a in t["args"]):
                if not any(x in body.reachable(bi, unwind=False) for x in cl if x != c and x != bi):
                    return False
    return True


def clip_loop_rules(rep, prog):
    cfg = prog.config
    b = prog.body(CLIP)
    sl = T.Slicer(b)
    heads = loop_heads(b)
    rep.floor("C03.D1.loop", len(heads), 1, "loop over the input triangles")
    ST = "retrofire_core::render::clip::Status"
    is_status = lambda p: T.calls_in(p, "view_frustum::status")  # noqa: E731
    vis = G.variant_edges(prog, b, sl, is_status, ST, "Visible")
    hid = G.variant_edges(prog, b, sl, is_status, ST, "Hidden")
    cli = G.variant_edges(prog, b, sl, is_status, ST, "Clipped")
    rep.floor("C03.D1.arms", min(len(vis), len(hid), len(cli)), 1, "Visible/Hidden/Clipped arms")

    def calls_reachable(edges, others):
        seen = {}
        for (_s, dst, _l) in edges:
            r = b.reachable(dst, removed_blocks=set(heads), removed_edges=set(others), unwind=False)
            for bi in r:
                t = b.term(bi)
                if t["k"] == "Call" and "callee" in t:
                    seen[bi] = t
        return seen
    out_param = ("param", 3)

    def emits(t):
        """call that appends to `out`"""
        c = t["callee"]
        if not facts.callee_matches(c, "Vec::<T, A>::push", "Extend::extend", "Vec::<T, A>::append", "extend_from_slice", "Vec::<T, A>::insert"):
            return False
        return T.strip(sl.operand(t["args"][0]), refs=True) == out_param
    # Visible
    seen = calls_reachable(vis, set(hid) | set(cli))
    pushes = [(bi, t) for bi, t in seen.items() if emits(t)]
    clips = [(bi, t) for bi, t in seen.items() if facts.callee_matches(t["callee"], "clip_simple_polygon")]
    ok_push = False
    for bi, t in pushes:
        val = sl.operand(t["args"][1])
        # the loop element, cloned
        v = T.strip(val, refs=True)
        from_iter = T.contains(v, lambda s: s[0] == "downcast" and s[2] == "Some" and T.calls_in(s[1], "Iterator::next"))
        untouched = not T.contains(v, lambda s: s[0] == "call" and not any(k in s[1] for k in ("Iterator::next", "clone", "into_iter", "<impl [T]>::iter")))
        # following the Visible arm at EVERY switch on the status (there may be several: `if let Visible = st {..} if let Visible | Hidden = st {..}`),
        # every path from the status() call to the next triangle passes this push
        st_blocks = [bj for bj, _t in b.calls(lambda c: facts.callee_matches(c, "view_frustum::status"))]
        must = bool(st_blocks) and all(G.must_pass(b, b.term(bj)["t"], [bi], heads, removed_edges=set(hid) | set(cli), unwind=False) for bj in st_blocks)
        if from_iter and untouched and must and facts.callee_matches(t["callee"], "Vec::<T, A>::push"):
            ok_push = True
    rep.inst("C03.D1", "Visible arm: pushes the loop's own triangle unchanged (%s), clipping reachable: %s, emits: %d"
             % (ok_push, bool(clips), len(pushes)), config=cfg)
    if not ok_push or len(pushes) != 1:
        rep.violate("C03.D1", "D1|visible-passthrough", b.where(), "a wholly visible triangle is not emitted exactly once, unchanged", config=cfg)
    if clips:
        rep.violate("C03.D1", "D1|visible-clipped", b.where(clips[0][0], None), "clip_simple_polygon is reachable on the Visible arm", config=cfg)
    # Hidden
    seen = calls_reachable(hid, set(vis) | set(cli))
    em = [(bi, t) for bi, t in seen.items() if emits(t)]
    rep.inst("C03.D1", "Hidden arm: calls that append to `out`: %d" % len(em), config=cfg)
    if em:
        rep.violate("C03.D1", "D1|hidden-emits", b.where(em[0][0], None), "a triangle classified Hidden still appends to the output", config=cfg)
    # Clipped arm reaches the polygon clipper and the fan
    seen = calls_reachable(cli, set(vis) | set(hid))
    if not any(facts.callee_matches(t["callee"], "clip_simple_polygon") for t in seen.values()):
        rep.violate("C03.D1", "D1|clipped-not-clipped", b.where(), "the Clipped arm never reaches clip_simple_polygon", config=cfg)

    # D2 scratch buffers
    pc = [(bi, t) for bi, t in b.calls(lambda c: facts.callee_matches(c, "render::clip::clip_simple_polygon"))]
    rep.floor("C03.D2.call", len(pc), 1, "call to clip_simple_polygon")
    for bi, t in pc:
        vin = T.strip(sl.operand(t["args"][1]), sites=False, refs=True)
        vout = T.strip(sl.operand(t["args"][2]), sites=False, refs=True)
        fills = [(bj, u) for bj, u in b.calls(lambda c: facts.callee_matches(c, "Extend::extend", "Vec::<T, A>::push", "extend_from_slice"))
                 if T.strip(sl.operand(u["args"][0]), sites=False, refs=True) == vin]

        def clears(v):
            res = []
            for bj, u in b.calls(lambda c: facts.callee_matches(c, "Vec::<T, A>::clear", "Vec::<T, A>::truncate", "Vec::<T, A>::drain")):
                if T.strip(sl.operand(u["args"][0]), sites=False, refs=True) == v:
                    if facts.callee_matches(u["callee"], "truncate") and sl.operand(u["args"][1]) != ("const", "usize", 0):
                        continue
                    res.append(bj)
            # wrapper summary: a local callee that clears the vector it is handed on ALL its paths
            for bj, u in b.calls():
                cal = u.get("callee") or {}
                tb = prog.bodies.get(cal.get("path", ""))
                if tb is None or tb.kind != "Fn" and tb.kind != "AssocFn":
                    continue
                for ai, a in enumerate(u["args"]):
                    if T.strip(sl.operand(a), sites=False, refs=True) == v and must_clear_param(prog, tb, ai + 1):
                        res.append(bj)
            return res
        cin, cout = clears(vin), clears(vout)
        for name, cl in (("verts_in", cin), ("verts_out", cout)):
            ok = bool(fills) and bool(cl) and all(G.must_pass(b, fb, cl, heads) if True else True for fb, _u in fills)
            # normal control flow only
            ok = bool(fills) and bool(cl) and all(not any(h in b.reachable(fb, removed_blocks=set(cl), unwind=False) for h in heads) for fb, _u in fills)
            rep.inst("C03.D2", "scratch vector %s (%s) cleared on every path from its fill to the next iteration: %s"
                     % (name, T.show(vin if name == "verts_in" else vout), ok), config=cfg)
            if not ok:
                rep.violate("C03.D2", "D2|%s" % name, b.where(bi, None),
                            "a path from filling the scratch polygon to the next triangle skips clearing %s: results depend on earlier triangles in the batch" % name,
                            config=cfg)
        # both scratch vectors start empty
        for name, v in (("verts_in", vin), ("verts_out", vout)):
            fresh = v[0] == "call" and "Vec::<T>::new" in v[1] or (v[0] == "phi" and all(x[0] == "call" and "Vec::<T>::new" in x[1] for x in v[2]))
            if not fresh:
                rep.violate("C03.D2", "D2|%s-init" % name, b.where(bi, None), "scratch vector %s does not start as a fresh empty Vec (%s)" % (name, T.show(v)), config=cfg)

    # D5 fan
    fans = prog.children(b.path)
    ok_fan = False
    for c in fans:
        csl = T.Slicer(c)
        r = csl.local(0)
        if r[0] == "agg" and r[1].endswith("geom::Tri::Tri") and r[2] and r[2][0][0] == "agg" and r[2][0][1] == "array":
            els = [T.strip(x, refs=True) for x in r[2][0][2]]

            def cloned(x):
                return x[2][0] if x[0] == "call" and "clone" in x[1] else x
            els = [T.strip(cloned(x), refs=True) for x in els]
            want = [("upvar", "a"), ("index", ("param", 2), ("const", "usize", 0)), ("index", ("param", 2), ("const", "usize", 1))]
            ok_fan = els == want
            rep.inst("C03.D5", "fan triangle = Tri([%s])  expected [a, e[0], e[1]]: %s" % (", ".join(T.show(x) for x in els), ok_fan), config=cfg)
            if ok_fan:
                from .render_common import capture_terms
                caps = capture_terms(prog, c)
                a_t = caps.get(0)
                # `a` is element 0 of verts_out, windows(2) over the rest
                win = [t for _bi, t in b.calls(lambda cc: facts.callee_matches(cc, "<impl [T]>::windows"))]
                ok_w = len(win) == 1 and sl.operand(win[0]["args"][1]) == ("const", "usize", 2)
                ok_a = a_t is not None and T.contains(a_t, lambda s: s[0] == "cindex" and s[2] == 0 and not s[3])
                rep.inst("C03.D5", "fan apex is element 0 of the clipped polygon (%s); edges from windows(2) over the rest (%s)" % (ok_a, ok_w), config=cfg)
                if not (ok_w and ok_a):
                    ok_fan = False
    if not ok_fan:
        rep.violate("C03.D5", "D5|fan", b.where(), "clipped polygon is not re-triangulated as the fan (a, e[0], e[1]) over consecutive edges: winding or coverage changes", config=cfg)


def lerp_rules(rep, prog):
    cfg = prog.config
    b0 = prog.body(PLANE_CLIP)
    # private helpers of clip.rs (an extracted crossing test, say) are seen through; signed_dist stays a named function
    b = prog.inlined(b0, depth=2, pred=lambda cb: (not cb.is_pub) and cb.file == b0.file and not cb.path.endswith("signed_dist"))
    sl = T.Slicer(b)
    lerps = [(bi, t) for bi, t in b.calls(lambda c: facts.callee_matches(c, "math::Lerp::lerp"))]
    rep.floor("C03.D3.lerps", len(lerps), 2, "Lerp::lerp calls in ClipPlane::clip_simple_polygon")
    info = {}
    for bi, t in lerps:
        recv = T.strip(sl.operand(t["args"][0]), refs=True)
        arg = T.strip(sl.operand(t["args"][1]), refs=True)
        tt = sl.operand(t["args"][2])
        if recv[0] == "field" and arg[0] == "field" and recv[2] == arg[2]:
            info[recv[2]] = (bi, recv[1], arg[1], tt)
    ok = "ClipVert.pos" in info and "ClipVert.attrib" in info
    if ok:
        p, a = info["ClipVert.pos"], info["ClipVert.attrib"]
        same_ends = p[1] == a[1] and p[2] == a[2] and p[1] != p[2]
        same_t = p[3] == a[3]
        rep.inst("C03.D3", "position lerp(%s -> %s, t) and attribute lerp(%s -> %s, t): same endpoints in same order=%s, same t=%s"
                 % (T.show(p[1]), T.show(p[2]), T.show(a[1]), T.show(a[2]), same_ends, same_t), config=cfg)
        if not same_ends:
            rep.violate("C03.D3", "D3|endpoints", b.where(a[0], None), "attribute is interpolated between different vertices (or in the other direction) than the position", config=cfg)
        if not same_t:
            rep.violate("C03.D3", "D3|param", b.where(a[0], None), "attribute and position are interpolated with different parameters: %s vs %s" % (T.show(a[3]), T.show(p[3])), config=cfg)
        # t * (d1 - d0) == -d0
        tt = p[3]

        def peel(t):
            """(phi(Some{X} | None{} ...) as Some).0  ->  X : the payload of an Option built in one place and matched in another"""
            for _ in range(6):
                t0 = t
                while t[0] == "phi" and len(t[2]) == 1:
                    t = t[2][0]
                if t[0] == "field" and t[2] in ("Option.0", "0") and t[1][0] == "downcast" and t[1][2] == "Some":
                    inner = t[1][1]
                    alts = list(inner[2]) if inner[0] == "phi" else [inner]
                    somes = [a_ for a_ in alts if a_[0] == "agg" and a_[1].endswith("Some") and a_[2]]
                    if len(somes) == 1 and all(a_ in somes or (a_[0] == "agg" and a_[1].endswith("None")) for a_ in alts):
                        t = somes[0][2][0]
                if t is t0:
                    break
            return t
        tt = peel(tt)

        def dist_of(v):
            return lambda t: t[0] == "call" and "ClipPlane::signed_dist" in t[1] and T.strip(t[2][1], refs=True) == ("field", v, "ClipVert.pos")
        atoms = [(dist_of(p[1]), "D0"), (dist_of(p[2]), "D1")]
        if tt[0] == "bin" and tt[1] == "Div":
            n, d = P.poly(tt[2], atoms), P.poly(tt[3], atoms)
            lhs = P.pmul(n, {("D1",): 1, ("D0",): -1})
            rhs = P.pmul({("D0",): -1}, d)
            ident = lhs == rhs and bool(d)
            opaque = [m for m in list(n) + list(d) if any(x.startswith("?") for x in m)]
            rep.inst("C03.D3", "t = %s ; t*(d1-d0) == -d0 as a polynomial identity (d0,d1 = signed distances of the lerp endpoints): %s" % (T.show(tt), ident), config=cfg)
            if not ident:
                if opaque:
                    raise common.Infra("C03.D3: interpolation parameter uses constructs outside the polynomial normal form: %s" % opaque[:2])
                rep.violate("C03.D3", "D3|t-formula", b.where(p[0], None), "interpolation parameter %s is not -d0/(d1-d0) of the two endpoint distances" % T.show(tt), config=cfg)
        else:
            raise common.Infra("C03.D3: interpolation parameter is not a quotient: %s" % T.show(tt))
        # new vertex through ClipVert::new, pushed to verts_out
        pushes = [(bi, t) for bi, t in b.calls(lambda c: facts.callee_matches(c, "Vec::<T, A>::push"))]
        new_ok = False
        for bi, t in pushes:
            v = sl.operand(t["args"][1])
            if T.calls_in(v, "ClipVert::<V>::new") and T.calls_in(v, "Lerp::lerp"):
                inner = T.calls_in(v, "ClipVert::<V>::new")[0]
                new_ok = v[0] == "call" and "ClipVert::<V>::new" in v[1] and T.strip(sl.operand(t["args"][0]), refs=True) == ("param", 3)
        rep.inst("C03.D3", "interpolated vertex is built by ClipVert::new (outcode recomputed) and pushed to verts_out: %s" % new_ok, config=cfg)
        if not new_ok:
            rep.violate("C03.D3", "D3|new-vertex", b.where(), "the interpolated vertex is not ClipVert::new(vertex(pos, attrib)) pushed to the output polygon", config=cfg)
        # inside vertices emitted as-is under is_inside(v0)
        ins_edges = G.bool_edges(b, sl, lambda d: d[0] == "call" and "ClipPlane::is_inside" in d[1])
        tr = [e for _bi, t_e, _f in ins_edges for e in t_e]
        keep = []
        for bi, t in pushes:
            v = T.strip(sl.operand(t["args"][1]), refs=True)
            if not T.calls_in(v, "ClipVert::<V>::new"):
                keep.append((bi, v))
        ok_keep = len(keep) == 1 and bool(tr) and G.guarded_by(b, keep[0][0], tr)
        if ok_keep and ins_edges:
            d, _n = G.strip_not(sl.operand(b.term(ins_edges[0][0])["discr"]))
            tested = T.strip(d[2][1], refs=True)
            ok_keep = keep[0][1] == tested and tested == p[1]
        rep.inst("C03.D3", "the vertex emitted unchanged is the one tested by is_inside, and is the lerp's first endpoint: %s" % ok_keep, config=cfg)
        if not ok_keep:
            rep.violate("C03.D3", "D3|keep-inside", b.where(), "inside vertices are not emitted as-is under is_inside(v0)", config=cfg)
    else:
        rep.violate("C03.D3", "D3|missing-lerp", b.where(), "position and attribute are not both produced by Lerp::lerp between ClipVert fields (%s)" % sorted(info), config=cfg)


def lerp_law(rep, prog):
    """D6: for every implementor the clipper can interpolate, lerp(a, b, t) = a + t (b - a)
    component-wise (polynomial identity from the MIR of the blanket and tuple impls): positions
    and attributes are cut by the same affine law, so an attribute that is linear over the
    triangle stays linear after clipping."""
    from . import symalg as S
    from fractions import Fraction
    cfg = prog.config
    lerp = prog.body("retrofire_core::<T as math::Lerp>::lerp")
    COL = "retrofire_core::math::color::Color"

    def want(n):
        return [{("a%d" % i,): Fraction(1), ("b%d" % i, "t"): Fraction(1), ("a%d" % i, "t"): Fraction(-1)} for i in range(n)]
    cases = [
        ("f32", S.sym("a0"), S.sym("b0"), 1),
        ("Vec3", S.vector(["a0", "a1", "a2"]), S.vector(["b0", "b1", "b2"]), 3),
        ("ProjVec4", S.vector(["a0", "a1", "a2", "a3"]), S.vector(["b0", "b1", "b2", "b3"]), 4),
        ("Point3", S.point(["a0", "a1", "a2"]), S.point(["b0", "b1", "b2"]), 3),
        ("Color3f", ("adt", COL, "Color", [("array", [S.sym("a%d" % i) for i in range(3)]), ("tuple", [])]),
         ("adt", COL, "Color", [("array", [S.sym("b%d" % i) for i in range(3)]), ("tuple", [])]), 3),
    ]
    for name, a, b, n in cases:
        it = S.interp(prog)
        try:
            r = it.call_body(lerp, [S.ref_to(a), S.ref_to(b), S.sym("t")])
            got = [S.to_poly(c) for c in S.components(it, r)]
        except (A.Undecided, A.Panic, S.NotPolynomial) as e:
            raise common.Infra("C03.D6: Lerp::lerp for %s could not be evaluated symbolically (%s)" % (name, e))
        ok = got == want(n)
        rep.inst("C03.D6", "lerp(a, b, t) = a + t (b - a) for %s: %s" % (name, ok), config=cfg)
        if not ok:
            rep.violate("C03.D6", "D6|lerp|%s" % name, lerp.where(), "Lerp::lerp for %s is not the affine combination a + t (b - a): %s" % (name, got[:2]), config=cfg)
    tl = prog.bodies.get("retrofire_core::<(U, V) as math::Lerp>::lerp")
    if tl is not None:
        it = S.interp(prog)
        a = ("tuple", [S.sym("a0"), S.vector(["a1", "a2"])])
        b = ("tuple", [S.sym("b0"), S.vector(["b1", "b2"])])
        try:
            r = it.call_body(tl, [S.ref_to(a), S.ref_to(b), S.sym("t")])
            r = A.deref_all(it, r)
            got = [S.to_poly(A.deref_all(it, r[1][0]))] + [S.to_poly(c) for c in S.components(it, r[1][1])]
        except (A.Undecided, A.Panic, S.NotPolynomial, IndexError, TypeError) as e:
            raise common.Infra("C03.D6: tuple Lerp could not be evaluated symbolically (%s)" % e)
        ok = got == want(3)
        rep.inst("C03.D6", "lerp on (U, V) interpolates both members with the same t: %s" % ok, config=cfg)
        if not ok:
            rep.violate("C03.D6", "D6|lerp|tuple", tl.where(), "tuple Lerp does not interpolate both members by the same affine law", config=cfg)


def clip_behaviour_rules(rep, prog):
    """D1 / D2 / D3 / D5 by interpreting the three layers of the clipper (sa/clip_sem.py); these replaced the shape rules clip_loop_rules /
    lerp_rules, which fired on behaviour-preserving rewrites (DESIGN 8.13)."""
    from . import clip_sem as CS
    cfg = prog.config
    where = prog.body(CS.CLIP_FN).where()
    try:
        n, f_plane = CS.plane_layer(prog)
        f_planes = CS.planes_layer(prog)
        f_batch = CS.batch_layer(prog)
    except A.Undecided as e:
        raise common.Infra("C03: the clipper could not be interpreted (%s%s)" % (e, ("; in " + " < ".join(x for x in getattr(e, "stack", []) if not x.startswith("  "))[:200]) if getattr(e, "stack", None) else ""))
    rule_of = {"plane|keep-inside": "D3", "plane|interpolation": "D3", "plane|vertex-list": "D3", "plane|panic": "D3", "planes|hand-over": "D2", "planes|panic": "D2",
               "batch|visible-changed": "D1", "batch|hidden-emits": "D1", "batch|needless-clip": "D1", "batch|scratch-in": "D2", "batch|scratch-out": "D2",
               "batch|fan": "D5", "batch|order": "D5", "batch|panic": "D1"}
    allf = f_plane + f_planes + f_batch
    for rule, txt in (("D1", "a Visible triangle comes out unchanged without clipping, a Hidden one emits nothing"),
                      ("D2", "every plane step gets exactly the previous result / the triangle's own vertices and an empty output (batch independence)"),
                      ("D3", "per-plane clip in %d sign scenarios: inside vertices as given, one vertex per strictly crossing edge with position and attribute a + t (b - a), "
                             "t = -d_a / (d_b - d_a) (rational identities)" % n),
                      ("D5", "a clipped polygon q0..qn comes out as the fan (q0, qi, qi+1) in order")):
        rep.inst("C03." + rule, "%s: %s" % (txt, not any(rule_of.get(k) == rule for k, _m in allf)), config=cfg)
    for key, msg in allf:
        rule = rule_of.get(key, "D1")
        rep.violate("C03." + rule, "%s|%s" % (rule, key.split("|", 1)[1]), where, msg, config=cfg)


def check_config(rep, prog):
    rep.guard(lerp_law, rep, prog)
    planes = rep.guard(table_rules, rep, prog)
    if planes is not common.SKIPPED:
        rep.guard(plane_fn_rules, rep, prog, planes)
    rep.guard(status_rules, rep, prog)
    rep.guard(clip_behaviour_rules, rep, prog)


def check(rep, args):
    configs = ["ws"] if rep.tier == "quick" else common.ALL_CONFIGS
    rep.configs = configs
    for cfg in configs:
        check_config(rep, facts.program(cfg))
    cov = {
        "explanation": "constant-table rules on the rustc-evaluated PLANES; abstract interpretation of outcode/is_inside/status over finite domains; "
                       "the three layers of the clipper (per-plane Sutherland-Hodgman step, plane hand-over, batch loop with fan) interpreted over sign scenarios with "
                       "symbolic positions / attributes and compared as rational identities (sa/clip_sem.py)",
        "evaluations": len(rep.instances),
        "distinct_nontrivial": len({i["what"] for i in rep.instances}),
        "rules": ["T1", "T2", "D1", "D2", "D3", "D4", "D5", "D6"],
    }
    return "other", cov, ["exactness of the clipped region and attribute values are numeric and not decided",
                          "Vec::clear/extend/push behave as documented"]
