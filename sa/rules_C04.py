"""C04 — scan conversion: the STRUCTURAL clauses (row order, no row twice, span length = fragment
count, spans bounded by the rounded edges). Which pixel centres count as inside under float
rounding (the 0.001 px band) is numeric and NOT decided.

Symbolic interpretation of the scan converter (sa/raster_sym.py; round_up_to_half = opaque RND):
  J1  rows: scan(y0..y1) emits rows y = RND(y0), RND(y0)+1, ... and exactly RND(y1) - RND(y0) of
      them (the count is the cast of that very difference): increasing y, each row once
  J2  spans: on the row at height Y the span is [RND(xl(Y)), RND(xr(Y))) with xl, xr the x of the
      left/right edge AT THAT ROW'S y (edge interpolation formulas, rational identities), the
      reported xs range is the cast of those two rounded values and the number of fragments is
      the cast of their difference — same two values, so the range and the fragment sequence
      have the same length (for non-negative coordinates)
  J3  tri_fill: for every order of the vertices' y and both left/right arrangements the upper
      trapezoid spans top..mid and the lower one mid..bot, in that order, with the middle vertex
      on the side the x comparison selected and the opposite corner on the long edge at the same
      y: the rows of the two parts are [RND(top), RND(mid)) and [RND(mid), RND(bot)) — no gap,
      no row twice, and shared edges of adjacent triangles are cut by the same edge formula
  J4  rounding is the pixel-centre rule: round_up_to_half = floor(x + 0.5) + 0.5 (decided under
      C20.F7 for every configuration; cited, re-checked here for the analysed configuration)
Leaves: float rounding of the edge stepping (the tolerance band), vertex-order independence of
the rounded values, degenerate triangles.
"""
from . import facts, common, absint as A, symalg as S, raster_sym as RS
from .raster_sym import sym, add, mul, sub, div
from .rules_C05 import tri_fill_rules, left_x


def right_x(Y):
    return add(sym("rx0"), mul(sub(Y, sym("y0")), div(sub(sym("rx1"), sym("rx0")), sub(sym("y1"), sym("y0")))))


def scan_structure(rep, prog, rows, cols):
    # one pass per way through the data-dependent branches of the scan converter (none on the pristine code)
    for trace, (it, frags, lines, log) in RS.explore_scan(prog, rows, cols):
        scan_structure_path(rep, prog, rows, cols, trace, it, frags, lines, log)


def scan_structure_path(rep, prog, rows, cols, trace, it, frags, lines, log):
    cfg = prog.config
    cond = "" if not trace else " [when %s]" % S.fmt_trace(trace)[:160]
    b = prog.body(RS.R + "scan")
    nb = prog.body(RS.NEXT)
    ry0 = ("symop", "RND", sym("y0"), None)
    ry1 = ("symop", "RND", sym("y1"), None)
    # ---- J1
    ok_cnt = bool(log) and log[0][0] == ry1 and log[0][1] == ry0
    rep.inst("C04.J1", "number of rows = cast of RND(y1) - RND(y0): %s" % ok_cnt, config=cfg)
    if not ok_cnt:
        rep.violate("C04.J1", "J1|count", b.where(), "the number of scanlines is not RND(y1) - RND(y0) of the trapezoid's own y range (got the cast of %s - %s)"
                    % (S.fmt_trace([("Eq", log[0][0], ("f", 0.0), True)])[3:-6] if log else "?", S.fmt_trace([("Eq", log[0][1], ("f", 0.0), True)])[3:-6] if log else "?"), config=cfg)
    pairs, what = [], []
    shape_bad = []
    for k, line in enumerate(lines):
        y, xs = A.deref_all(it, line[3][0]), A.deref_all(it, line[3][1])
        if not (isinstance(y, tuple) and y[0] == "symop" and y[1] == "TOINT"):
            shape_bad.append("row %d reports y = %r, not the cast of its own float row counter" % (k, y))
            continue
        pairs.append((y[2], add(ry0, ("f", float(k)))))
        what.append(("J1", "row %d: reported y = RND(y0) + %d" % (k, k)))
        x0k, x1k = log[1 + k][1], log[1 + k][0]
        lo, hi = A.deref_all(it, xs[3][0]), A.deref_all(it, xs[3][1])
        ok_xs = lo == ("symop", "TOINT", x0k, None) and hi == ("symop", "TOINT", x1k, None)
        rep.inst("C04.J2", "row %d: xs = cast(x0)..cast(x1) and fragment count = cast(x1 - x0) with the same rounded x0, x1: %s" % (k, ok_xs), config=cfg)
        if not ok_xs:
            rep.violate("C04.J2", "J2|range", nb.where(), "row %d: the reported x range is not the cast of the very two rounded values whose difference limits the fragment sequence: "
                        "the range and the fragments can differ in length" % k, config=cfg)
        if len(frags[k]) != cols:
            rep.violate("C04.J2", "J2|count", nb.where(), "row %d yields %d fragments although the span length cast is %d" % (k, len(frags[k]), cols), config=cfg)
        if not (RS.is_rnd(x0k) and RS.is_rnd(x1k)):
            rep.violate("C04.J2", "J2|unrounded", nb.where(), "row %d: the fragment count is the cast of a difference whose operands are not both pixel-centre-rounded values" % k, config=cfg)
            continue
        Yk = add(ry0, ("f", float(k)))
        pairs += [(x0k[2], left_x(Yk)), (x1k[2], right_x(Yk))]
        what += [("J2", "row %d: span starts at RND(x of the left edge at the row's y)" % k), ("J2", "row %d: span ends at RND(x of the right edge at the row's y)" % k)]
    if shape_bad:
        raise common.Infra("C04: scanline values have an unexpected form: %s" % shape_bad[0])
    try:
        res = S.field_identities(pairs)
    except A.Undecided as e:
        raise common.Infra("C04: identities could not be decided (%s)" % e)
    bad = {}
    for (rule, w), r, pr in zip(what, res, pairs):
        if not r["equal"]:
            bad.setdefault(rule, []).append(w)
            bad.setdefault("#" + rule, []).append((w, "px", pr[0], pr[1]))
    if trace and any(not k.startswith("#") for k in bad):
        # identities that fail on a forked path are reported with an input taking that path on which the value is off by more than the
        # property's 0.001 px band; without one the rule cannot decide
        shown = {}
        for rule in [k for k in bad if not k.startswith("#")]:
            w_ = RS.scan_witness(trace, log, rows, cols, bad["#" + rule])
            if w_ is not None:
                shown[rule] = w_
        if not shown:
            raise common.Infra("C04: on the path%s the row/span identities do not hold but no trapezoid was found that takes it and is off by more than 0.001 px: undecided" % cond)
        bad = {k: [x + " (e.g. %s: %.6g instead of %.6g)" % (shown[k]["input"], shown[k]["got"], shown[k]["want"]) for x in v[:1]] + v[1:] for k, v in bad.items() if k in shown}
    bad = {k: v for k, v in bad.items() if not k.startswith("#")}
    for rule, txt in (("J1", "rows are RND(y0), RND(y0)+1, ... in increasing order"), ("J2", "spans run from the rounded left edge to the rounded right edge evaluated at the row's own y")):
        n = sum(1 for (r_, _w) in what if r_ == rule)
        rep.inst("C04." + rule, "%s: %d identities on %d rows%s: %s" % (txt, n, len(lines), cond, "hold" if rule not in bad else "FAIL (%s)" % bad[rule][0]), config=cfg)
        if rule in bad:
            rep.violate("C04." + rule, "%s|scan" % rule, b.where(), "%s does not hold as an identity over the reals%s: %s" % (txt, cond, "; ".join(bad[rule][:3])), config=cfg)
    if len(lines) != rows:
        rep.violate("C04.J1", "J1|rows", nb.where(), "%d scanlines were emitted for a row count of %d" % (len(lines), rows), config=cfg)


def rounding_rule(rep, prog):
    from .rules_C20 import pixel_rounding_rule

    class Proxy:
        """re-labels C20.F7 as C04.J4 for this property's evidence"""
        def __init__(self, rep_):
            self.r = rep_
            self.notes = rep_.notes

        def inst(self, rule, what, **kw):
            self.r.inst("C04.J4", what, **kw)

        def violate(self, rule, key, where, msg, **kw):
            self.r.violate("C04.J4", "J4|round_up_to_half", where, msg, **kw)
    pixel_rounding_rule(Proxy(rep), prog)


def check(rep, args):
    import itertools
    thorough = rep.tier == "thorough"
    configs = ["ws"] if not thorough else ["ws", "none"]
    rep.configs = configs
    for cfg in configs:
        prog = facts.program(cfg)
        rep.guard(scan_structure, rep, prog, 3 if thorough else 2, 3 if thorough else 2)
        perms = list(itertools.permutations((0, 1, 2)))
        scen = [(p, s) for p in perms for s in (True, False)] if thorough else [((0, 1, 2), True), ((2, 0, 1), False), ((1, 2, 0), True)]
        rep.guard(tri_fill_rules, rep, prog, scen, "C04")
        rep.guard(rounding_rule, rep, prog)
    cov = {
        "explanation": "symbolic interpretation of scan()/ScanlineIter::next and of tri_fill per vertex-order scenario; row numbering, span ends and counts compared "
                       "with the edge formulas as exact rational-function identities; pixel-centre rounding by class analysis",
        "evaluations": len(rep.instances),
        "distinct_nontrivial": len({i["what"] for i in rep.instances}),
        "rules": ["J1", "J2", "J3", "J4"],
    }
    return "other", cov, ["identities hold over the reals: which centres fall inside under float rounding of the incremental edge stepping is not decided",
                          "range/fragment-count agreement is for non-negative screen coordinates (usize casts saturate below zero)",
                          "vertex-order independence of the rounded values and degenerate triangles are not decided"]
