"""Engine P — panic-edge inventory and discharge.

A panic edge is
  (a) an `Assert` terminator (bounds check, arithmetic overflow, division by zero),
  (b) a call to a diverging panic entry point (core::panicking::*, *_failed),
  (c) a call to a std API in the known-panicking table COND, or to a std API
      that is in no table at all (reported as unclassified).
An edge is DISCHARGED if one of the generic schemas below proves it cannot be
taken; otherwise it is reported with the call path from the entry point.

  G-const   the asserted condition is decided by constants
  G-range   integer range analysis over provenance terms, with closure
            parameters bound to the items of the iterator chain the closure is
            handed to (std iterator facts in ITEM_PRESERVING)
  G-dom     the edge is dominated by the taken side of a comparison between
            the same two values that implies the assertion
  G-infeasible  the panic block is reachable only through a branch whose
            condition contradicts a std fact (e.g. tokens of
            split_ascii_whitespace are non-empty)
  G-contract    the panic lies inside a named callee whose documented
            precondition is established on every path to the call site
Allocation failure, stack overflow and panics inside caller-supplied trait
implementations (generic dispatch) are out of scope and listed as assumptions.
"""
from . import bits, callgraph as CG, facts, guards as G, term as T

# ---- std classification tables -------------------------------------------

DIVERGING = ("core::panicking::", "core::option::unwrap_failed", "core::option::expect_failed",
             "core::result::unwrap_failed", "core::slice::index::slice_", "core::str::slice_error_fail",
             "alloc::raw_vec::capacity_overflow", "std::rt::begin_panic", "core::cell::panic_already")

# std APIs that panic under a condition: name -> description of the condition
COND = [
    ("core::option::Option::<T>::unwrap", "value is None"),
    ("core::option::Option::<T>::expect", "value is None"),
    ("core::result::Result::<T, E>::unwrap", "value is Err"),
    ("core::result::Result::<T, E>::expect", "value is Err"),
    ("core::result::Result::<T, E>::unwrap_err", "value is Ok"),
    ("core::slice::index::<impl core::ops::index::Index<I> for [T]>::index", "index/range out of bounds"),
    ("core::slice::index::<impl core::ops::index::IndexMut<I> for [T]>::index_mut", "index/range out of bounds"),
    ("<alloc::vec::Vec<T, A> as core::ops::index::Index<I>>::index", "index/range out of bounds"),
    ("<alloc::vec::Vec<T, A> as core::ops::index::IndexMut<I>>::index_mut", "index/range out of bounds"),
    ("core::str::traits::<impl core::ops::index::Index<I> for str>::index", "range not on char boundary / out of bounds"),
    ("core::array::<impl core::ops::index::Index<I> for [T; N]>::index", "index out of bounds"),
    ("core::slice::<impl [T]>::chunks", "chunk size is 0"),
    ("core::slice::<impl [T]>::chunks_mut", "chunk size is 0"),
    ("core::slice::<impl [T]>::chunks_exact", "chunk size is 0"),
    ("core::slice::<impl [T]>::windows", "window size is 0"),
    ("core::slice::<impl [T]>::copy_from_slice", "lengths differ"),
    ("core::slice::<impl [T]>::clone_from_slice", "lengths differ"),
    ("core::slice::<impl [T]>::swap", "index out of bounds"),
    ("core::slice::<impl [T]>::split_at", "mid > len"),
    ("core::slice::<impl [T]>::split_at_mut", "mid > len"),
    ("core::f32::<impl f32>::clamp", "min > max or NaN bound"),
    ("core::cmp::Ord::clamp", "min > max"),
    ("::rem_euclid", "divisor is 0 (or MIN/-1)"),
    ("::div_euclid", "divisor is 0 (or MIN/-1)"),
    ("::ilog2", "argument is 0"),
    ("::ilog10", "argument is 0"),
    ("::ilog", "argument is 0"),
    ("core::num::<impl i32>::abs", "argument is MIN"),
    ("core::num::<impl i64>::abs", "argument is MIN"),
    ("::pow", "overflow"),
    ("::next_power_of_two", "overflow"),
    ("core::cell::RefCell::<T>::borrow_mut", "already borrowed"),
    ("core::cell::RefCell::<T>::borrow", "already mutably borrowed"),
    ("alloc::vec::Vec::<T, A>::remove", "index out of bounds"),
    ("alloc::vec::Vec::<T, A>::insert", "index out of bounds"),
    ("alloc::vec::Vec::<T, A>::swap_remove", "index out of bounds"),
    ("alloc::vec::Vec::<T, A>::drain", "range out of bounds"),
    ("alloc::vec::Vec::<T, A>::split_off", "at > len"),
    ("core::iter::traits::iterator::Iterator::step_by", "step is 0"),
    ("core::char::methods::<impl char>::from_digit", "radix > 36"),
    ("core::char::methods::<impl char>::to_digit", "radix > 36"),
    ("core::time::Duration", "overflow"),
    ("core::array::<impl core::convert::TryFrom", "n/a"),
]

# std namespaces whose members never panic (apart from what COND lists)
SAFE_PREFIX = (
    "core::iter::", "<core::iter::", "core::option::Option::<T>::", "<core::option::Option<T>", "core::option::Option::<core::result::Result<T, E>>::transpose",
    "core::result::Result::<core::option::Option<T>, E>::transpose",
    "core::result::Result::<T, E>::", "<core::result::Result<T, ", "core::convert::", "<T as core::convert::",
    "core::clone::", "core::cmp::", "core::fmt::", "core::mem::", "core::marker::", "core::default::",
    "core::str::<impl str>::", "<core::str::", "core::str::iter::", "core::char::", "core::num::",
    "core::f32::", "core::f64::", "std::f32::", "std::f64::", "core::bool::", "core::array::",
    "<core::array::", "core::slice::<impl [T]>::", "<core::slice::", "core::slice::iter::", "core::ops::", "<core::ops::",
    "alloc::vec::Vec::<T", "<alloc::vec::Vec<T", "alloc::vec::", "alloc::string::String::", "<alloc::string::String",
    "alloc::string::", "alloc::boxed::", "core::borrow::", "alloc::borrow::", "core::hash::", "core::any::",
    "<&f32 as ", "<&i32 as ", "<f32 as ", "<i32 as ", "<u32 as ", "<usize as ", "<u8 as ", "core::intrinsics::",
    "std::io::", "<std::io::", "std::time::", "core::time::Duration::from", "core::time::Duration::as_", "core::time::Duration::is_",
    "core::cell::RefCell::<T>::new", "<core::cell::", "core::ptr::", "core::hint::", "std::fs::", "std::path::", "<std::path",
    "micromath::", "libm::", "<core::num::", "<core::char::", "<bool as", "<char as",
)

# iterator adaptors whose items are (a subset of) the receiver's items
ITEM_PRESERVING = ("::cycle", "::rev", "::take", "::skip", "::take_while", "::skip_while", "::filter", "::peekable",
                   "::by_ref", "::into_iter", "::fuse", "::step_by", "::copied", "::cloned", "<impl [T]>::iter", "::chain_first")


class Edge:
    def __init__(self, body, bb, kind, what, node):
        self.body = body
        self.bb = bb
        self.kind = kind      # assert | diverge | std-cond | std-unknown
        self.what = what
        self.node = node
        self.discharged = None   # (schema, explanation)

    @property
    def where(self):
        return self.body.where(self.bb, None)

    def key(self):
        return "%s|%s|%s" % (self.body.path, self.kind, self.what)


def classify_call(prog, c):
    """-> ('local'|'generic'|'diverge'|'cond'|'safe'|'unknown', detail)"""
    name = c["res"]["path"] if c.get("res") else c["path"]
    if name in prog.bodies or c["path"] in prog.bodies:
        return "local", name
    if any(name.startswith(d) or d in name for d in DIVERGING):
        return "diverge", name
    if c.get("trait") and not c.get("res"):
        return "generic", "%s on %s" % (c["path"], (c.get("args") or ["?"])[0])
    for pat, cond in COND:
        if name == pat or name.endswith(pat) or (pat.endswith("::Duration") and pat in name and "::from" not in name and "::as_" not in name):
            return "cond", cond
        if pat.startswith("core::array::<impl core::convert::TryFrom") and name.startswith(pat):
            return "safe", name
    if name.startswith("retrofire_"):
        return "generic", name
    probe = name
    if probe.startswith("<") and " as " in probe:
        probe = probe.split(" as ", 1)[1]
    if any(name.startswith(p) or probe.startswith(p.lstrip("<")) for p in SAFE_PREFIX):
        return "safe", name
    return "unknown", name


def inventory(prog, roots, stop=()):
    """All panic edges in the call graph below `roots`."""
    seen = CG.reachable(prog, roots, stop=stop)
    edges = []
    generic = {}
    std_safe = {}
    for p in sorted(seen):
        b = prog.bodies[p]
        for bi, _ti, t in b.terms():
            if t["k"] == "Assert":
                edges.append(Edge(b, bi, "assert", t["ak"], t))
            elif t["k"] == "Call":
                c = t.get("callee")
                if not c:
                    continue
                cls, detail = classify_call(prog, c)
                if cls == "diverge":
                    edges.append(Edge(b, bi, "diverge", detail.split("::")[-1], t))
                elif cls == "cond":
                    name = c["res"]["path"] if c.get("res") else c["path"]
                    edges.append(Edge(b, bi, "std-cond", "%s (%s)" % (name, detail), t))
                elif cls == "unknown":
                    edges.append(Edge(b, bi, "std-unknown", detail, t))
                elif cls == "generic":
                    generic[detail] = generic.get(detail, 0) + 1
                elif cls == "safe":
                    std_safe[detail] = std_safe.get(detail, 0) + 1
    return seen, edges, generic, std_safe


# ---- closure parameter binding -------------------------------------------

class Items:
    """Abstract items of iterator-valued terms and closure parameters."""

    def __init__(self, prog):
        self.prog = prog
        self._slicers = {}
        self._param_cache = {}

    def slicer(self, body):
        if body.path not in self._slicers:
            self._slicers[body.path] = T.Slicer(body)
        return self._slicers[body.path]

    def closure_site(self, closure):
        """(parent body, call terminator, arg index) where the closure value is passed to a call."""
        parent = self.prog.bodies.get(closure.parent)
        if parent is None:
            return None
        sl = self.slicer(parent)
        for bi, t in parent.calls():
            for ai, a in enumerate(t["args"]):
                at = sl.operand(a)
                if at[0] == "agg" and at[1] == "closure:" + closure.path:
                    return parent, bi, t, ai
        return None

    def item_of(self, t, body, depth=0):
        """Abstract item of an iterator term: ('int', lo, hi) | ('tuple', [..]) | ('bytes',) | None"""
        if depth > 25:
            return None
        while t[0] in ("ref", "deref"):
            t = t[1]
        if t[0] == "phi":
            its = [self.item_of(x, body, depth + 1) for x in t[2]]
            if its and all(i == its[0] for i in its):
                return its[0]
            return None
        if t[0] == "agg" and t[1].endswith("Range::Range"):
            lo = bits.eval_range(t[2][0])
            hi = bits.eval_range(t[2][1], env=lambda x: self.env_range(x, body))
            if lo is not None and hi is not None:
                return ("int", lo[0], max(hi[1] - 1, lo[0]))
            if lo is not None:
                return ("int", lo[0], None)
            return None
        if t[0] != "call":
            return None
        name = t[1].split(" => ")[0]
        args = t[2]
        if any(name.endswith(s) or (s + " ") in name for s in ITEM_PRESERVING):
            return self.item_of(args[0], body, depth + 1)
        if name.endswith("::zip"):
            return ("tuple", [self.item_of(args[0], body, depth + 1), self.item_of(args[1], body, depth + 1)])
        if name.endswith("::enumerate"):
            return ("tuple", [("int", 0, None), self.item_of(args[0], body, depth + 1)])
        if name.endswith("::map") or name.endswith("::flat_map") or name.endswith("::filter_map") or name.endswith("::map_while"):
            clos = args[1]
            if clos[0] == "agg" and clos[1].startswith("closure:"):
                cb = self.prog.bodies.get(clos[1][8:])
                if cb is None:
                    return None
                rt = self.slicer(cb).local(0)
                if name.endswith("::map"):
                    r = bits.eval_range(rt, env=lambda x: self.env_range(x, cb))
                    return ("int", r[0], r[1]) if r else None
                # flat_map & co: items of what the closure returns
                return self.item_of(rt, cb, depth + 1)
            return None
        return None

    def param_item(self, closure, n):
        """Abstract value of closure parameter _n (n >= 2)."""
        key = (closure.path, n)
        if key in self._param_cache:
            return self._param_cache[key]
        self._param_cache[key] = None
        site = self.closure_site(closure)
        res = None
        if site:
            parent, _bi, t, ai = site
            name = t["callee"]["path"] if t.get("callee") else ""
            sl = self.slicer(parent)
            if ai >= 1 and n == 2 and any(name.endswith(s) for s in (
                    "::map", "::flat_map", "::for_each", "::filter", "::take_while", "::skip_while", "::filter_map",
                    "::map_while", "::all", "::any", "::inspect", "::try_for_each", "::position", "::find")):
                res = self.item_of(sl.operand(t["args"][0]), parent)
            elif name.endswith("array::<impl [T; N]>::map") and n == 2:
                res = None
            elif name.endswith("core::array::from_fn") and n == 2:
                res = ("int", 0, None)
        self._param_cache[key] = res
        return res

    def env_range(self, t, body):
        """Range facts for terms inside `body` (closure params, tuple projections, len facts)."""
        # projections of the closure parameter: field(field(param 2, '0'), '1') ...
        path = []
        cur = t
        while cur[0] == "field" and cur[2].isdigit():
            path.append(int(cur[2]))
            cur = cur[1]
        if cur[0] == "param" and body.kind == "Closure" and cur[1] >= 2:
            it = self.param_item(body, cur[1])
            for f in reversed(path):
                if it and it[0] == "tuple" and f < len(it[1]):
                    it = it[1][f]
                else:
                    it = None
            if it and it[0] == "int":
                return (it[1], it[2] if it[2] is not None else (1 << 64) - 1)
            return None
        return None


# ---- discharge ------------------------------------------------------------

def type_bits(ty):
    return bits.BITS.get(ty)


def assert_holds_by_range(edge, items):
    """G-const / G-range for Assert edges."""
    body = edge.body
    sl = items.slicer(body)
    t = edge.node
    ak = t["ak"]
    env = lambda x: items.env_range(x, body)  # noqa: E731
    if ak == "BoundsCheck":
        ln = bits.eval_range(sl.operand(t["ops"][0]), env=env)
        ix = bits.eval_range(sl.operand(t["ops"][1]), env=env)
        if ln is not None and ix is not None and ix[0] >= 0 and ix[1] < ln[0]:
            return "G-range", "index in [%d, %d] < len >= %d" % (ix[0], ix[1], ln[0])
        return None
    if ak.startswith("Overflow:"):
        op = ak.split(":")[1]
        a_t, b_t = sl.operand(t["ops"][0]), sl.operand(t["ops"][1])
        a = bits.eval_range(a_t, env=env)
        b = bits.eval_range(b_t, env=env)
        if op in ("Shl", "Shr"):
            # the asserted condition is `shift < bits`
            c = bits.eval_range(sl.operand(t["cond"]), env=env)
            ty = None
            # operand type of the shifted value
            for _bi, _si, s in body.stmts():
                pass
            if b is not None:
                # find width from the Lt comparison constant in the cond term
                ct = sl.operand(t["cond"])
                while ct[0] == "phi" and len(ct[2]) == 1:
                    ct = ct[2][0]
                if ct[0] == "bin" and ct[1] == "Lt" and ct[3][0] == "const":
                    if 0 <= b[0] and b[1] < ct[3][2]:
                        return ("G-const" if b[0] == b[1] else "G-range"), "shift amount in [%d, %d] < %d" % (b[0], b[1], ct[3][2])
            return None
        # arithmetic: need the operand type
        ty = None
        ct = sl.operand(t["cond"])
        for s in T.walk(ct):
            if s[0] == "bin" and "WithOverflow" in s[1] and len(s) > 4:
                ty = s[4]
        tr = bits.ty_range(ty) if ty else None
        if a is None or b is None or tr is None:
            return None
        if op == "Add":
            lo, hi = a[0] + b[0], a[1] + b[1]
        elif op == "Sub":
            lo, hi = a[0] - b[1], a[1] - b[0]
        elif op == "Mul":
            ps = [a[0] * b[0], a[0] * b[1], a[1] * b[0], a[1] * b[1]]
            lo, hi = min(ps), max(ps)
        else:
            return None
        if tr[0] <= lo and hi <= tr[1]:
            const = a[0] == a[1] and b[0] == b[1]
            return ("G-const" if const else "G-range"), "%s of [%d,%d] and [%d,%d] stays within %s" % (op, a[0], a[1], b[0], b[1], ty)
        return None
    if ak in ("DivisionByZero", "RemainderByZero"):
        d = bits.eval_range(sl.operand(t["ops"][0]), env=env)
        if d is not None and (d[0] > 0 or d[1] < 0):
            return "G-range", "divisor in [%d, %d] excludes 0" % d
        return None
    return None


def norm_val(t):
    """Normalise a value term for 'same value' comparison in G-dom (drop refs/casts/sites)."""
    return T.strip(t, sites=True, casts=True, refs=True)


def dominating_conditions(body, sl, bb):
    """[(cond_term, taken_bool)] for boolean switches whose one side dominates bb."""
    out = []
    for bi, _i, t in body.terms():
        if t["k"] == "SwitchInt" and t["dty"] in ("usize", "u8", "u16", "u32", "u64", "i32", "i64", "isize") and body.dominates(bi, bb) and bi != bb:
            # `match v { 0 => .., n => .. }`: on the otherwise edge v differs from every listed value, on a listed edge it equals it
            d = sl.operand(t["discr"])
            oth = [(bi, dst, lab) for dst, lab in body.term_edges(bi) if lab == ("otherwise",)]
            if oth and G.guarded_by(body, bb, oth):
                for v_, _tb in t["targets"]:
                    out.append((("bin", "Ne", d, ("const", t["dty"], v_), t["dty"]), True))
            else:
                for v_, tb in t["targets"]:
                    es = [(bi, dst, lab) for dst, lab in body.term_edges(bi) if lab == ("switch", v_)]
                    if es and G.guarded_by(body, bb, es):
                        out.append((("bin", "Eq", d, ("const", t["dty"], v_), t["dty"]), True))
            continue
        if t["k"] != "SwitchInt" or t["dty"] != "bool" or not body.dominates(bi, bb) or bi == bb:
            continue
        d, neg = G.strip_not(sl.operand(t["discr"]))
        tr, fa = [], []
        for dst, lab in body.term_edges(bi):
            (fa if lab == ("switch", 0) else tr).append((bi, dst, lab))
        if neg:
            tr, fa = fa, tr
        if tr and G.guarded_by(body, bb, tr) and not (fa and G.guarded_by(body, bb, fa)):
            out.append((d, True))
        elif fa and G.guarded_by(body, bb, fa):
            out.append((d, False))
    return out


def implied_by_dominating_compare(edge, items):
    """G-dom for Overflow:Sub / BoundsCheck / DivisionByZero: a dominating comparison
    between the same two values implies the assertion."""
    body = edge.body
    sl = items.slicer(body)
    t = edge.node
    ak = t["ak"]
    conds = dominating_conditions(body, sl, edge.bb)
    if not conds:
        return None

    def rel_known(a, b):
        """strongest known relation 'a ? b' among dominating conditions: returns set of ops that hold"""
        holds = set()
        na, nb = norm_val(a), norm_val(b)
        for d, taken in conds:
            if d[0] != "bin" or d[1] not in ("Lt", "Le", "Gt", "Ge", "Eq", "Ne"):
                continue
            x, y = norm_val(d[2]), norm_val(d[3])
            op = d[1]
            if not taken:
                op = {"Lt": "Ge", "Le": "Gt", "Gt": "Le", "Ge": "Lt", "Eq": "Ne", "Ne": "Eq"}[op]
            if (x, y) == (na, nb):
                holds.add(op)
            elif (x, y) == (nb, na):
                holds.add({"Lt": "Gt", "Le": "Ge", "Gt": "Lt", "Ge": "Le", "Eq": "Eq", "Ne": "Ne"}[op])
        return holds
    if ak == "Overflow:Sub":
        a, b = sl.operand(t["ops"][0]), sl.operand(t["ops"][1])
        h = rel_known(a, b)
        if h & {"Ge", "Gt", "Eq"}:
            return "G-dom", "dominated by a comparison establishing minuend >= subtrahend"
        # x - 1 with x != 0 / x > 0 / x >= 1 (unsigned)
        if b == ("const", b[1], 1) if b[0] == "const" else False:
            zero = ("const", b[1], 0)
            h0 = rel_known(a, zero)
            if h0 & {"Gt", "Ne"}:
                return "G-dom", "dominated by a comparison establishing minuend > 0"
        return None
    if ak == "BoundsCheck":
        ln, ix = sl.operand(t["ops"][0]), sl.operand(t["ops"][1])
        if "Lt" in rel_known(ix, ln):
            return "G-dom", "dominated by index < len of the same values"
        return None
    if ak in ("DivisionByZero", "RemainderByZero"):
        d = sl.operand(t["ops"][0])
        ty = "usize"
        for zty in ("usize", "u32", "i32", "u64", "i64", "u8"):
            if rel_known(d, ("const", zty, 0)) & {"Ne", "Gt"}:
                return "G-dom", "dominated by divisor != 0"
        return None
    return None


def infeasible_path(edge, items, std_facts):
    """G-infeasible: the panic block is reachable only through a switch edge whose
    value is excluded by a range/std fact on the discriminant."""
    body = edge.body
    sl = items.slicer(body)
    for bi, _i, t in body.terms():
        if t["k"] != "SwitchInt" or not body.dominates(bi, edge.bb) or bi == edge.bb:
            continue
        d = sl.operand(t["discr"])
        rng = bits.eval_range(d, env=lambda x: std_facts(x, body, items))
        if rng is None:
            continue
        for dst, lab in body.term_edges(bi):
            if not G.guarded_by(body, edge.bb, [(bi, dst, lab)]):
                continue
            if lab[0] == "switch" and not (rng[0] <= lab[1] <= rng[1]):
                return "G-infeasible", "only reachable when %s == %d, but its range is [%d, %d]" % (T.show(d)[:80], lab[1], rng[0], rng[1])
            if lab[0] == "otherwise":
                listed = {v for v, _b in t["targets"]}
                if rng[1] - rng[0] < 4096 and all(v in listed for v in range(rng[0], rng[1] + 1)):
                    return "G-infeasible", "only reachable on the default arm, but every value in [%d, %d] has its own arm" % rng
    return None


def std_len_facts(t, body, items):
    """len(as_bytes(tok)) >= 1 for tokens of split_ascii_whitespace / split_whitespace."""
    if t[0] == "un" and t[1] == "PtrMetadata":
        inner = T.strip(t[2], refs=True, casts=True)
        if inner[0] == "call" and inner[1].split(" => ")[0].endswith("str::<impl str>::as_bytes"):
            src = T.strip(inner[2][0], refs=True)
            # token = Some-payload of next() on split_ascii_whitespace(..)
            if T.contains(src, lambda s: s[0] == "call" and "::next" in s[1]
                          and T.contains(s, lambda u: u[0] == "call" and ("split_ascii_whitespace" in u[1] or "split_whitespace" in u[1]))):
                return (1, (1 << 63) - 1)
    return items.env_range(t, body)


def discharge_generic(edges, items):
    """Apply the generic schemas; returns nothing, sets edge.discharged."""
    for e in edges:
        if e.discharged:
            continue
        if e.kind == "assert":
            r = assert_holds_by_range(e, items) or implied_by_dominating_compare(e, items)
            if r:
                e.discharged = r
                continue
        r = infeasible_path(e, items, std_len_facts)
        if r:
            e.discharged = r


def is_question_mark(body, bb):
    """from_residual of a `?` is a return, not a panic (informational)."""
    t = body.term(bb)
    return t["k"] == "Call" and "from_residual" in t.get("callee", {}).get("path", "")
