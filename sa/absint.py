"""Abstract interpreter over dumped MIR for FINITE abstract domains.

Scalars that the analysed code only ever *compares* (float depths, sort keys)
are abstracted to opaque symbols; an `oracle` supplied by the rule fixes their
mutual ordering for one case of a finite case split. Everything else (enums,
Option, bools, small integers, tuples) is tracked exactly. A branch on a value
the domain cannot decide raises Undecided — the rule then reports "cannot
decide" (infrastructure), never a verdict.

This is abstract interpretation of the program text, not execution of the
crate: no retrofire code is compiled or run.
"""
import copy

from . import facts


class Undecided(Exception):
    pass


class Panic(Exception):
    pass


UNKNOWN = ("unknown",)
import re as _re
_TY_PARAM = _re.compile(r"^Ty\([a-z0-9]+, ([A-Za-z_][A-Za-z0-9_]*)/#\d+\)$")
_LIT = _re.compile(r"^(\d+)(?:_(?:usize|u32|u8|u16|u64|i32|i64|isize))?$")

EXTERNAL_DISCR = {
    "core::option::Option": {"None": 0, "Some": 1},
    "core::result::Result": {"Ok": 0, "Err": 1},
    "core::cmp::Ordering": {"Less": -1, "Equal": 0, "Greater": 1},
    "core::ops::control_flow::ControlFlow": {"Continue": 0, "Break": 1},
}

INT_BITS = {"u8": 8, "u16": 16, "u32": 32, "u64": 64, "u128": 128, "usize": 64,
            "i8": 8, "i16": 16, "i32": 32, "i64": 64, "i128": 128, "isize": 64, "bool": 1, "char": 32}


def some(v):
    return ("adt", "core::option::Option", "Some", [v])


NONE = ("adt", "core::option::Option", "None", [])


def ordering(name):
    return ("adt", "core::cmp::Ordering", name, [])


def is_sym(v):
    return isinstance(v, tuple) and v and v[0] in ("sym", "symop")


class Frame:
    def __init__(self, body, env=None):
        self.body = body
        self.locals = {}
        self.env = env or {}     # generic parameter name -> int (const generics) | type string


class Interp:
    def __init__(self, prog, oracle=None, models=None, fuel=200000, max_depth=24):
        self.prog = prog
        self.oracle = oracle or (lambda op, a, b: None)
        self.models = models or {}
        self.fuel = fuel
        self.max_depth = max_depth
        self.trace = []
        self.cover = None       # {body path: set of executed blocks} when a rule wants to know which paths its scenarios took

    def concrete_index(self, idx):
        """hook: a domain that can enumerate the values of an index (engine V forks over a small range) returns one of them"""
        return idx

    # ------------------------------------------------------------ memory
    def read_place(self, fr, p):
        v = fr.locals.get(p["l"], UNKNOWN)
        return self._walk(fr, v, p["p"])

    def _walk(self, fr, v, projs):
        for e in projs:
            if e == "*":
                if isinstance(v, tuple) and v[0] == "ref":
                    v = self.load_ref(v)
                elif isinstance(v, tuple) and v[0] == "box":
                    v = v[1]
                else:
                    return UNKNOWN
            elif isinstance(e, dict) and "f" in e:
                if isinstance(v, tuple) and v[0] in ("adt", "closure"):
                    fl = v[3] if v[0] == "adt" else v[2]
                    v = fl[e["f"]] if e["f"] < len(fl) else UNKNOWN
                elif isinstance(v, tuple) and v[0] == "tuple":
                    v = v[1][e["f"]] if e["f"] < len(v[1]) else UNKNOWN
                elif isinstance(v, tuple) and v[0] == "array" and len(v) > 2 and v[2] == "json":
                    # a tuple inside a constant table: the fact dump serialises tuples and arrays alike as lists
                    v = v[1][e["f"]] if e["f"] < len(v[1]) else UNKNOWN
                else:
                    return UNKNOWN
            elif isinstance(e, dict) and ("si" in e or ("i" in e and isinstance(v, tuple) and v[0] == "symvec")):
                idx = e["si"] if "si" in e else fr.locals.get(e["i"], UNKNOWN)
                if isinstance(v, tuple) and v[0] == "symvec":
                    hook = getattr(self, "index_hook", None)
                    if hook is not None:
                        hook(v, idx)
                    v = ("symop", "elem", ("sym", v[1]), idx)
                else:
                    return UNKNOWN
            elif isinstance(e, dict) and "i" in e:
                idx = self.concrete_index(fr.locals.get(e["i"], UNKNOWN))
                if isinstance(v, tuple) and v[0] == "array" and isinstance(idx, int) and idx < len(v[1]):
                    win = len(v) > 2 and v[2] == "window"
                    v = v[1][idx]
                    if win and isinstance(v, tuple) and v[0] == "ref":
                        v = self.load_ref(v)          # a window's slots alias the parent's elements
                else:
                    return UNKNOWN
            elif isinstance(e, dict) and "ci" in e:
                if isinstance(v, tuple) and v[0] == "array":
                    i = len(v[1]) - e["ci"] if e["fe"] else e["ci"]
                    win = len(v) > 2 and v[2] == "window"
                    v = v[1][i] if 0 <= i < len(v[1]) else UNKNOWN
                    if win and isinstance(v, tuple) and v[0] == "ref":
                        v = self.load_ref(v)
                else:
                    return UNKNOWN
            elif isinstance(e, dict) and "sub" in e:
                # slice pattern `[a, rest @ ..]`: the sub-slice from..(len - to | to)
                if isinstance(v, tuple) and v[0] == "array":
                    fr_, to_, from_end = e["sub"]
                    hi = len(v[1]) - to_ if from_end else to_
                    if not (0 <= fr_ <= hi <= len(v[1])):
                        return UNKNOWN
                    v = ("array", list(v[1][fr_:hi])) + tuple(v[2:])
                else:
                    return UNKNOWN
            elif isinstance(e, dict) and "dc" in e:
                pass  # downcast: value unchanged, field access follows
            else:
                return UNKNOWN
        return v

    def load_ref(self, r):
        _tag, fr, local, projs = r
        v = fr.locals.get(local, UNKNOWN)
        return self._walk(fr, v, projs)

    def write_place(self, fr, p, val):
        self._store(fr, p["l"], p["p"], val)

    def _store(self, fr, local, projs, val):
        if not projs:
            fr.locals[local] = val
            return
        # find last deref to switch frames
        cur_fr, cur_local, rest = fr, local, list(projs)
        # navigate to container
        v = cur_fr.locals.get(cur_local, UNKNOWN)
        if v == UNKNOWN and rest and isinstance(rest[0], dict) and "f" in rest[0] and rest[0].get("of") not in (None, "tuple", "?"):
            of = rest[0]["of"]
            v = ("adt", of, of.rsplit("::", 1)[-1], [])
            cur_fr.locals[cur_local] = v
        path = []
        for i, e in enumerate(rest):
            if e == "*":
                if isinstance(v, tuple) and v[0] == "ref":
                    _t, f2, l2, p2 = v
                    # index locals belong to THIS frame: resolve them before switching to the pointee's frame
                    return self._store(f2, l2, list(p2) + self._resolve_projs(cur_fr, rest[i + 1:]), val)
                return  # store through unknown pointer: ignored (sound for our uses: values become stale only via known refs)
            last = (i == len(rest) - 1)
            if isinstance(e, dict) and "dc" in e:
                continue
            if isinstance(e, dict) and "f" in e:
                cont = None
                if isinstance(v, tuple) and v[0] == "adt":
                    cont = v[3]
                elif isinstance(v, tuple) and v[0] == "tuple":
                    cont = v[1]
                elif isinstance(v, tuple) and v[0] == "closure":
                    cont = v[2]
                if cont is None:
                    return
                while len(cont) <= e["f"]:
                    cont.append(UNKNOWN)
                if last:
                    cont[e["f"]] = val
                    return
                v = cont[e["f"]]
                if v == UNKNOWN and isinstance(rest[i + 1], dict) and "f" in rest[i + 1] and rest[i + 1].get("of") not in (None, "tuple", "?"):
                    # a write into a field of a not yet initialised struct (MaybeUninit<..> behind `vec![..]`, say): materialise the path
                    of = rest[i + 1]["of"]
                    v = ("adt", of, of.rsplit("::", 1)[-1], [])
                    cont[e["f"]] = v
            elif isinstance(e, dict) and ("i" in e or ("ci" in e and not e.get("fe"))):
                idx = cur_fr.locals.get(e["i"], UNKNOWN) if "i" in e else e["ci"]
                if isinstance(v, tuple) and v[0] == "array" and isinstance(idx, int) and idx < len(v[1]):
                    if len(v) > 2 and v[2] == "window" and isinstance(v[1][idx], tuple) and v[1][idx][0] == "ref":
                        # a window's slot aliases the parent's element: the store goes there
                        _t, f2, l2, p2 = v[1][idx]
                        return self._store(f2, l2, list(p2) + self._resolve_projs(cur_fr, rest[i + 1:]), val)
                    if last:
                        v[1][idx] = val
                        return
                    v = v[1][idx]
                else:
                    return
            else:
                return

    # ------------------------------------------------------------ operands
    def const(self, fr, k):
        if "fn" in k:
            f = k["fn"]
            return ("fn", f["res"]["path"] if f.get("res") else f["path"], f)
        if "closure" in k:
            return ("closure", k["closure"], [], dict(fr.env))
        if "v" in k:
            v = k["v"]
            if k["ty"] in ("f32", "f64"):
                return ("f", float(v) if not isinstance(v, str) else float(v.replace("inf", "inf")))
            return int(v)
        if "promoted" in k and fr.body.d.get("promoted"):
            pb = facts.Body.promoted(fr.body, k["promoted"])
            pfr = Frame(pb)
            return self.run(pfr, 0)
        if "val" in k:
            return self.from_json(k["val"])
        if k["ty"] == "()":
            return ("tuple", [])
        sdesc = k.get("s", "")
        m = _TY_PARAM.match(sdesc)
        if m and m.group(1) in fr.env and isinstance(fr.env[m.group(1)], int):
            return fr.env[m.group(1)]
        return UNKNOWN

    def from_json(self, j):
        if isinstance(j, bool):
            return int(j)
        if isinstance(j, int):
            return j
        if isinstance(j, float):
            return ("f", j)
        if isinstance(j, list):
            return ("array", [self.from_json(x) for x in j], "json")
        if isinstance(j, dict):
            if "ref" in j:
                fr = Frame(None)
                fr.locals[0] = self.from_json(j["ref"])
                return ("ref", fr, 0, [])
            if "_variant" in j:
                # a field-less enum constant: its type is found by variant name and discriminant
                cands = [p_ for p_, a_ in self.prog.adts.items() if a_.get("kind") == "Enum" and any(
                    vv["name"] == j["_variant"] and ("_discr" not in j or str(vv.get("discr")) == str(j["_discr"])) for vv in a_.get("variants", []))]
                return ("adt", cands[0] if len(cands) == 1 else "?", j["_variant"], [])
            if "_t" in j:
                return ("adt", j["_t"], j["_t"].split("::")[-1], [self.from_json(v) for k, v in j.items() if k != "_t"])
        return UNKNOWN

    def operand(self, fr, o):
        if "c" in o:
            return copy_val(self.read_place(fr, o["c"]))
        if "m" in o:
            return copy_val(self.read_place(fr, o["m"]))
        if "k" in o:
            return self.const(fr, o["k"])
        return UNKNOWN

    # ------------------------------------------------------------ rvalues
    def discr_of(self, v, dty):
        if not (isinstance(v, tuple) and v[0] == "adt"):
            raise Undecided("discriminant of non-enum value %r" % (v,))
        path, variant = v[1], v[2]
        d = None
        if path in EXTERNAL_DISCR:
            d = EXTERNAL_DISCR[path].get(variant)
        elif path in self.prog.adts:
            for vv in self.prog.adts[path]["variants"]:
                if vv["name"] == variant:
                    d = int(vv["discr"])
        if d is None:
            raise Undecided("unknown discriminant for %s::%s" % (path, variant))
        bits = INT_BITS.get(dty, 64)
        return d & ((1 << bits) - 1) if bits < 128 else d

    def binop(self, op, a, b, ty):
        base = op.replace("WithOverflow", "").replace("Unchecked", "")
        cmp_ops = {"Eq", "Ne", "Lt", "Le", "Gt", "Ge", "Cmp"}
        # the address of a live allocation used as an integer (debug builds insert alignment / null checks before raw pointer
        # dereferences): aligned and non-null
        if isinstance(a, tuple) and a[0] == "ref" and isinstance(b, int):
            if base == "BitAnd":
                return 0
            if base in ("Eq", "Ne") and b == 0:
                return int(base == "Ne")
        if isinstance(a, int) and isinstance(b, int):
            bits = INT_BITS.get(ty, 64)
            signed = ty.startswith("i")

            def tos(x):
                x &= (1 << bits) - 1
                if signed and x >> (bits - 1):
                    x -= 1 << bits
                return x
            sa, sb = tos(a), tos(b)
            if base in cmp_ops:
                if base == "Cmp":
                    return ordering("Less" if sa < sb else "Greater" if sa > sb else "Equal")
                return int({"Eq": sa == sb, "Ne": sa != sb, "Lt": sa < sb, "Le": sa <= sb,
                            "Gt": sa > sb, "Ge": sa >= sb}[base])
            if base in ("Div", "Rem") and sb == 0:
                raise Panic("division by zero")
            r = {"Add": lambda: sa + sb, "Sub": lambda: sa - sb, "Mul": lambda: sa * sb,
                 "Div": lambda: int(sa / sb) if sb else 0, "Rem": lambda: sa - sb * int(sa / sb) if sb else 0,
                 "BitXor": lambda: a ^ b, "BitAnd": lambda: a & b, "BitOr": lambda: a | b,
                 "Shl": lambda: a << (b % bits), "Shr": lambda: (sa >> (b % bits)),
                 "Offset": lambda: a + b}[base]()
            lo, hi = (-(1 << (bits - 1)), (1 << (bits - 1)) - 1) if signed else (0, (1 << bits) - 1)
            ovf = int(not (lo <= r <= hi)) if base in ("Add", "Sub", "Mul") else 0
            r &= (1 << bits) - 1
            if "WithOverflow" in op:
                return ("tuple", [r, ovf])
            return r
        # float constants
        if isinstance(a, tuple) and a[0] == "f" and isinstance(b, tuple) and b[0] == "f" and base in cmp_ops - {"Cmp"}:
            x, y = a[1], b[1]
            return int({"Eq": x == y, "Ne": x != y, "Lt": x < y, "Le": x <= y, "Gt": x > y, "Ge": x >= y}[base])
        if base in cmp_ops:
            r = self.oracle(base, a, b)
            if r is None:
                raise Undecided("comparison %s(%r, %r) not decided by the abstract domain" % (base, a, b))
            return int(r)
        if a is UNKNOWN or b is UNKNOWN or a == UNKNOWN or b == UNKNOWN:
            return UNKNOWN
        if base in ("Div", "Rem") and ty in INT_BITS:
            base = "I" + base      # integer division truncates: not a ring operation (never a rational-function quotient)
        # exact constant folding with the float constants 0 and 1 (ring semantics; NaN/inf propagation is not modelled anywhere)
        z, o = ("f", 0.0), ("f", 1.0)
        if isinstance(a, tuple) and a[0] == "f" and isinstance(b, tuple) and b[0] == "f" and ty in ("f32", "f64") and base in ("Add", "Sub", "Mul", "Div"):
            # two float constants: fold when the result is exact in the operand type (no rounding is hidden)
            import struct
            from fractions import Fraction as _Fr
            try:
                x, y = _Fr(a[1]), _Fr(b[1])
                r = {"Add": lambda: x + y, "Sub": lambda: x - y, "Mul": lambda: x * y, "Div": lambda: x / y if y else None}[base]()
                if r is not None:
                    fv = float(r)
                    if ty == "f32":
                        fv = struct.unpack("f", struct.pack("f", fv))[0]
                    if _Fr(fv) == r:
                        return ("f", fv)
            except (OverflowError, ValueError, struct.error):
                pass
        if base == "Rem" and ty in ("f32", "f64") and isinstance(a, tuple) and a[0] == "f" and isinstance(b, tuple) and b[0] == "f" and b[1] != 0.0:
            import math as _m
            if _m.isfinite(a[1]) and _m.isfinite(b[1]):
                return ("f", _m.fmod(a[1], b[1]))          # the IEEE remainder of two constants is exact
        if "WithOverflow" not in op:
            if base == "Mul" and (a == z or b == z) and ty in ("f32", "f64"):
                return z
            if base == "Mul" and ty in ("f32", "f64") and (a == o or b == o):
                return b if a == o else a
            if base == "Add" and ty in ("f32", "f64") and (a == z or b == z):
                return b if a == z else a
            if base == "Sub" and ty in ("f32", "f64") and b == z:
                return a
            if base == "Div" and ty in ("f32", "f64") and (a == z or b == o) and b != z:
                return a
        v = ("symop", base, a, b)
        if "WithOverflow" in op:
            return ("tuple", [v, 0])
        return v

    def rvalue(self, fr, rv, lhs_ty=None):
        k = rv["k"]
        if k == "Use":
            return self.operand(fr, rv["a"])
        if k in ("Ref", "RawPtr"):
            p = rv["p"]
            # reborrow: &(*r).f  -> pointer derived from r
            if p["p"] and p["p"][0] == "*":
                base = fr.locals.get(p["l"], UNKNOWN)
                if isinstance(base, tuple) and base[0] == "ref":
                    return ("ref", base[1], base[2], list(base[3]) + self._resolve_projs(fr, p["p"][1:]))
                return UNKNOWN
            return ("ref", fr, p["l"], self._resolve_projs(fr, p["p"]))
        if k == "CopyForDeref":
            return copy_val(self.read_place(fr, rv["p"]))
        if k == "Cast":
            v = self.operand(fr, rv["a"])
            if rv["ck"] == "IntToInt" and isinstance(v, tuple) and v[0] == "adt" and not v[3]:
                # a field-less enum cast to an integer: its discriminant
                try:
                    v = self.discr_of(v, rv["to"])
                except Undecided:
                    return UNKNOWN
            if rv["ck"] == "IntToInt" and isinstance(v, int):
                bits = INT_BITS.get(rv["to"], 64)
                fb = INT_BITS.get(rv["from"], 64)
                if rv["from"].startswith("i") and (v >> (fb - 1)) & 1:
                    v = v - (1 << fb)
                return v & ((1 << bits) - 1)
            if rv["ck"] in ("PointerCoercion", "PtrToPtr", "Transmute", "Subtype"):
                return v
            if rv["ck"] == "IntToFloat" and isinstance(v, int):
                fb = INT_BITS.get(rv["from"], 64)
                if rv["from"].startswith("i") and (v >> (fb - 1)) & 1:
                    v = v - (1 << fb)
                return ("f", float(v))
            if rv["ck"] == "FloatToInt":
                hook = getattr(self, "float_to_int", None)
                if hook is not None:
                    r = hook(v, rv["to"])
                    if r is not None:
                        return r
                if isinstance(v, tuple) and v[0] == "f" and v[1] == v[1] and abs(v[1]) != float("inf"):
                    bits = INT_BITS.get(rv["to"], 64)
                    lo, hi = (-(1 << (bits - 1)), (1 << (bits - 1)) - 1) if rv["to"].startswith("i") else (0, (1 << bits) - 1)
                    return max(lo, min(hi, int(v[1]))) & ((1 << bits) - 1)
            if is_sym(v) or (isinstance(v, tuple) and v[0] == "f"):
                return ("symop", "cast:" + rv["to"], v, None)
            return UNKNOWN
        if k == "BinaryOp":
            return self.binop(rv["op"], self.operand(fr, rv["a"]), self.operand(fr, rv["b"]), rv["ty"])
        if k == "UnaryOp":
            v = self.operand(fr, rv["a"])
            if rv["op"] == "Not" and isinstance(v, int):
                bits = INT_BITS.get(rv["ty"], 64)
                return (~v) & ((1 << bits) - 1)
            if rv["op"] == "Neg" and isinstance(v, int):
                bits = INT_BITS.get(rv["ty"], 64)
                return (-v) & ((1 << bits) - 1)
            if rv["op"] == "Not" and isinstance(v, tuple) and v[0] in ("sym", "symop") and rv["ty"] in INT_BITS and rv["ty"] != "bool":
                return ("symop", "BitNot", v, None)
            if rv["op"] == "PtrMetadata":
                t = v
                if isinstance(t, tuple) and t[0] == "ref":
                    t = self.load_ref(t)
                if isinstance(t, tuple) and t[0] == "array":
                    return len(t[1])
                if isinstance(t, tuple) and t[0] == "symvec":
                    return ("sym", t[1])
                return UNKNOWN
            if rv["op"] == "Neg" and isinstance(v, tuple) and v[0] == "f":
                return ("f", -v[1])
            if is_sym(v) or (isinstance(v, tuple) and v[0] == "f"):
                return ("symop", rv["op"], v, None)
            return UNKNOWN
        if k == "Discriminant":
            v = self.read_place(fr, rv["p"])
            try:
                return self.discr_of(v, lhs_ty or "isize")
            except Undecided:
                return UNKNOWN
        if k == "Aggregate":
            ops = [self.operand(fr, o) for o in rv["ops"]]
            if rv["ak"] == "Adt":
                return ("adt", rv["adt"], rv["variant"], ops)
            if rv["ak"] == "Tuple":
                return ("tuple", ops)
            if rv["ak"] == "Array":
                return ("array", ops)
            if rv["ak"] == "Closure":
                return ("closure", rv["closure"], ops, dict(fr.env))
            return UNKNOWN
        if k == "Repeat":
            v = self.operand(fr, rv["a"])
            n = rv.get("n")
            if not isinstance(n, int) and isinstance(fr.env.get(rv.get("ns")), int):
                n = fr.env[rv["ns"]]            # `[x; N]` with the const generic bound in this instantiation
            if isinstance(n, int) and n <= 4096:
                return ("array", [copy_val(v) for _ in range(n)])
            return UNKNOWN
        return UNKNOWN

    def _resolve_projs(self, fr, projs):
        out = []
        for e in projs:
            if isinstance(e, dict) and "i" in e:
                idx = fr.locals.get(e["i"], UNKNOWN)
                if isinstance(idx, int):
                    out.append({"ci": idx, "ml": 0, "fe": False})
                elif isinstance(idx, tuple) and idx[0] in ("sym", "symop"):
                    out.append({"si": idx})          # a symbolic position in a slice of symbolic length
                else:
                    out.append({"unknown": 1})
            else:
                out.append(e)
        return out

    # ------------------------------------------------------------ execution
    def call_body(self, body, args, depth=0, env=None):
        if depth > self.max_depth:
            raise Undecided("call depth exceeded at %s" % body.path)
        fr = Frame(body, env)
        if depth == 0:
            # by-value arguments of the entry call are the caller's (a rule's) own values: `fn f(mut self)` must not edit them in place
            args = [copy_val(a) for a in args]
        for i, a in enumerate(args):
            fr.locals[i + 1] = a
        try:
            return self.run(fr, depth)
        except Undecided as e:
            # remember the interpreted call chain for diagnostics (innermost first)
            st = getattr(e, "stack", None)
            if st is None:
                st = e.stack = []
            if len(st) < 12:
                st.append(body.path)
            raise

    def run(self, fr, depth):
        body = fr.body
        bb = 0
        while True:
            self.fuel -= 1
            if self.fuel < 0:
                raise Undecided("fuel exhausted in %s" % body.path)
            blk = body.blocks[bb]
            if self.cover is not None:
                self.cover.setdefault(body.path, set()).add(bb)
            for s in blk["stmts"]:
                if s["k"] == "Assign":
                    lty = body.locals[s["lhs"]["l"]] if not s["lhs"]["p"] else None
                    v = self.rvalue(fr, s["rv"], lty)
                    self.write_place(fr, s["lhs"], v)
                elif s["k"] == "SetDiscriminant":
                    pass
            t = blk["term"]
            k = t["k"]
            if k == "Goto":
                bb = t["t"]
            elif k == "Return":
                return fr.locals.get(0, ("tuple", []))
            elif k == "SwitchInt":
                v = self.operand(fr, t["discr"])
                if not isinstance(v, int) and isinstance(v, tuple) and v[0] in ("sym", "symop") and t["dty"] != "bool":
                    # `match n { 0 => .., _ => .. }` on a symbolic integer: the oracle is asked arm by arm
                    nxt, known = t["otherwise"], True
                    for val, tgt in t["targets"]:
                        r_ = self.oracle("Eq", v, val)
                        if r_ is None:
                            known = False
                            break
                        if r_:
                            nxt = tgt
                            break
                    if known:
                        bb = nxt
                        continue
                if not isinstance(v, int):
                    raise Undecided("branch on undecided value %r at %s" % (v, body.where(bb, None)))
                v &= (1 << INT_BITS.get(t["dty"], 128)) - 1 if INT_BITS.get(t["dty"], 128) < 128 else v
                nxt = t["otherwise"]
                for val, tgt in t["targets"]:
                    if val == v:
                        nxt = tgt
                        break
                bb = nxt
            elif k == "Assert":
                c = self.operand(fr, t["cond"])
                if isinstance(c, int) and bool(c) != t["expected"]:
                    raise Panic("assert %s failed at %s" % (t["ak"], body.where(bb, None)))
                bb = t["t"]
            elif k == "Drop":
                bb = t["t"]
            elif k == "Call":
                args = [self.operand(fr, a) for a in t["args"]]
                try:
                    res = self.do_call(fr, t, args, depth, mut_flags=[self._is_mut_ref_operand(body, a) for a in t["args"]])
                except Undecided as e:
                    st = getattr(e, "stack", None)
                    if st is None:
                        st = e.stack = []
                    if len(st) < 12:
                        st.append("  called at %s" % body.where(bb, None))
                    raise
                self.write_place(fr, t["dest"], res)
                if t["t"] is None:
                    raise Panic("diverging call at %s" % body.where(bb, None))
                bb = t["t"]
            elif k == "Unreachable":
                raise Undecided("reached Unreachable at %s" % body.where(bb, None))
            else:
                raise Undecided("terminator %s at %s" % (k, body.where(bb, None)))

    def invoke(self, f, args, depth):
        """Call a closure / fn value with positional args."""
        if isinstance(f, tuple) and f[0] == "ref":
            f = self.load_ref(f)
        if isinstance(f, tuple) and f[0] == "closure":
            body = self.prog.bodies.get(f[1])
            if body is None:
                return UNKNOWN
            env = f
            if body.locals[1].startswith("&"):
                cell = Frame(None)
                cell.locals[0] = f
                env = ("ref", cell, 0, [])
            return self.call_body(body, [env] + list(args), depth + 1, env=(f[3] if len(f) > 3 else None))
        if isinstance(f, tuple) and f[0] == "fn":
            return self.call_path(f[1], f[2] if len(f) > 2 else None, list(args), depth + 1, caller=None)
        return UNKNOWN

    def resolve_generic(self, a, env):
        """generic argument string of a callee -> int | type string, in the caller's env"""
        m = _LIT.match(a)
        if m:
            return int(m.group(1))
        if a in env:
            return env[a]
        # substitute parameters inside compound types: [Sc; N] etc. (best effort)
        out = a
        for k, v in env.items():
            out = _re.sub(r"\b%s\b" % _re.escape(k), str(v), out)
        return out

    def bind_env(self, body, callee, caller_env):
        names = body.d.get("generics") or []
        vals = (callee or {}).get("args") or []
        env = {}
        for n, v in zip(names, vals):
            env[n] = self.resolve_generic(v, caller_env or {})
        return env

    def dispatch_trait(self, callee, args, env):
        """unresolved call to a LOCAL trait method: pick the impl by the receiver's runtime value
        (or, for receiver-less methods, by the Self type bound in the environment)."""
        tr = callee.get("trait")
        if not tr or not tr.startswith("retrofire_"):
            return None
        meth = callee["path"].rsplit("::", 1)[-1]
        cands = [b for b in self.prog.bodies.values() if b.impl_trait == tr and b.kind == "AssocFn" and b.path.endswith("::" + meth)]
        if not cands:
            return None
        kind = None
        if args:
            v = deref_all(self, args[0])
            if isinstance(v, tuple) and v[0] == "adt":
                kind = v[1]
            elif isinstance(v, tuple) and v[0] in ("sym", "symop", "f"):
                kind = "f32"
            elif isinstance(v, int):
                kind = "int"
            elif isinstance(v, tuple) and v[0] == "tuple":
                kind = "tuple%d" % len(v[1])
            elif isinstance(v, tuple) and v[0] == "array":
                # impl Trait for [T] / [T; N]
                sl_ = [b for b in cands if (b.impl_self or "").startswith("[")]
                if len(sl_) == 1:
                    return sl_[0]
        else:
            self_ty = self.resolve_generic((callee.get("args") or ["?"])[0], env or {})
            kind = self_ty if isinstance(self_ty, str) else None
        if kind is None:
            return None
        crate_rel = kind.split("::", 1)[1] if kind.startswith("retrofire_") else kind
        # several impls for one ADT (e.g. Color<[u8; N]> and Color<[f32; N]>): prefer the element type of the value
        if args and kind not in ("f32", "int") and not kind.startswith("tuple"):
            v0 = deref_all(self, args[0])
            elem = None
            if isinstance(v0, tuple) and v0[0] == "adt" and v0[3] and isinstance(v0[3][0], tuple) and v0[3][0][0] == "array" and v0[3][0][1]:
                e0 = deref_all(self, v0[3][0][1][0])
                elem = "f32" if (isinstance(e0, tuple) and e0[0] in ("sym", "symop", "f")) else ("int" if isinstance(e0, int) else None)
            matching = [b for b in cands if (b.impl_self or "").startswith(crate_rel + "<") or (b.impl_self or "") == crate_rel]
            if len(matching) > 1 and elem:
                pref = [b for b in matching if ("[f32" in (b.impl_self or "")) == (elem == "f32") and ("[f32" in (b.impl_self or "") or elem != "f32")]
                generic = [b for b in matching if "[f32" not in (b.impl_self or "") and "[u8" not in (b.impl_self or "") and "[i32" not in (b.impl_self or "") and "[u32" not in (b.impl_self or "")]
                cands = (pref or generic or matching)
        for b in cands:
            st = b.impl_self or ""
            if kind == "f32" and st == "f32":
                return b
            if kind.startswith("tuple") and st.startswith("(") and st.count(",") == int(kind[5:]) - 1:
                return b
            if crate_rel != "f32" and not kind.startswith("tuple") and (st.startswith(crate_rel + "<") or st == crate_rel):
                return b
        # blanket impl `impl<T: ..> Trait for T`
        for b in cands:
            st = b.impl_self or ""
            if _re.match(r"^[A-Z][A-Za-z0-9_]*$", st) and not kind.startswith("tuple") and kind != "int":
                return b
        return None

    def call_path(self, path, callee, args, depth, caller=None, mut_flags=None):
        self.cur_env = caller.env if caller is not None else {}
        order = getattr(self, "_model_order", None)
        if order is None or getattr(self, "_model_order_n", -1) != len(self.models):
            # the most specific (longest) key that matches wins: "Iterator::take_while" before "Iterator::take"
            order = sorted(self.models.items(), key=lambda kv: (-len(kv[0].rsplit("::", 1)[-1]), -len(kv[0].lstrip("$"))))
            self._model_order, self._model_order_n = order, len(self.models)
        for key, fn in order:
            if key.startswith("$"):
                hit = path.endswith(key[1:]) or bool(callee and callee["path"].endswith(key[1:]))
            else:
                hit = key in path or bool(callee and key in callee["path"])
            if hit:
                r = fn(self, args, callee, depth)
                if r is not NotImplemented:
                    return r
        for key, fn in STD_MODELS:
            if key in path or (callee and key in callee["path"]):
                r = fn(self, args, callee, depth)
                if r is not NotImplemented:
                    return r
        cenv = caller.env if caller is not None else {}
        if callee and callee.get("trait") and not callee.get("res"):
            # an unresolved trait-method call: an impl for the receiver's runtime value overrides the trait's default body
            tb0 = self.dispatch_trait(callee, args, cenv)
            if tb0 is not None and tb0.impl_trait is not None:
                env = self.bind_env(tb0, None, cenv)
                env.update(self.infer_env(tb0, args))
                return self.call_body(tb0, args, depth + 1, env=env)
        b = self.prog.lookup(path)
        if b is None and callee and (callee.get("res") or {}).get("path"):
            b = self.prog.lookup(callee["res"]["path"])
        if b is not None and not (callee and callee.get("trait") and not callee.get("res") and b.impl_trait is None and callee["path"] == path and self._is_decl_only(b)):
            env = self.bind_env(b, callee, cenv)
            for k, v in self.infer_env(b, args).items():
                if not isinstance(env.get(k), int):
                    env[k] = v
            return self.call_body(b, args, depth + 1, env=env)
        if callee and callee.get("trait") and not callee.get("res"):
            tb = self.dispatch_trait(callee, args, cenv)
            if tb is not None:
                env = self.bind_env(tb, None, cenv)
                # const generics of the impl are inferred from the receiver where possible
                env.update(self.infer_env(tb, args))
                return self.call_body(tb, args, depth + 1, env=env)
        self.trace.append("unmodelled call: %s" % path)
        # whatever an uninterpreted callee may write through a `&mut` argument is unknown from here on (rather than unchanged)
        for a_, m_ in zip(args, mut_flags or ()):
            if m_ and isinstance(a_, tuple) and a_[0] == "ref":
                try:
                    self._store(a_[1], a_[2], list(a_[3]), UNKNOWN)
                except Exception:
                    pass
        if getattr(self, "strict_calls", False):
            raise Undecided("unmodelled call: %s with %s" % (path, [str(deref_all(self, a))[:80] for a in args]))
        return UNKNOWN

    def _is_decl_only(self, b):
        return False

    def infer_env(self, body, args):
        """infer const generic parameters (array lengths) of `body` from argument values"""
        env = {}
        names = [n for n in (body.d.get("generics") or [])]
        if not args:
            return env
        v = deref_all(self, args[0])
        if not (isinstance(v, tuple) and v[0] in ("adt", "array")) and len(args) > 1:
            v = deref_all(self, args[1])
        arr = None
        if isinstance(v, tuple) and v[0] == "adt" and v[3] and isinstance(v[3][0], tuple) and v[3][0][0] == "array":
            arr = v[3][0]
        elif isinstance(v, tuple) and v[0] == "array":
            arr = v
        if arr is not None:
            # impl<.., const N: usize> X<[Sc; N], ..>: the (first) const generic gets the length
            st = body.impl_self or ""
            m = _re.search(r"\[[A-Za-z0-9_:<>, ]+; ([A-Z][A-Za-z0-9_]*)\]", st)
            if m and m.group(1) in names:
                env[m.group(1)] = len(arr[1])
                inner = arr[1][0] if arr[1] else None
                m2 = _re.search(r"\[\[[A-Za-z0-9_:<>, ]+; ([A-Z][A-Za-z0-9_]*)\]; ([A-Z][A-Za-z0-9_]*)\]", st)
                if m2 and isinstance(inner, tuple) and inner[0] == "array":
                    env[m2.group(1)] = len(inner[1])
                    env[m2.group(2)] = len(arr[1])
        return env

    def do_call(self, fr, t, args, depth, mut_flags=None):
        c = t.get("callee")
        if not c:
            f = self.operand(fr, t["indirect"])
            return self.invoke(f, args, depth)
        path = c["res"]["path"] if c.get("res") else c["path"]
        return self.call_path(path, c, args, depth, caller=fr, mut_flags=mut_flags)

    @staticmethod
    def _is_mut_ref_operand(body, a):
        pl = a.get("m") or a.get("c")
        if pl is None or pl["p"]:
            return False
        ty = body.locals[pl["l"]] if pl["l"] < len(body.locals) else ""
        return isinstance(ty, str) and ty.startswith("&mut ")


def copy_val(v):
    if isinstance(v, tuple):
        if v[0] == "ref":
            return v
        if v[0] == "adt":
            return ("adt", v[1], v[2], [copy_val(x) for x in v[3]])
        if v[0] in ("tuple", "array"):
            return (v[0], [copy_val(x) for x in v[1]]) + tuple(v[2:])
        if v[0] == "closure":
            return ("closure", v[1], [copy_val(x) for x in v[2]]) + tuple(v[3:])
    return v


def deref_all(it, v):
    while isinstance(v, tuple) and v[0] == "ref":
        v = it.load_ref(v)
    return v


def struct_eq(it, a, b):
    a, b = deref_all(it, a), deref_all(it, b)
    if isinstance(a, int) and isinstance(b, int):
        return a == b
    if isinstance(a, tuple) and isinstance(b, tuple) and a[0] == b[0] == "adt":
        if a[2] != b[2]:
            return False
        if len(a[3]) != len(b[3]):
            return False
        return all(struct_eq(it, x, y) for x, y in zip(a[3], b[3]))
    if isinstance(a, tuple) and isinstance(b, tuple) and a[0] == b[0] and a[0] in ("tuple", "array"):
        return len(a[1]) == len(b[1]) and all(struct_eq(it, x, y) for x, y in zip(a[1], b[1]))
    r = it.oracle("Eq", a, b)
    if r is None:
        raise Undecided("equality of %r and %r not decided" % (a, b))
    return bool(r)


def float_cmp(it, a, b, total):
    a, b = deref_all(it, a), deref_all(it, b)
    lt = it.oracle("Lt", a, b)
    gt = it.oracle("Gt", a, b)
    eq = it.oracle("Eq", a, b)
    if lt is None or gt is None or eq is None:
        raise Undecided("ordering of %r and %r not decided" % (a, b))
    if lt:
        return ordering("Less")
    if gt:
        return ordering("Greater")
    if eq:
        return ordering("Equal")
    if total:
        raise Undecided("total_cmp on unordered operands")
    return None


def m_partial_cmp(it, args, callee, depth):
    full = (callee or {}).get("full", "") + ((callee or {}).get("res") or {}).get("path", "")
    if "f32" in full or "f64" in full:
        r = float_cmp(it, args[0], args[1], False)
        return some(r) if r is not None else NONE
    return NotImplemented


def m_total_cmp(it, args, callee, depth):
    return float_cmp(it, args[0], args[1], True)


def m_eq(it, args, callee, depth):
    res = ((callee or {}).get("res") or {}).get("path", "")
    if res and res in it.prog.bodies:
        return NotImplemented
    return int(struct_eq(it, args[0], args[1]))


def m_ne(it, args, callee, depth):
    res = ((callee or {}).get("res") or {}).get("path", "")
    if res and res in it.prog.bodies:
        return NotImplemented
    return int(not struct_eq(it, args[0], args[1]))


def m_map_or(it, args, callee, depth):
    o = deref_all(it, args[0])
    if not (isinstance(o, tuple) and o[0] == "adt"):
        raise Undecided("map_or on undecided option")
    if o[2] == "None":
        return args[1]
    return it.invoke(args[2], [o[3][0]], depth)


def m_map(it, args, callee, depth):
    o = deref_all(it, args[0])
    if not (isinstance(o, tuple) and o[0] == "adt"):
        raise Undecided("map on undecided option")
    if o[2] == "None":
        return NONE
    return some(it.invoke(args[1], [o[3][0]], depth))


def m_is_some_and(it, args, callee, depth):
    o = deref_all(it, args[0])
    if not (isinstance(o, tuple) and o[0] == "adt"):
        raise Undecided("is_some_and on undecided option")
    if o[2] == "None":
        return 0
    return it.invoke(args[1], [o[3][0]], depth)


def m_is_none_or(it, args, callee, depth):
    o = deref_all(it, args[0])
    if not (isinstance(o, tuple) and o[0] == "adt"):
        raise Undecided("is_none_or on undecided option")
    if o[2] == "None":
        return 1
    return it.invoke(args[1], [o[3][0]], depth)


def m_unwrap_or(it, args, callee, depth):
    o = deref_all(it, args[0])
    if not (isinstance(o, tuple) and o[0] == "adt"):
        raise Undecided("unwrap_or on undecided option")
    return args[1] if o[2] == "None" else o[3][0]


def m_int_try_from(it, args, callee, depth):
    """<uN/iN as TryFrom<uM/iM>>::try_from on a constant: Ok(v) when v fits the target type"""
    import re as _re2
    c_ = callee or {}
    p = " ".join([c_.get("path", ""), (c_.get("res") or {}).get("path", ""), c_.get("full", "")])
    m = _re2.search(r"TryFrom<([iu](?:8|16|32|64|128|size))> for ([iu](?:8|16|32|64|128|size))>::try_from", p)
    if not m:
        m = _re2.search(r"<([iu](?:8|16|32|64|128|size)) as core::convert::TryFrom<([iu](?:8|16|32|64|128|size))>>::try_from", p)
        if m:
            m = _re2.match(r"(\S+) (\S+)", "%s %s" % (m.group(2), m.group(1)))
    v = deref_all(it, args[0])
    if m and isinstance(v, tuple) and v[0] in ("sym", "symop"):
        # a symbolic value: whether it fits is not known; the outcome stays an opaque value (a later unwrap_or / match keeps it opaque)
        return ("symop", "try_from:" + m.group(2), v, None)
    if not m or not isinstance(v, int):
        return NotImplemented
    src, dst = m.group(1), m.group(2)
    sb, db = INT_BITS.get(src, 64), INT_BITS.get(dst, 64)
    val = v - (1 << sb) if src.startswith("i") and (v >> (sb - 1)) & 1 else v
    lo, hi = (-(1 << (db - 1)), (1 << (db - 1)) - 1) if dst.startswith("i") else (0, (1 << db) - 1)
    if lo <= val <= hi:
        return ("adt", "core::result::Result", "Ok", [val & ((1 << db) - 1)])
    return ("adt", "core::result::Result", "Err", [("adt", "core::num::TryFromIntError", "TryFromIntError", [])])


def _opt(it, v, what):
    o = deref_all(it, v)
    if not (isinstance(o, tuple) and o[0] == "adt" and o[2] in ("Some", "None", "Ok", "Err")):
        raise Undecided("%s on undecided value" % what)
    return o


OK_ = lambda x: ("adt", "core::result::Result", "Ok", [x])          # noqa: E731
ERR_ = lambda x: ("adt", "core::result::Result", "Err", [x])        # noqa: E731


def m_opt_combinator(name):
    """Option / Result combinators on decided values (closures are invoked through the interpreter)"""
    def f(it, args, callee, depth):
        o = _opt(it, args[0], name)
        good = o[2] in ("Some", "Ok")
        is_res = o[2] in ("Ok", "Err")
        if name == "flatten":
            return _opt(it, o[3][0], name) if good else o
        if name == "and_then":
            return it.invoke(args[1], [o[3][0]], depth) if good else o
        if name == "filter":
            return o if good and deref_all(it, it.invoke(args[1], [ref_to_value(o[3][0])], depth)) else NONE
        if name == "ok_or":
            return OK_(o[3][0]) if good else ERR_(args[1])
        if name == "ok_or_else":
            return OK_(o[3][0]) if good else ERR_(it.invoke(args[1], [], depth))
        if name == "map_or_else":
            return it.invoke(args[2], [o[3][0]], depth) if good else it.invoke(args[1], [] if not is_res else [o[3][0]], depth)
        if name == "or":
            return o if good else args[1]
        if name == "or_else":
            return o if good else it.invoke(args[1], [] if not is_res else [o[3][0]], depth)
        if name == "and":
            return args[1] if good else o
        if name == "res_map":
            return OK_(it.invoke(args[1], [o[3][0]], depth)) if good else o
        if name == "map_err":
            return o if good else ERR_(it.invoke(args[1], [o[3][0]], depth))
        if name == "is_ok":
            return int(good)
        if name == "is_err":
            return int(not good)
        if name == "err":
            return some(o[3][0]) if not good else NONE
        if name == "copied":
            return some(copy_val(deref_all(it, o[3][0]))) if good else o
        if name == "zip":
            o2 = _opt(it, args[1], name)
            return some(("tuple", [o[3][0], o2[3][0]])) if good and o2[2] == "Some" else NONE
        if name == "is_ok_and":
            return it.invoke(args[1], [o[3][0]], depth) if good else 0
        return NotImplemented
    return f


def ref_to_value(v):
    cell = Frame(None)
    cell.locals[0] = v
    return ("ref", cell, 0, [])


def m_opt_take(it, args, callee, depth):
    r = args[0]
    if not (isinstance(r, tuple) and r[0] == "ref"):
        raise Undecided("Option::take through %r" % (r,))
    old = it.load_ref(r)
    it._store(r[1], r[2], list(r[3]), NONE)
    return old


def m_int_op(name):
    """saturating / wrapping / abs_diff / pow on integer constants"""
    def f(it, args, callee, depth):
        vals = [deref_all(it, a) for a in args]
        import re as _re3
        c_ = callee or {}
        m = _re3.search(r"<impl ([iu](?:8|16|32|64|128|size))>", " ".join([c_.get("path", ""), c_.get("full", "")]))
        if not all(isinstance(v, int) for v in vals):
            if all(isinstance(v, int) or (isinstance(v, tuple) and v[0] in ("sym", "symop")) for v in vals) and len(vals) in (1, 2):
                # symbolic operands: an opaque operation of that name on that integer type
                return ("symop", name + (":" + m.group(1) if m else ""), vals[0], vals[1] if len(vals) == 2 else None)
            return NotImplemented
        ty = m.group(1) if m else "usize"
        bits = INT_BITS.get(ty, 64)
        signed = ty.startswith("i")
        lo, hi = (-(1 << (bits - 1)), (1 << (bits - 1)) - 1) if signed else (0, (1 << bits) - 1)

        def sg(x):
            x &= (1 << bits) - 1
            return x - (1 << bits) if signed and (x >> (bits - 1)) & 1 else x
        a = sg(vals[0])
        b = sg(vals[1]) if len(vals) > 1 else None
        if name.startswith("saturating_"):
            r = {"saturating_sub": lambda: a - b, "saturating_add": lambda: a + b, "saturating_mul": lambda: a * b}[name]()
            r = min(max(r, lo), hi)
        elif name.startswith("wrapping_"):
            r = {"wrapping_sub": lambda: a - b, "wrapping_add": lambda: a + b, "wrapping_mul": lambda: a * b}[name]()
        elif name == "abs_diff":
            r = abs(a - b)
        elif name in ("unsigned_abs", "abs"):
            r = abs(a)
        elif name in ("rem_euclid", "div_euclid"):
            if b == 0:
                raise Panic("%s by zero" % name)
            r = a % abs(b) if name == "rem_euclid" else (a - a % abs(b)) // b
        else:
            return NotImplemented
        return r & ((1 << bits) - 1)
    return f


def m_ord_minmax(which):
    """Ord::max / Ord::min on integer constants of a primitive type"""
    def f(it, args, callee, depth):
        a, b = deref_all(it, args[0]), deref_all(it, args[1])
        if not all(isinstance(v, int) and not isinstance(v, bool) for v in (a, b)):
            return NotImplemented
        import re as _re8
        c_ = callee or {}
        m = _re8.search(r"<([iu](?:8|16|32|64|128|size)) as core::cmp::Ord>", " ".join([c_.get("path", ""), c_.get("full", ""), ((c_.get("res") or {}).get("path", ""))]))
        if not m:
            return NotImplemented
        bits = INT_BITS.get(m.group(1), 64)

        def sg(v):
            v &= (1 << bits) - 1
            return v - (1 << bits) if m.group(1).startswith("i") and (v >> (bits - 1)) & 1 else v
        r = max(sg(a), sg(b)) if which == "max" else min(sg(a), sg(b))
        return r & ((1 << bits) - 1)
    return f


def m_range_contains_const(it, args, callee, depth):
    """(a..b).contains(&x) / (a..=b).contains(&x) on integer constants"""
    rg, x = deref_all(it, args[0]), deref_all(it, args[1])
    if not (isinstance(rg, tuple) and rg[0] == "adt" and "ops::range::Range" in rg[1] and isinstance(x, int) and not isinstance(x, bool)):
        return NotImplemented
    lo, hi = deref_all(it, rg[3][0]), deref_all(it, rg[3][1])
    if not (isinstance(lo, int) and isinstance(hi, int)):
        return NotImplemented
    import re as _re7
    c_ = callee or {}
    m = _re7.search(r"Range(?:Inclusive)?<([iu](?:8|16|32|64|128|size))>", " ".join([c_.get("path", ""), c_.get("full", ""), ((c_.get("res") or {}).get("path", ""))]))
    ty = m.group(1) if m else "i64"
    bits = INT_BITS.get(ty, 64)

    def sg(v):
        v &= (1 << bits) - 1
        return v - (1 << bits) if ty.startswith("i") and (v >> (bits - 1)) & 1 else v
    lo, hi, x = sg(lo), sg(hi), sg(x)
    return int(lo <= x <= hi) if rg[1].endswith("RangeInclusive") else int(lo <= x < hi)


def m_int_bytes(which):
    """{from,to}_{be,le}_bytes on integer constants"""
    def f(it, args, callee, depth):
        v = deref_all(it, args[0])
        import re as _re9
        c_ = callee or {}
        m = _re9.search(r"<impl ([iu](?:8|16|32|64|128|size))>", " ".join([c_.get("path", ""), c_.get("full", "")]))
        if not m:
            return NotImplemented
        nbytes = INT_BITS.get(m.group(1), 64) // 8
        if which.startswith("from"):
            if not (isinstance(v, tuple) and v[0] == "array" and len(v[1]) == nbytes):
                return NotImplemented
            bs = [deref_all(it, x) for x in v[1]]
            if not all(isinstance(b, int) and not isinstance(b, bool) for b in bs):
                return NotImplemented
            if which == "from_le":
                bs = bs[::-1]
            r = 0
            for b in bs:
                r = (r << 8) | (b & 0xFF)
            return r
        if not isinstance(v, int) or isinstance(v, bool):
            return NotImplemented
        bs = [(v >> (8 * (nbytes - 1 - i))) & 0xFF for i in range(nbytes)]
        return ("array", bs if which == "to_be" else bs[::-1])
    return f


def m_int_bits(name):
    """leading_zeros / trailing_zeros / count_ones on integer constants (the width from the impl the call resolves to)"""
    def f(it, args, callee, depth):
        v = deref_all(it, args[0])
        if not isinstance(v, int) or isinstance(v, bool):
            return NotImplemented
        import re as _re6
        c_ = callee or {}
        m = _re6.search(r"<impl ([iu](?:8|16|32|64|128|size))>", " ".join([c_.get("path", ""), c_.get("full", "")]))
        if not m:
            return NotImplemented
        bits = INT_BITS.get(m.group(1), 64)
        v &= (1 << bits) - 1
        if name == "count_ones":
            return bin(v).count("1")
        if name == "leading_zeros":
            return bits - v.bit_length()
        return bits if v == 0 else (v & -v).bit_length() - 1
    return f


def m_prim_op(op, assign=False):
    """operator traits on primitives reached through references (`&u8 & u8`, `*x |= y` on a `&mut u8`, `&a % &b` ...)"""
    def f(it, args, callee, depth):
        res = ((callee or {}).get("res") or {}).get("path", "")
        if res and res in it.prog.bodies:
            return NotImplemented
        import re as _re5
        c_ = callee or {}
        p = " ".join([c_.get("path", ""), c_.get("full", ""), res])
        m = _re5.search(r"<&?(?:mut )?([iuf](?:8|16|32|64|128|size)|bool) as core::ops::", p) or _re5.search(r"impl core::ops::[a-z]+::\w+(?:<&?\w+>)? for &?([iuf](?:8|16|32|64|128|size)|bool)>", p)
        if not m:
            return NotImplemented
        ty = m.group(1)
        a = deref_all(it, args[0])
        if op == "Not":
            if isinstance(a, int):
                bits = 1 if ty == "bool" else INT_BITS.get(ty, 64)
                return (~a) & ((1 << bits) - 1)
            return NotImplemented
        b = deref_all(it, args[1])
        ok = lambda x: isinstance(x, int) or (isinstance(x, tuple) and x[0] in ("sym", "symop", "f"))       # noqa: E731
        if not (ok(a) and ok(b)):
            return NotImplemented
        r = it.binop(op, a, b, ty)
        if assign:
            r0 = args[0]
            if not (isinstance(r0, tuple) and r0[0] == "ref"):
                return NotImplemented
            it._store(r0[1], r0[2], list(r0[3]), r)
            return ("tuple", [])
        return r
    return f


def m_default(it, args, callee, depth):
    """<T as Default>::default for primitives and Option"""
    c_ = callee or {}
    p = " ".join([c_.get("path", ""), c_.get("full", ""), (c_.get("res") or {}).get("path", "")])
    import re as _re4
    m = _re4.search(r"<([a-z0-9]+) as core::default::Default>::default", p)
    if m:
        t = m.group(1)
        if t in INT_BITS or t == "bool":
            return 0
        if t in ("f32", "f64"):
            return ("f", 0.0)
    if "<core::option::Option<" in p and "as core::default::Default>::default" in p:
        return NONE
    return NotImplemented


def m_range_len(it, args, callee, depth):
    v = deref_all(it, args[0])
    if isinstance(v, tuple) and v[0] == "adt" and v[1].endswith("ops::range::Range") and all(isinstance(x, int) for x in v[3]):
        return max(0, v[3][1] - v[3][0])
    return NotImplemented


def m_bool_then(it, args, callee, depth):
    c = deref_all(it, args[0])
    if not isinstance(c, int):
        raise Undecided("bool::then on undecided condition %r" % (c,))
    p = (callee or {}).get("path", "")
    if not c:
        return ("adt", "core::option::Option", "None", [])
    return ("adt", "core::option::Option", "Some", [args[1] if p.endswith("then_some") else it.invoke(args[1], [], depth)])


def m_unwrap_or_else(it, args, callee, depth):
    o = deref_all(it, args[0])
    if not (isinstance(o, tuple) and o[0] == "adt" and o[2] in ("Some", "None", "Ok", "Err")):
        raise Undecided("unwrap_or_else on undecided value")
    if o[2] in ("Some", "Ok"):
        return o[3][0]
    return it.invoke(args[1], [] if o[2] == "None" else [o[3][0]], depth)


def m_result_unwrap_or(it, args, callee, depth):
    o = deref_all(it, args[0])
    if isinstance(o, tuple) and o[0] == "symop" and o[1].startswith("try_from:"):
        return ("symop", "unwrap_or", o, deref_all(it, args[1]))
    if not (isinstance(o, tuple) and o[0] == "adt" and o[2] in ("Ok", "Err")):
        raise Undecided("Result::unwrap_or on undecided result")
    return o[3][0] if o[2] == "Ok" else args[1]


def m_result_ok(it, args, callee, depth):
    o = deref_all(it, args[0])
    if not (isinstance(o, tuple) and o[0] == "adt" and o[2] in ("Ok", "Err")):
        raise Undecided("Result::ok on undecided result")
    return ("adt", "core::option::Option", "Some", [o[3][0]]) if o[2] == "Ok" else ("adt", "core::option::Option", "None", [])


def m_unwrap(it, args, callee, depth):
    p = (callee or {}).get("path", "")
    if not p.endswith(("Option::<T>::unwrap", "Option::<T>::expect")):
        return NotImplemented
    o = deref_all(it, args[0])
    if not (isinstance(o, tuple) and o[0] == "adt"):
        raise Undecided("unwrap on undecided option")
    if o[2] == "None":
        raise Panic("unwrap on None")
    return o[3][0]


def m_ord_minmax(which):
    def f(it, args, callee, depth):
        a, b = deref_all(it, args[0]), deref_all(it, args[1])
        if isinstance(a, int) and isinstance(b, int):
            ty = ((callee or {}).get("args") or ["usize"])[0]
            bits = INT_BITS.get(ty, 64)

            def sg(x):
                return x - (1 << bits) if ty.startswith("i") and (x >> (bits - 1)) & 1 else x
            return (min if which == "min" else max)(a, b, key=sg)
        return NotImplemented
    return f


def m_checked(op):
    def f(it, args, callee, depth):
        p = (callee or {}).get("path", "")
        a, b = deref_all(it, args[0]), deref_all(it, args[1])
        ty = p.split("<impl ")[-1].split(">")[0] if "<impl " in p else "usize"
        symb = lambda x: isinstance(x, tuple) and x[0] in ("sym", "symop")       # noqa: E731
        if op == "sub" and not ty.startswith("i") and (symb(a) or symb(b)) and (symb(a) or isinstance(a, int)) and (symb(b) or isinstance(b, int)):
            # unsigned checked_sub on symbolic operands: Some(a - b) exactly when a >= b (the oracle / a fork decides)
            r_ = it.oracle("Ge", a, b)
            if r_ is None:
                raise Undecided("comparison Ge(%r, %r) not decided by the abstract domain" % (a, b))
            return some(("symop", "Sub", a, b)) if r_ else NONE
        if not (isinstance(a, int) and isinstance(b, int)):
            return NotImplemented
        bits = INT_BITS.get(ty, 64)
        signed = ty.startswith("i")

        def sg(x):
            return x - (1 << bits) if signed and (x >> (bits - 1)) & 1 else x
        r = {"sub": sg(a) - sg(b), "add": sg(a) + sg(b), "mul": sg(a) * sg(b)}[op]
        lo, hi = (-(1 << (bits - 1)), (1 << (bits - 1)) - 1) if signed else (0, (1 << bits) - 1)
        return some(r & ((1 << bits) - 1)) if lo <= r <= hi else NONE
    return f


def m_opt_as_mut(it, args, callee, depth):
    """Option::as_mut / as_ref: an Option of a reference to the payload"""
    r = args[0]
    while isinstance(r, tuple) and r[0] == "ref" and isinstance(it.load_ref(r), tuple) and it.load_ref(r)[0] == "ref":
        r = it.load_ref(r)
    o = it.load_ref(r) if isinstance(r, tuple) and r[0] == "ref" else None
    if not (isinstance(o, tuple) and o[0] == "adt" and o[2] in ("Some", "None")):
        raise Undecided("as_mut/as_ref on undecided option")
    if o[2] == "None":
        return NONE
    return some(("ref", r[1], r[2], list(r[3]) + [{"dc": "Some"}, {"f": 0, "n": "0", "of": "core::option::Option"}]))


def m_reverse(it, args, callee, depth):
    o = deref_all(it, args[0])
    if isinstance(o, tuple) and o[0] == "adt" and o[1] == "core::cmp::Ordering":
        return ordering({"Less": "Greater", "Greater": "Less", "Equal": "Equal"}[o[2]])
    raise Undecided("reverse of undecided ordering")


def m_ord_pred(name):
    def f(it, args, callee, depth):
        o = deref_all(it, args[0])
        if isinstance(o, tuple) and o[0] == "adt" and o[1] == "core::cmp::Ordering":
            v = o[2]
            return int({"is_lt": v == "Less", "is_gt": v == "Greater", "is_le": v != "Greater",
                        "is_ge": v != "Less", "is_eq": v == "Equal", "is_ne": v != "Equal"}[name])
        raise Undecided("%s of undecided ordering" % name)
    return f


def m_is_some(it, args, callee, depth):
    o = deref_all(it, args[0])
    if isinstance(o, tuple) and o[0] == "adt":
        return int(o[2] == "Some")
    raise Undecided("is_some of undecided option")


def m_is_none(it, args, callee, depth):
    o = deref_all(it, args[0])
    if isinstance(o, tuple) and o[0] == "adt":
        return int(o[2] == "None")
    raise Undecided("is_none of undecided option")


def m_identity(it, args, callee, depth):
    return args[0]


def m_deref_std(it, args, callee, depth):
    """Deref::deref: the crate's own impl (Slice2 -> Inner, ...) is interpreted; std smart pointers and references are the identity"""
    res = ((callee or {}).get("res") or {}).get("path", "")
    if res and res.startswith(("retrofire_", "<retrofire_")) or (res and "retrofire_" in res and it.prog.lookup(res) is not None):
        return NotImplemented
    return args[0]


def m_clone(it, args, callee, depth):
    res = ((callee or {}).get("res") or {}).get("path", "")
    if res and res in it.prog.bodies:
        return NotImplemented
    return copy_val(deref_all(it, args[0]))


def m_discriminant_value(it, args, callee, depth):
    v = deref_all(it, args[0])
    return it.discr_of(v, "isize")


def m_fn_call(it, args, callee, depth):
    f = args[0]
    tup = args[1]
    pos = tup[1] if isinstance(tup, tuple) and tup[0] == "tuple" else []
    return it.invoke(f, pos, depth)


def m_index(it, args, callee, depth):
    res = ((callee or {}).get("res") or {}).get("path", "")
    if res and res in it.prog.bodies:
        return NotImplemented
    r, i = args[0], args[1]
    while isinstance(r, tuple) and r[0] == "ref" and isinstance(it.load_ref(r), tuple) and it.load_ref(r)[0] == "ref":
        r = it.load_ref(r)              # &&[T; N] and the like: index the array behind the references
    if isinstance(r, tuple) and r[0] == "ref" and isinstance(i, int):
        tgt = it.load_ref(r)
        if isinstance(tgt, tuple) and tgt[0] == "array":
            if i >= len(tgt[1]):
                raise Panic("index out of bounds")
            if len(tgt) > 2 and tgt[2] == "window":
                return tgt[1][i]
            return ("ref", r[1], r[2], list(r[3]) + [{"ci": i, "ml": 0, "fe": False}])
    # array[range] with concrete bounds: a read-only window (a fresh array of references to the elements)
    iv = deref_all(it, i)
    if isinstance(r, tuple) and r[0] == "ref" and isinstance(iv, tuple) and iv[0] == "adt" and "ops::range::Range" in iv[1]:
        tgt = it.load_ref(r)
        if isinstance(tgt, tuple) and tgt[0] == "array" and all(isinstance(x, int) for x in iv[3]):
            n = len(tgt[1])
            kind = iv[1].rsplit("::", 1)[-1]
            lo, hi = {"Range": lambda: (iv[3][0], iv[3][1]), "RangeFrom": lambda: (iv[3][0], n), "RangeTo": lambda: (0, iv[3][0]),
                      "RangeFull": lambda: (0, n), "RangeInclusive": lambda: (iv[3][0], iv[3][1] + 1),
                      "RangeToInclusive": lambda: (0, iv[3][0] + 1)}.get(kind, lambda: (None, None))()
            if lo is not None:
                if lo > hi or hi > n:
                    raise Panic("slice index out of range")
                cell = Frame(None)
                # a WINDOW: its elements are aliases of the parent's elements (iteration/indexing yields those references themselves)
                if len(tgt) > 2 and tgt[2] == "window":
                    # a window of a window aliases the same underlying elements
                    cell.locals[0] = ("array", [tgt[1][k] for k in range(lo, hi)], "window")
                else:
                    cell.locals[0] = ("array", [("ref", r[1], r[2], list(r[3]) + [{"ci": k, "ml": 0, "fe": False}]) for k in range(lo, hi)], "window")
                return ("ref", cell, 0, [])
    return UNKNOWN


CF = "core::ops::control_flow::ControlFlow"


def m_try_branch(it, args, callee, depth):
    v = deref_all(it, args[0])
    if not (isinstance(v, tuple) and v[0] == "adt"):
        raise Undecided("Try::branch on undecided value")
    if v[2] in ("Ok", "Some"):
        return ("adt", CF, "Continue", [v[3][0]])
    return ("adt", CF, "Break", [v])


def m_from_residual(it, args, callee, depth):
    v = deref_all(it, args[0])
    if isinstance(v, tuple) and v[0] == "adt":
        return v
    return UNKNOWN


STD_MODELS = [
    # longer names first: the keys are matched as substrings
    ("Option::<core::option::Option<T>>::flatten", m_opt_combinator("flatten")),
    ("Option::<T>::and_then", m_opt_combinator("and_then")),
    ("Option::<T>::filter", m_opt_combinator("filter")),
    ("Option::<T>::ok_or_else", m_opt_combinator("ok_or_else")),
    ("Option::<T>::ok_or", m_opt_combinator("ok_or")),
    ("Option::<T>::map_or_else", m_opt_combinator("map_or_else")),
    ("Result::<T, E>::map_or_else", m_opt_combinator("map_or_else")),
    ("Option::<T>::or_else", m_opt_combinator("or_else")),
    ("Result::<T, E>::or_else", m_opt_combinator("or_else")),
    ("Option::<T>::or", m_opt_combinator("or")),
    ("Option::<T>::and", m_opt_combinator("and")),
    ("Option::<T>::zip", m_opt_combinator("zip")),
    ("Option::<&T>::copied", m_opt_combinator("copied")),
    ("Option::<&T>::cloned", m_opt_combinator("copied")),
    ("Option::<&mut T>::copied", m_opt_combinator("copied")),
    ("Option::<T>::take", m_opt_take),
    ("Result::<T, E>::map_err", m_opt_combinator("map_err")),
    ("Result::<T, E>::map", m_opt_combinator("res_map")),
    ("Result::<T, E>::and_then", m_opt_combinator("and_then")),
    ("Result::<T, E>::is_ok_and", m_opt_combinator("is_ok_and")),
    ("Result::<T, E>::is_ok", m_opt_combinator("is_ok")),
    ("Result::<T, E>::is_err", m_opt_combinator("is_err")),
    ("Result::<T, E>::err", m_opt_combinator("err")),
    ("ExactSizeIterator::len", m_range_len),
    ("core::ops::bit::BitAndAssign", m_prim_op("BitAnd", True)),
    ("core::ops::bit::BitOrAssign", m_prim_op("BitOr", True)),
    ("core::ops::bit::BitXorAssign", m_prim_op("BitXor", True)),
    ("core::ops::bit::ShlAssign", m_prim_op("Shl", True)),
    ("core::ops::bit::ShrAssign", m_prim_op("Shr", True)),
    ("core::ops::arith::AddAssign", m_prim_op("Add", True)),
    ("core::ops::arith::SubAssign", m_prim_op("Sub", True)),
    ("core::ops::arith::MulAssign", m_prim_op("Mul", True)),
    ("core::ops::arith::DivAssign", m_prim_op("Div", True)),
    ("core::ops::arith::RemAssign", m_prim_op("Rem", True)),
    ("core::ops::bit::BitAnd", m_prim_op("BitAnd")),
    ("core::ops::bit::BitOr", m_prim_op("BitOr")),
    ("core::ops::bit::BitXor", m_prim_op("BitXor")),
    ("core::ops::bit::Shl", m_prim_op("Shl")),
    ("core::ops::bit::Shr", m_prim_op("Shr")),
    ("core::ops::bit::Not", m_prim_op("Not")),
    ("core::ops::arith::Rem", m_prim_op("Rem")),
    ("core::default::Default>::default", m_default),
    (">::saturating_sub", m_int_op("saturating_sub")),
    (">::saturating_add", m_int_op("saturating_add")),
    (">::saturating_mul", m_int_op("saturating_mul")),
    (">::wrapping_sub", m_int_op("wrapping_sub")),
    (">::wrapping_add", m_int_op("wrapping_add")),
    (">::wrapping_mul", m_int_op("wrapping_mul")),
    (">::abs_diff", m_int_op("abs_diff")),
    ("cmp::Ord::max", m_ord_minmax("max")), ("cmp::Ord::min", m_ord_minmax("min")),
    ("ops::range::Range::<Idx>::contains", m_range_contains_const), ("ops::range::RangeInclusive::<Idx>::contains", m_range_contains_const),
    (">::from_be_bytes", m_int_bytes("from_be")), (">::from_le_bytes", m_int_bytes("from_le")),
    (">::to_be_bytes", m_int_bytes("to_be")), (">::to_le_bytes", m_int_bytes("to_le")),
    (">::leading_zeros", m_int_bits("leading_zeros")),
    (">::trailing_zeros", m_int_bits("trailing_zeros")),
    (">::count_ones", m_int_bits("count_ones")),
    ("ops::range::RangeInclusive::<Idx>::new", lambda it, args, callee, depth: ("adt", "core::ops::range::RangeInclusive", "RangeInclusive", [deref_all(it, args[0]), deref_all(it, args[1]), 0])),
    (">::unsigned_abs", m_int_op("unsigned_abs")),
    ("i32>::rem_euclid", m_int_op("rem_euclid")), ("i64>::rem_euclid", m_int_op("rem_euclid")), ("i32>::div_euclid", m_int_op("div_euclid")),
    ("i32>::abs", m_int_op("abs")), ("i64>::abs", m_int_op("abs")), ("i16>::abs", m_int_op("abs")), ("i8>::abs", m_int_op("abs")), ("isize>::abs", m_int_op("abs")),
    ("core::ops::try_trait::Try::branch", m_try_branch),
    ("core::ops::try_trait::FromResidual::from_residual", m_from_residual),
    ("core::ops::index::Index::index", m_index),
    ("core::ops::index::IndexMut::index_mut", m_index),
    ("PartialOrd::partial_cmp", m_partial_cmp),
    ("PartialOrd for f32>::partial_cmp", m_partial_cmp),
    ("f32>::total_cmp", m_total_cmp),
    ("f64>::total_cmp", m_total_cmp),
    ("core::cmp::PartialEq::eq", m_eq),
    ("core::cmp::PartialEq::ne", m_ne),
    ("Option::<T>::map_or", m_map_or),
    ("Option::<T>::map", m_map),
    ("Option::<T>::is_some_and", m_is_some_and),
    ("Option::<T>::is_none_or", m_is_none_or),
    ("Option::<T>::unwrap_or_else", m_unwrap_or_else),
    ("Result::<T, E>::unwrap_or_else", m_unwrap_or_else),
    ("bool>::then", m_bool_then),
    ("Option::<T>::unwrap_or", m_unwrap_or),
    ("Result::<T, E>::unwrap_or", m_result_unwrap_or),
    ("Result::<T, E>::ok", m_result_ok),
    ("::try_from", m_int_try_from),
    ("Option::<T>::unwrap", m_unwrap),
    ("Option::<T>::expect", m_unwrap),
    ("Option::<T>::is_some", m_is_some),
    ("Option::<T>::is_none", m_is_none),
    (">::checked_sub", m_checked("sub")),
    (">::checked_add", m_checked("add")),
    (">::checked_mul", m_checked("mul")),
    ("Option::<T>::as_mut", m_opt_as_mut),
    ("Option::<T>::as_ref", m_opt_as_mut),
    ("core::cmp::Ord::min", m_ord_minmax("min")),
    ("core::cmp::Ord::max", m_ord_minmax("max")),
    ("core::cmp::Ordering::reverse", m_reverse),
    ("core::cmp::Ordering::is_lt", m_ord_pred("is_lt")),
    ("core::cmp::Ordering::is_gt", m_ord_pred("is_gt")),
    ("core::cmp::Ordering::is_le", m_ord_pred("is_le")),
    ("core::cmp::Ordering::is_ge", m_ord_pred("is_ge")),
    ("core::cmp::Ordering::is_eq", m_ord_pred("is_eq")),
    ("core::cmp::Ordering::is_ne", m_ord_pred("is_ne")),
    ("core::clone::Clone::clone", m_clone),
    ("core::intrinsics::discriminant_value", m_discriminant_value),
    ("core::ops::function::Fn::call", m_fn_call),
    ("core::ops::function::FnMut::call_mut", m_fn_call),
    ("core::ops::function::FnOnce::call_once", m_fn_call),
    ("core::convert::Into::into", m_identity),
    ("core::convert::From::from", m_identity),
    ("core::ops::deref::Deref::deref", m_deref_std),
    ("core::borrow::Borrow::borrow", m_identity),
    ("core::convert::AsRef::as_ref", m_identity),
]
