"""Engine W — compile-fail witness corpus for C10.

Each file under /verif/witness/<class>/<entry>.rs is ONE library crate holding a
misuse/twin pair selected by `--cfg misuse` / `--cfg twin`. Lines that must be
rejected carry a trailing `//~ ERR` marker. Header directives:

    //@ class: <misuse class>
    //@ entry: <API entry point>
    //@ expect: E0308 E0277        (accepted error codes on marked lines)
    //@ requires: fp               (skip in feature configs lacking it)

Verdict per pair (decided by rustc's type checker, nothing is executed):
  * twin   : must compile (0 errors)            else -> corpus needs maintenance
  * misuse : must NOT compile                   else -> VIOLATION
             strict mode additionally demands every error sit on a marked line
             with an expected code (used when authoring the corpus).
"""
import json
import os
import shutil
import subprocess
import tempfile
from concurrent.futures import ThreadPoolExecutor

from . import common

WITNESS_DIR = os.path.join(common.VERIF, "witness")

FEATURES = {
    "ws": ["std", "mm", "fp"],
    "std": ["std", "fp"],
    "libm": ["libm", "fp"],
    "mm": ["mm", "fp"],
    "none": [],
}
CARGO_FLAGS = {
    "ws": ["-p", "retrofire-core", "-p", "retrofire-geom", "-F", "retrofire-core/std,retrofire-core/mm,retrofire-geom/std"],
    "std": ["-p", "retrofire-core", "-p", "retrofire-geom", "-F", "retrofire-core/std,retrofire-geom/std"],
    "libm": ["-p", "retrofire-core", "-F", "retrofire-core/libm"],
    "mm": ["-p", "retrofire-core", "-F", "retrofire-core/mm"],
    "none": ["-p", "retrofire-core"],
}


def build_meta(config, tgt):
    env = dict(os.environ, CARGO_TARGET_DIR=tgt, CARGO_NET_OFFLINE="true",
               RUSTFLAGS="-Awarnings")
    r = subprocess.run(["cargo", "+nightly", "check", "--offline", "-q"] + CARGO_FLAGS[config],
                       cwd=common.REPO, env=env, stdout=subprocess.PIPE,
                       stderr=subprocess.PIPE, text=True)
    if r.returncode != 0:
        raise common.Infra("cargo check failed (%s):\n%s" % (config, r.stderr[-3000:]))
    deps = os.path.join(tgt, "debug", "deps")
    metas = {}
    for fn in os.listdir(deps):
        if fn.endswith(".rmeta"):
            name = fn[3:].rsplit("-", 1)[0]
            metas[name] = os.path.join(deps, fn)
    if "retrofire_core" not in metas:
        raise common.Infra("no retrofire_core rmeta produced")
    return deps, metas


def parse_witness(path):
    meta = {"class": "?", "entry": "?", "expect": [], "requires": [], "marked": []}
    with open(path) as f:
        for i, line in enumerate(f, 1):
            s = line.strip()
            if s.startswith("//@"):
                k, _, v = s[3:].partition(":")
                k = k.strip()
                v = v.strip()
                if k in ("expect", "requires"):
                    meta[k] = v.replace(",", " ").split()
                else:
                    meta[k] = v
            if "//~ ERR" in line:
                meta["marked"].append(i)
    return meta


def compile_one(path, cfg, deps, metas, workdir):
    out = os.path.join(workdir, "%s-%s.rmeta" % (abs(hash(path)), cfg))
    cmd = ["rustc", "+nightly", "--edition", "2021", "--crate-type", "lib",
           "--crate-name", "witness", "--emit=metadata", "-o", out,
           "--error-format=json", "--cfg", cfg, "-Awarnings",
           "--extern", "retrofire_core=" + metas["retrofire_core"],
           "-L", "dependency=" + deps, path]
    if "retrofire_geom" in metas:
        cmd[-1:-1] = ["--extern", "retrofire_geom=" + metas["retrofire_geom"]]
    r = subprocess.run(cmd, stdout=subprocess.PIPE, stderr=subprocess.PIPE, text=True)
    errs = []
    for line in r.stderr.splitlines():
        if not line.startswith("{"):
            continue
        try:
            d = json.loads(line)
        except ValueError:
            continue
        if d.get("level") != "error":
            continue
        code = (d.get("code") or {}).get("code")
        prim = [s for s in d.get("spans", []) if s.get("is_primary")]
        if not prim and code is None:
            continue  # "aborting due to ..."
        errs.append({"code": code, "lines": [s["line_start"] for s in prim],
                     "msg": d.get("message", "")[:200]})
    try:
        os.remove(out)
    except OSError:
        pass
    return r.returncode, errs


def all_witnesses():
    res = []
    for root, _dirs, files in os.walk(WITNESS_DIR):
        for fn in sorted(files):
            if fn.endswith(".rs"):
                res.append(os.path.join(root, fn))
    return sorted(res)


def generated_witnesses(config, workdir):
    """Witness pairs derived from the repository itself: every public conversion/packing method that `Color` defines for ONE
    colour space only (read off the type-checked program's impl blocks) must be uncallable on a colour of every other space
    with the same channel representation. New methods get their witnesses without anybody editing the corpus."""
    import re
    from . import facts
    prog = facts.program(config)
    table = {}
    for p, b in prog.bodies.items():
        m = re.match(r"retrofire_core::math::color::Color::<(\[[a-z0-9]+; \d+\]), math::color::(\w+)>::(\w+)$", p)
        if m and b.kind == "AssocFn" and b.d.get("pub") and b.d.get("argc") == 1:
            table.setdefault((m.group(1), m.group(2)), set()).add(m.group(3))
    generic = set()
    for p, b in prog.bodies.items():
        m = re.match(r"retrofire_core::math::color::Color::<(.+)>::(\w+)$", p)
        if m and b.kind == "AssocFn" and not re.match(r"\[[a-z0-9]+; \d+\], math::color::\w+$", m.group(1)):
            generic.add(m.group(2))          # defined for a family of representations/spaces: not space-specific
    out = []
    gdir = os.path.join(workdir, "generated", "color")
    os.makedirs(gdir, exist_ok=True)
    for (repr_, space), meths in sorted(table.items()):
        others = sorted({sp for (r2, sp) in table if r2 == repr_ and sp != space})
        for meth in sorted(meths - generic):
            for sp in others:
                if meth in table.get((repr_, sp), set()):
                    continue
                name = "%s_on_%s_%s.rs" % (meth, sp.lower(), repr_.strip("[]").replace("; ", "x"))
                path = os.path.join(gdir, name)
                with open(path, "w") as f:
                    f.write("//@ class: colour conversions (generated from the impl blocks)\n"
                            "//@ entry: Color<%s, %s>::%s called on a Color<%s, %s>\n//@ expect: E0599\n"
                            "use retrofire_core::math::color::{Color, Rgb, Rgba, Hsl, Hsla, LinRgb};\n\n"
                            "#[cfg(misuse)]\npub fn f(c: Color<%s, %s>) {\n    let _ = c.%s(); //~ ERR\n}\n\n"
                            "#[cfg(twin)]\npub fn f(c: Color<%s, %s>) {\n    let _ = c.%s();\n}\n"
                            % (repr_, space, meth, repr_, sp, repr_, sp, meth, repr_, space, meth))
                out.append(path)
    return out


def run_corpus(config, strict=False):
    """Returns list of result dicts, one per pair."""
    tgt = tempfile.mkdtemp(prefix="c10-tgt-", dir="/tmp")
    work = tempfile.mkdtemp(prefix="c10-work-", dir="/tmp")
    try:
        deps, metas = build_meta(config, tgt)
        feats = FEATURES[config]
        files = all_witnesses()
        jobs = []
        for p in files:
            m = parse_witness(p)
            if any(r not in feats for r in m["requires"]):
                continue
            jobs.append((p, m))
        for p in generated_witnesses(config, work):
            jobs.append((p, parse_witness(p)))

        def job(pm):
            p, m = pm
            rc_t, e_t = compile_one(p, "twin", deps, metas, work)
            rc_m, e_m = compile_one(p, "misuse", deps, metas, work)
            rel = os.path.relpath(p, WITNESS_DIR) if p.startswith(WITNESS_DIR) else os.path.relpath(p, work)
            res = {"file": rel, "class": m["class"], "entry": m["entry"],
                   "config": config, "twin_errors": e_t, "misuse_errors": e_m,
                   "expect": m["expect"], "marked": m["marked"]}
            if rc_t != 0 or e_t:
                res["verdict"] = "twin-broken"
            elif rc_m == 0 and not e_m:
                res["verdict"] = "misuse-compiles"
            else:
                on_marked = [e for e in e_m if any(l in m["marked"] for l in e["lines"])]
                good = [e for e in on_marked if not m["expect"] or e["code"] in m["expect"]]
                stray = [e for e in e_m if e not in on_marked]
                if good and not stray:
                    res["verdict"] = "rejected-as-expected"
                else:
                    res["verdict"] = "rejected-unexpected"
            return res

        with ThreadPoolExecutor(max_workers=16) as ex:
            results = list(ex.map(job, jobs))
        return results
    finally:
        shutil.rmtree(tgt, ignore_errors=True)
        shutil.rmtree(work, ignore_errors=True)
