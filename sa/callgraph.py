"""Call graph over the dumped bodies of one configuration (over-approximating).

Edges: direct calls by (resolved) def path; unresolved trait-method calls fan
out to every local impl of that trait method; closures are attached to the body
that creates them (a closure that is created is assumed to be called); function
items passed as values are assumed called. Calls leaving the dumped crates are
leaves and are classified by the std tables in panics.py.
"""
from . import facts


def local_callees(prog, body):
    """Yield (kind, target_body, bb, term_or_stmt) for every local body `body` may invoke."""
    # closures created here
    for bi, si, s in body.stmts():
        if s["k"] == "Assign" and s["rv"]["k"] == "Aggregate" and s["rv"].get("closure"):
            tb = prog.bodies.get(s["rv"]["closure"])
            if tb is not None:
                yield ("closure", tb, bi, s)
        # fn items used as values
        if s["k"] == "Assign":
            for o in _operands_of_rvalue(s["rv"]):
                f = o.get("k", {}).get("fn") if "k" in o else None
                if f:
                    for tb in _resolve(prog, f):
                        yield ("fnptr", tb, bi, s)
    for bi, ti, t in body.terms():
        if t["k"] != "Call":
            continue
        c = t.get("callee")
        if c:
            for tb in _resolve(prog, c):
                yield ("call", tb, bi, t)
        for a in t["args"]:
            f = a.get("k", {}).get("fn") if "k" in a else None
            if f:
                for tb in _resolve(prog, f):
                    yield ("fnptr", tb, bi, t)
            cl = a.get("k", {}).get("closure") if "k" in a else None
            if cl and cl in prog.bodies:
                yield ("closure", prog.bodies[cl], bi, t)


def _operands_of_rvalue(rv):
    for k in ("a", "b"):
        if k in rv and isinstance(rv[k], dict):
            yield rv[k]
    for o in rv.get("ops", []):
        yield o


_impl_index = {}


def _resolve(prog, c):
    """Local bodies a callee record may denote."""
    if c.get("res"):
        b = prog.bodies.get(c["res"]["path"])
        return [b] if b is not None else []
    b = prog.bodies.get(c["path"])
    if b is not None:
        # a trait method with a default body, or a plain fn
        return [b]
    # Unresolved trait-method call: Self is a type parameter / projection / impl Trait of the
    # caller (Instance::try_resolve resolves every concrete receiver). The code that runs is
    # either a closure (analysed where it is created), a std adaptor, or caller-supplied; we do
    # not fan out to unrelated impls. Recorded by callers as "generic dispatch".
    return []


def _impls_of(prog, c):
    key = id(prog)
    if key not in _impl_index:
        idx = {}
        for b in prog.bodies.values():
            if b.impl_trait and b.kind == "AssocFn":
                m = b.path.rsplit("::", 1)[-1]
                idx.setdefault((b.impl_trait, m), []).append(b)
        _impl_index[key] = idx
    m = c["path"].rsplit("::", 1)[-1]
    return _impl_index[key].get((c["trait"], m), [])


def reachable(prog, roots, stop=()):
    """Transitive closure; returns dict body path -> (parent path, kind, where) for path reconstruction."""
    seen = {}
    work = []
    for r in roots:
        seen[r.path] = None
        work.append(r)
    while work:
        b = work.pop()
        if b.path in stop:
            continue
        for kind, tb, bi, node in local_callees(prog, b):
            if tb.path not in seen:
                seen[tb.path] = (b.path, kind, b.where(bi, None))
                work.append(tb)
    return seen


def path_to(seen, target):
    out = []
    cur = target
    while cur is not None and seen.get(cur) is not None:
        par, kind, where = seen[cur]
        out.append("%s --%s@%s--> %s" % (short(par), kind, where, short(cur)))
        cur = par
    return list(reversed(out))


def short(p):
    return p.replace("retrofire_core::", "core::").replace("retrofire_geom::", "geom::")
