"""What parse_obj does with face indices, by abstract interpretation over scripted inputs (C14 K-mesh precondition / running maximum /
F-order).

parse_obj is interpreted end to end - its own line loop, the item dispatch, parse_face / parse_indices / parse_index, the bookkeeping of the
largest indices, the final range checks and Mesh::new - on an input given as a SCRIPT of lines whose tokens are abstract values:
an item keyword is a byte string, a number token parses (`str::parse`) to a symbol, an index group `p/t/n` splits (`str::split('/')`) into
its parts. Face indices are symbols j<face><corner> (one-based on input: the token parses to j + 1); a scenario fixes for every symbol
whether it is a valid index and how the symbols are ordered - comparisons are decided from a numeric representative of the scenario,
the values stay symbolic. Uninterpreted: the byte source / Peekable / String / str tokenisation (the script stands for them).

Specification, for every scenario:
  * no panic (in particular not Mesh::new's index assertion)
  * all position indices < number of `v` lines: Ok(builder) whose faces are exactly the position indices of the `f` lines, in order, taken from the
    FIRST '/'-field of each group, and whose vertices are the `v` lines in order
  * otherwise Err(IndexOutOfBounds(_, i)) with i the largest offending index; texture-coordinate indices likewise against the `vt` lines
Independent of where and how the maximum is kept (inside the `f` arm, in a pass after the loop, max() / if / fold) and how the final checks
are written."""
from . import absint as A, symalg as S, constfold as CF

G = "retrofire_geom::io::"
RES = "core::result::Result"


class Script:
    def __init__(self, lines):
        self.lines = lines          # list of token lists
        self.pos = 0                # index of the line the next `extend` consumes
        self.cur = None


def tok_item(s):
    return ("str", "item", s)


def tok_num(sym):
    return ("str", "num", sym)


def tok_group(parts):
    """parts: list of symbols / None (empty part)"""
    return ("str", "group", parts)


def run(prog, lines, rep_point):
    """interpret parse_obj on the scripted input; -> (interpreter, result value | None, panic | None)"""
    sc = Script(lines)

    def m_peek(it, args, c, d):
        return A.some(("sym", "BYTE")) if sc.pos < len(sc.lines) else A.NONE

    def m_extend_string(it, args, c, d):
        # `line.extend(<bytes up to the newline>)`: the next scripted line becomes the content of `line`
        sc.cur = sc.lines[sc.pos] if sc.pos < len(sc.lines) else []
        sc.pos += 1
        return ("tuple", [])

    def m_split_ws(it, args, c, d):
        return ("iter", S.ListIt([S.ref_to(t) for t in (sc.cur or [])]))          # tokens are `&str`

    def tok(it, v):
        v = A.deref_all(it, v)
        if not (isinstance(v, tuple) and v[0] == "str"):
            raise A.Undecided("a string operation on something that is not a scripted token (%r)" % (str(v)[:60],))
        return v

    def m_as_bytes(it, args, c, d):
        t = tok(it, args[0])
        if t[1] != "item":
            raise A.Undecided("as_bytes() of a token that is not an item keyword")
        cell = A.Frame(None)
        cell.locals[0] = ("array", [ord(ch) for ch in t[2]])
        return ("ref", cell, 0, [])

    def m_split_char(it, args, c, d):
        t = tok(it, args[0])
        sep = A.deref_all(it, args[1])
        if t[1] != "group" or sep != ord("/"):
            raise A.Undecided("split(%r) of a %s token" % (sep, t[1]))
        return ("iter", S.ListIt([S.ref_to(("str", "part", p)) for p in t[2]]))

    def m_is_empty(it, args, c, d):
        t = tok(it, args[0])
        if t[1] == "part":
            return int(t[2] is None)
        return 0

    def m_starts_with(it, args, c, d):
        t = tok(it, args[0])
        pat = A.deref_all(it, args[1])
        if isinstance(pat, int):
            first = t[2][0] if (t[1] == "item" and t[2]) else None
            return int(first is not None and ord(first) == pat)
        raise A.Undecided("starts_with(%r)" % (pat,))

    def m_parse(it, args, c, d):
        t = tok(it, args[0])
        ga = " ".join((c or {}).get("args") or []) + " " + (c or {}).get("full", "")
        if t[1] == "num":
            return ("adt", RES, "Ok", [t[2]])
        if t[1] == "part" and t[2] is not None:
            # a one-based index token: the parsed number is j + 1
            return ("adt", RES, "Ok", [("symop", "Add", t[2], 1)])
        if t[1] == "group" and len(t[2]) == 1 and t[2][0] is not None:
            return ("adt", RES, "Ok", [("symop", "Add", t[2][0], 1)])
        return ("adt", RES, "Err", [("sym", "ParseError:" + ga[:20])])

    def orc(op, a, b):
        try:
            x, y = S.num_eval(a, rep_point), S.num_eval(b, rep_point)
        except Exception:
            return None
        return {"Lt": x < y, "Le": x <= y, "Gt": x > y, "Ge": x >= y, "Eq": x == y, "Ne": x != y}.get(op)

    def m_ord_max(which):
        def f(it, args, c, d):
            a, b = A.deref_all(it, args[0]), A.deref_all(it, args[1])

            def key(v):
                # Option<usize>: None < Some(_)
                if isinstance(v, tuple) and v[0] == "adt" and v[2] in ("Some", "None"):
                    return (0, 0.0) if v[2] == "None" else (1, S.num_eval(A.deref_all(it, v[3][0]), rep_point))
                return (1, S.num_eval(v, rep_point))
            try:
                ka, kb = key(a), key(b)
            except Exception:
                return NotImplemented
            if which == "max":
                return b if kb >= ka else a          # Ord::max returns the second argument on ties
            return a if ka <= kb else b
        return f

    def m_ord_cmp(op):
        """PartialOrd::lt / le / gt / ge on integers and Option<integer> (None < Some(_)), decided at the scenario's representative"""
        def f(it, args, c, d):
            a, b = A.deref_all(it, args[0]), A.deref_all(it, args[1])

            def key(v):
                if isinstance(v, tuple) and v[0] == "adt" and v[2] in ("Some", "None"):
                    return (0, 0.0) if v[2] == "None" else (1, S.num_eval(A.deref_all(it, v[3][0]), rep_point))
                return (1, S.num_eval(v, rep_point))
            try:
                ka, kb = key(a), key(b)
            except Exception:
                return NotImplemented
            return int({"lt": ka < kb, "le": ka <= kb, "gt": ka > kb, "ge": ka >= kb}[op])
        return f

    def m_str_eq(it, args, c, d):
        """a token compared with a string literal: the only literal an index part is ever compared with is the empty string"""
        a, b = A.deref_all(it, args[0]), A.deref_all(it, args[1])
        t = a if (isinstance(a, tuple) and a[0] == "str") else (b if (isinstance(b, tuple) and b[0] == "str") else None)
        if t is None:
            return NotImplemented
        neg = (c or {}).get("path", "").endswith("::ne")
        if t[1] == "part":
            r = t[2] is None
            return int(r != neg)
        raise A.Undecided("comparison of a %s token with a string" % t[1])

    def m_transpose(it, args, c, d):
        o = A.deref_all(it, args[0])
        if not (isinstance(o, tuple) and o[0] == "adt" and o[2] in ("Some", "None")):
            raise A.Undecided("transpose on undecided option")
        if o[2] == "None":
            return ("adt", RES, "Ok", [A.NONE])
        r = A.deref_all(it, o[3][0])
        if not (isinstance(r, tuple) and r[0] == "adt" and r[2] in ("Ok", "Err")):
            raise A.Undecided("transpose of Some(<undecided result>)")
        return ("adt", RES, "Ok", [A.some(r[3][0])]) if r[2] == "Ok" else r
    models = {"Peekable::<I>::peek": m_peek, "Iterator::peekable": lambda it, a, c, d: a[0], "IntoIterator::into_iter": S.m_into_iter,
              "alloc::string::String::new": lambda it, a, c, d: ("sym", "LINE"), "alloc::string::String::clear": lambda it, a, c, d: ("tuple", []),
              "alloc::string::String as core::iter::traits::collect::Extend<char>>::extend": m_extend_string,
              "alloc::string::String as core::ops::deref::Deref>::deref": lambda it, a, c, d: a[0],
              "str>::split_ascii_whitespace": m_split_ws, "str>::as_bytes": m_as_bytes, "str>::split": m_split_char, "str>::is_empty": m_is_empty,
              "str>::parse": m_parse, "str>::starts_with": m_starts_with, "core::cmp::Ord::max": m_ord_max("max"), "core::cmp::Ord::min": m_ord_max("min"),
              "core::fmt::Arguments": lambda it, a, c, d: ("sym", "FMT"), "core::cmp::PartialEq::eq": m_str_eq, "core::cmp::PartialEq::ne": m_str_eq,
              "for str>::eq": m_str_eq, "core::cmp::PartialOrd::lt": m_ord_cmp("lt"), "core::cmp::PartialOrd::le": m_ord_cmp("le"),
              "core::cmp::PartialOrd::gt": m_ord_cmp("gt"), "core::cmp::PartialOrd::ge": m_ord_cmp("ge"), "Option::<core::result::Result<T, E>>::transpose": m_transpose}
    it = S.interp(prog, models=models, oracle=orc)
    it.max_depth = 80
    src = ("iter", S.ListIt([]))
    try:
        r = A.deref_all(it, it.call_body(prog.body(G + "parse_obj"), [src], env={}))
        return it, r, None
    except A.Panic as e:
        return it, None, str(e)


def scenarios():
    """(name, lines, representative valuation, expected) ; expected = ('ok', faces [[sym..]..], n_verts) | ('err', largest offending symbol)"""
    j = lambda f, k: S.sym("j%d%d" % (f, k))       # noqa: E731
    u = lambda f, k: S.sym("u%d%d" % (f, k))       # noqa: E731
    v_line = lambda n: [tok_item("v")] + [tok_num(S.sym("c%d%s" % (n, a))) for a in "xyz"]       # noqa: E731
    vt_line = lambda n: [tok_item("vt")] + [tok_num(S.sym("t%d%s" % (n, a))) for a in "uv"]       # noqa: E731
    f_line = lambda f, uv=False: [tok_item("f")] + [tok_group([j(f, k)] + ([u(f, k)] if uv else [])) for k in range(3)]      # noqa: E731
    cm = [tok_item("#"), tok_item("comment")]
    out = []
    out.append(("three vertices, one face, all indices valid", [v_line(0), v_line(1), v_line(2), f_line(0)],
                {"j00": 0, "j01": 2, "j02": 1}, ("ok", [[j(0, 0), j(0, 1), j(0, 2)]], 3)))
    out.append(("the face line comes first", [f_line(0), cm, v_line(0), v_line(1), v_line(2)],
                {"j00": 2, "j01": 0, "j02": 1}, ("ok", [[j(0, 0), j(0, 1), j(0, 2)]], 3)))
    out.append(("one corner index equals the number of vertices", [v_line(0), v_line(1), f_line(0)],
                {"j00": 0, "j01": 2, "j02": 1}, ("err", j(0, 1))))
    out.append(("the FIRST of two faces has the invalid (and largest) index", [v_line(0), v_line(1), v_line(2), f_line(0), cm, f_line(1)],
                {"j00": 1, "j01": 0, "j02": 7, "j10": 2, "j11": 1, "j12": 0}, ("err", j(0, 2))))
    out.append(("two invalid indices, the larger one in the second face", [v_line(0), f_line(0), v_line(1), f_line(1)],
                {"j00": 0, "j01": 5, "j02": 1, "j10": 1, "j11": 0, "j12": 9}, ("err", j(1, 2))))
    out.append(("a face but no vertex at all", [f_line(0)], {"j00": 0, "j01": 0, "j02": 0}, ("err", None)))
    out.append(("empty input", [], {}, ("ok", [], 0)))
    out.append(("only vertices", [v_line(0), v_line(1)], {}, ("ok", [], 2)))
    out.append(("faces with texture indices, all valid", [v_line(0), vt_line(0), v_line(1), v_line(2), vt_line(1), f_line(0, True)],
                {"j00": 0, "j01": 1, "j02": 2, "u00": 1, "u01": 0, "u02": 1}, ("ok", [[j(0, 0), j(0, 1), j(0, 2)]], 3)))
    out.append(("a texture index beyond the vt lines", [v_line(0), vt_line(0), v_line(1), v_line(2), f_line(0, True)],
                {"j00": 0, "j01": 1, "j02": 2, "u00": 0, "u01": 3, "u02": 0}, ("err", u(0, 1))))
    f4_line = [tok_item("f")] + [tok_group([j(0, k)]) for k in range(3)] + [tok_group([S.sym("j03")])]
    out.append(("a face line with a fourth index that is out of range", [v_line(0), v_line(1), v_line(2), f4_line],
                {"j00": 0, "j01": 1, "j02": 2, "j03": 8}, ("no-panic",)))
    out.append(("a face line with four valid indices", [v_line(0), v_line(1), v_line(2), v_line(3), f4_line],
                {"j00": 0, "j01": 1, "j02": 2, "j03": 3}, ("no-panic",)))
    n_ = lambda f, k: S.sym("n%d%d" % (f, k))       # noqa: E731
    vn_line = lambda n: [tok_item("vn")] + [tok_num(S.sym("m%d%s" % (n, a))) for a in "xyz"]       # noqa: E731
    f3_line = lambda f: [tok_item("f")] + [tok_group([j(f, k), u(f, k), n_(f, k)]) for k in range(3)]      # noqa: E731
    fpn_line = lambda f: [tok_item("f")] + [tok_group([j(f, k), None, n_(f, k)]) for k in range(3)]      # noqa: E731
    base3 = {"j00": 0, "j01": 1, "j02": 2, "u00": 0, "u01": 1, "u02": 0, "n00": 0, "n01": 0, "n02": 0}
    out.append(("p/t/n groups, everything valid", [v_line(0), v_line(1), v_line(2), vt_line(0), vt_line(1), vn_line(0), f3_line(0)], dict(base3),
                ("ok", [[j(0, 0), j(0, 1), j(0, 2)]], 3)))
    out.append(("p/t/n groups, a normal index beyond the vn lines (texture indices valid)", [v_line(0), v_line(1), v_line(2), vt_line(0), vt_line(1), vn_line(0), f3_line(0)],
                dict(base3, n01=1), ("err", n_(0, 1))))
    out.append(("p/t/n groups, a texture index beyond the vt lines (normal indices valid)", [v_line(0), v_line(1), v_line(2), vt_line(0), vn_line(0), vn_line(1), vn_line(2), f3_line(0)],
                dict(base3, u01=0, u02=2, n00=2, n01=1), ("err", u(0, 2))))
    out.append(("p//n groups (no texture index), a normal index beyond the vn lines", [v_line(0), v_line(1), v_line(2), vt_line(0), vt_line(1), vt_line(2), vn_line(0), fpn_line(0)],
                {"j00": 0, "j01": 1, "j02": 2, "n00": 0, "n01": 2, "n02": 0}, ("err", n_(0, 1))))
    return out


def check(prog):
    """-> (n_scenarios, findings [(key, message)])"""
    findings, seen = [], set()

    def add(key, msg):
        if key not in seen:
            seen.add(key)
            findings.append((key, msg))
    scs = scenarios()
    for name, lines, point, want in scs:
        it, r, panic = run(prog, lines, {k: float(v) for k, v in point.items()})
        if panic is not None:
            add("panic", "parse_obj panics when %s (%s): a parse error must come back as Err, and the builder handed out must build" % (name, panic[:100]))
            continue
        if not (isinstance(r, tuple) and r[0] == "adt" and r[2] in ("Ok", "Err")):
            raise A.Undecided("parse_obj returned %r" % (str(r)[:80],))
        if want[0] == "no-panic":
            continue
        if want[0] == "ok":
            if r[2] != "Ok":
                add("rejects-valid", "parse_obj rejects an input whose indices are all valid (%s): %s" % (name, str(A.deref_all(it, r[3][0]))[:80]))
                continue
            faces, verts = builder_mesh(prog, it, r[3][0])
            if faces != want[1]:
                add("faces", "when %s the mesh faces are %s, expected the position indices %s (first '/'-field of each group, in order)"
                    % (name, [[str(x)[8:-2] if isinstance(x, tuple) and x[0] == "sym" else str(x)[:20] for x in f] for f in faces], [[x[1] for x in f] for f in want[1]]))
            if verts != want[2]:
                add("verts", "when %s the mesh has %s vertices, the input has %d `v` lines" % (name, verts, want[2]))
        else:
            if r[2] != "Err":
                add("precondition", "parse_obj returns Ok when %s: the builder it hands out cannot build (Mesh::new's index assertion fires in build())" % name)
                continue
            e = A.deref_all(it, r[3][0])
            ok = isinstance(e, tuple) and e[0] == "adt" and e[2] == "IndexOutOfBounds"
            if ok and want[1] is not None:
                payload = [A.deref_all(it, x) for x in e[3]]
                ok = any(same(x, want[1]) for x in payload)
            if not ok:
                add("error-value", "when %s parse_obj fails with %s, expected IndexOutOfBounds(_, %s) naming the largest offending index"
                    % (name, str(e)[:80], want[1][1] if want[1] else "the index"))
    return len(scs), findings


def same(a, b):
    if a == b:
        return True
    try:
        return S.to_poly(a) == S.to_poly(b)
    except S.NotPolynomial:
        return False


def builder_mesh(prog, it, b):
    """(faces as lists of index values, vertex count) of a Builder / Mesh value"""
    b = A.deref_all(it, b)
    mesh = b
    if isinstance(b, tuple) and b[0] == "adt" and b[2] == "Builder":
        mesh = A.deref_all(it, b[3][0])
    mf = prog.adts["retrofire_core::geom::mesh::Mesh"]["variants"][0]["fields"]
    fs, vs = A.deref_all(it, mesh[3][mf.index("faces")]), A.deref_all(it, mesh[3][mf.index("verts")])
    faces = []
    for f in fs[1]:
        f = A.deref_all(it, f)
        arr = A.deref_all(it, f[3][0])
        faces.append([strip_one(A.deref_all(it, x)) for x in arr[1]])
    return faces, len(vs[1])


def strip_one(v):
    """(j + 1) - 1 -> j"""
    try:
        p = S.to_poly(v)
    except S.NotPolynomial:
        return v
    if len(p) == 1:
        (m, c), = p.items()
        if len(m) == 1 and c == 1:
            return S.sym(m[0])
    return v
