"""C10 — mixing spaces, bases or units is a compile-time error.

Decided by rustc's type checker over the witness corpus (engine W)."""
from . import witness, common


def check(rep, args):
    configs = ["ws"] if rep.tier == "quick" else ["ws", "std", "libm", "mm", "none"]
    rep.configs = configs
    total = discharged = 0
    samples = []
    classes = set()
    notes = []
    broken = []
    for cfg in configs:
        results = witness.run_corpus(cfg, strict=args.strict)
        for r in results:
            total += 1
            classes.add(r["class"])
            where = "witness/%s [%s]" % (r["file"], cfg)
            rep.inst("W.pair", r["file"], config=cfg, verdict=r["verdict"])
            if r["verdict"] == "twin-broken":
                broken.append("%s: the well-typed twin no longer compiles (corpus needs maintenance): %s"
                              % (where, r["twin_errors"][:2]))
                continue
            if r["verdict"] == "misuse-compiles":
                rep.violate("C10.W", "misuse-compiles|%s" % r["file"], where,
                            "misuse program type-checks: class '%s', entry point '%s'"
                            % (r["class"], r["entry"]), config=cfg)
                continue
            if r["verdict"] == "rejected-unexpected":
                msg = "%s: rejected, but not with the expected code/line: %s" % (where, r["misuse_errors"][:3])
                if args.strict:
                    raise common.Infra(msg)
                notes.append(msg)
            discharged += 1
            if len(samples) < 8 and cfg == configs[0]:
                samples.append({"pair": r["file"], "class": r["class"], "entry": r["entry"],
                                "misuse_rejected_with": sorted({e["code"] or "?" for e in r["misuse_errors"]}),
                                "twin": "compiles"})
    if broken:
        # a violation found elsewhere in the corpus is still a violation; with none, the corpus cannot vouch for the tree
        if not rep.violations:
            raise common.Infra(broken[0])
        notes.extend(broken)
    rep.floor("W.pairs", total // len(configs), 2, "witness pairs")
    gen = sum(1 for i in rep.instances if i.get("config") == "ws" and str(i.get("what", "")).startswith("generated/"))
    # 30 generated pairs confirmed on the pinned tree (config ws); a conversion that stops being space-specific drops out of the
    # generated set, which is exactly the change this class exists to notice
    rep.floor("W.generated", gen, 30, "colour-conversion witnesses generated from the impl blocks (config ws)")
    cov = {
        "obligations": total,
        "discharged": discharged,
        "checker_cmd": "./check C10 --tier %s  (rustc +nightly --emit=metadata --cfg misuse|twin per witness, against the rmeta of /repo's working tree)" % rep.tier,
        "trusted_base": ["rustc type checker (nightly 1.97)", "cargo metadata build of retrofire-core from the working tree",
                         "corpus is representative of the misuse classes named in the property"],
        "samples": samples,
        "classes": sorted(classes),
        "notes": notes,
        "explanation": "each obligation is one misuse/twin pair in one feature configuration: misuse must be rejected by the type checker, twin must compile",
    }
    return "proof", cov, []
