"""C01 — pipeline shape of render() (necessary conditions only; says nothing
about pixel values).

Decides (engine D):
  S1  stage order: vertex shader -> ClipVert::new -> collect; triangles are
      assembled from those vertices; the only consumer of the assembled
      triangles is view_frustum::clip; the raster loop iterates the clip output;
      no path reaches tri_fill without passing clip
  S2  paired perspective division: in the per-vertex closure, the position
      vec3(x, y, 1.0) (x, y = components 0, 1 of the clip position) and the
      attribute are both z_div'ed by component 3 (w) of that SAME position
  S3  viewport: the divided position - and only it - goes through
      to_screen.apply, to_screen being render()'s own parameter
  S4  per-fragment correction: Scanline::fragments maps every (pos, var) to
      var.z_div(pos.z()); both Target impls obtain fragments only via fragments()
  S5  front doors: Batch::render and Camera::render are one unconditional call
      to render::render forwarding their own fields / to_world.then(world_to_project)
      and the camera's viewport
  S6  tri_fill receives the per-vertex closure's output (screen-space vertices)
Leaves: everything numerical (interpolation, rounding, fan completeness, axis
orientation).
"""
from . import facts, guards as G, term as T, common
from .render_common import RENDER, FB_RASTERIZE, BUF_RASTERIZE, capture_terms


def s(t):
    return T.strip(t, sites=False, refs=True)


def _only_sorts(prog, name):
    """a local helper that does nothing to the slice it is given but sort it (sort_* of std on its first parameter):
    reordering the clip output is what depth sorting is"""
    b = prog.lookup(name)
    if b is None:
        return False
    sl_ = T.Slicer(b)
    touched = False
    for _bi, t in b.calls():
        for a in t["args"]:
            at = T.strip(sl_.operand(a), sites=True, refs=True)
            if T.contains(at, lambda q: q == ("param", 1)):
                nm = t["callee"]["path"]
                last = nm.rsplit("::", 1)[-1]
                if last.startswith("sort"):
                    touched = True
                elif any(k in nm for k in ("Deref", "len", "iter", "as_mut", "as_ref", "is_empty")) or _only_sorts(prog, nm):
                    continue
                else:
                    return False
    return touched


def check_config(rep, prog):
    cfg = prog.config
    rn = prog.body(RENDER)
    sl = T.Slicer(rn)

    def one_call(pred, what):
        cs = [(bi, t) for bi, t in rn.calls(pred)]
        rep.floor("C01.%s.%s" % (what, cfg), len(cs), 1, what)
        return cs
    clip = one_call(lambda c: facts.callee_matches(c, "view_frustum::clip"), "view_frustum::clip call")
    fill = one_call(lambda c: facts.callee_matches(c, "raster::tri_fill"), "tri_fill call")
    # ---- S1
    cb, ct = clip[0]
    tris_t = s(sl.operand(ct["args"][0]))
    # tris = collect(map(iter(tris_param), closure#1)) where closure#1 indexes the shaded verts
    shaded = None
    ok_tris = False
    col = [x for x in T.walk(tris_t) if x[0] == "call" and x[1].split(" => ")[0].endswith("Iterator::collect")]
    if col:
        m = col[0][2][0]
        if m[0] == "call" and m[1].split(" => ")[0].endswith("Iterator::map"):
            src, clos = m[2][0], m[2][1]
            from_param = T.contains(src, lambda q: q == ("param", 1))
            if clos[0] == "agg" and clos[1].startswith("closure:") and clos[2]:
                shaded = s(clos[2][0])
                ok_tris = from_param
    # shaded verts = collect(map(map(cloned(iter(verts_param)), vertex-shader closure), ClipVert::new))
    ok_verts = False
    if shaded is not None:
        sv = shaded
        has_new = T.contains(sv, lambda q: q[0] == "fnptr" and "ClipVert::<V>::new" in q[1])
        vs_cl = [q for q in T.walk(sv) if q[0] == "agg" and q[1].startswith("closure:")]
        vs_ok = False
        for q in vs_cl:
            cbody = prog.bodies.get(q[1][8:])
            if cbody and any(True for _b, _t in cbody.calls(lambda c: facts.callee_matches(c, "VertexShader::shade_vertex"))):
                vs_ok = True
        from_verts = T.contains(sv, lambda q: q == ("param", 2))
        # order: map(shade) is INSIDE map(ClipVert::new)
        order = False
        for q in T.walk(sv):
            if q[0] == "call" and q[1].split(" => ")[0].endswith("Iterator::map") and q[2][1][0] == "fnptr" and "ClipVert::<V>::new" in q[2][1][1]:
                order = T.contains(q[2][0], lambda r: r[0] == "agg" and r[1].startswith("closure:"))
        ok_verts = has_new and vs_ok and from_verts and order
    rep.inst("C01.S1", "clip input = triangles assembled (by index) from collect(verts.map(shade_vertex).map(ClipVert::new)): tris=%s verts=%s" % (ok_tris, ok_verts), config=cfg)
    if not (ok_tris and ok_verts):
        rep.violate("C01.S1", "S1|assembly", rn.where(cb, None), "view_frustum::clip is not fed the triangles assembled from the vertex shader's output wrapped by ClipVert::new", config=cfg)
    clip_out = s(sl.operand(ct["args"][1]))
    fb, ft = fill[0]
    dom = rn.dominates(cb, fb)
    # the loop feeding tri_fill iterates the clip output
    arg = s(sl.operand(ft["args"][0]))
    from_clip = T.contains(arg, lambda q: q[0] == "call" and "into_iter" in q[1] and s(q[2][0]) == clip_out)
    rep.inst("C01.S1", "clip dominates tri_fill: %s; tri_fill's triangle derives from iterating the clip output: %s" % (dom, from_clip), config=cfg)
    if not (dom and from_clip):
        rep.violate("C01.S1", "S1|order", rn.where(fb, None), "a triangle can reach tri_fill without having passed view_frustum::clip (dominates=%s, from clip output=%s)" % (dom, from_clip), config=cfg)
    # nothing else consumes / produces the clip output between clip and the loop except depth_sort
    for bi, t in rn.calls():
        for a in t["args"]:
            at = s(sl.operand(a))
            if at == clip_out and bi not in (cb,):
                name = t["callee"]["path"]
                if not any(k in name for k in ("render::depth_sort", "into_iter", "DerefMut::deref_mut", "Deref::deref")) and not _only_sorts(prog, name):
                    rep.violate("C01.S1", "S1|clip-output-touched|%s" % name, rn.where(bi, None),
                                "the clip output is passed to %s between clipping and rasterisation" % name, config=cfg)

    # ---- S2 / S3 / S6: WHAT the per-vertex stage computes, by symbolic interpretation of whatever callable is mapped over the
    # clipped triangle's vertices on the way to tri_fill (a closure, a closure calling a helper, a function pointer): on a symbolic
    # clip vertex (x, y, z, w; attribute a) and a symbolic 4x4 viewport matrix M it must return
    #   position = M . (x/w, y/w, 1/w, 1)  (rows 0..2)      attribute = a / w
    # as identities of rational functions. The shape of the code is irrelevant.
    from . import symalg as S, absint as A
    map_calls = [q for q in T.walk(arg) if q[0] == "call" and q[1].split(" => ")[0].endswith("array::<impl [T; N]>::map")]
    ok6 = bool(map_calls) and arg == map_calls[0]
    rep.inst("C01.S6", "tri_fill receives vs.map(<per-vertex stage>) of the clipped triangle: %s" % ok6, config=cfg)
    if not ok6:
        rep.violate("C01.S6", "S6|fill-input", rn.where(fb, None), "tri_fill is not given the per-vertex stage's output for the clipped triangle's vertices", config=cfg)
    else:
        F = s(map_calls[0][2][1])
        M = S.matrix("m", 4)
        mcell = A.Frame(None)
        mcell.locals[0] = M
        mref = ("ref", mcell, 0, [])
        fval = None
        if F[0] == "agg" and F[1].startswith("closure:"):
            ups = []
            cbody = prog.bodies.get(F[1][8:])
            byref = {i_: br for i_, (_n, br) in (T.Slicer(cbody).upvars().items() if cbody is not None else [])}
            for ci_, cap in enumerate(F[2]):
                ct_ = s(cap)
                if T.contains(ct_, lambda q: q == ("param", 5)) or ct_ == ("param", 5):
                    ups.append(mref if byref.get(ci_, True) else M)
                else:
                    ups.append(A.UNKNOWN)
            fval = ("closure", F[1][8:], ups, {})
        elif F[0] == "fnptr":
            fval = ("fn", F[1].split(" => ")[-1], None)
        if fval is None:
            raise common.Infra("C01.S2: the per-vertex stage mapped over the clipped vertices is neither a closure nor a function (%s)" % T.show(F)[:80])
        CV = "retrofire_core::render::clip::ClipVert"
        VEC = "retrofire_core::math::vec::Vector"
        cva = prog.adt(CV)
        names = cva["variants"][0]["fields"]
        vals = {"pos": ("adt", VEC, "Vector", [("array", [S.sym(c) for c in "xyzw"]), ("tuple", [])]), "outcode": A.UNKNOWN, "attrib": S.sym("a")}
        cv = ("adt", CV, cva["variants"][0]["name"], [vals.get(n, A.UNKNOWN) for n in names])
        it = S.interp(prog, models={"f32>::recip": S.m_recip})
        try:
            out = A.deref_all(it, it.invoke(fval, [cv], 0))
            if not (isinstance(out, tuple) and out[0] == "adt" and out[1].endswith("geom::Vertex")):
                raise A.Undecided("the stage returns %r" % (out,))
            vnames = prog.adt(out[1])["variants"][0]["fields"]
            pos = [S.to_ratio(c) for c in S.components(it, out[3][vnames.index("pos")])]
            att = S.to_ratio(A.deref_all(it, out[3][vnames.index("attrib")]))
        except (A.Undecided, A.Panic, S.NotPolynomial, KeyError, ValueError) as e:
            raise common.Infra("C01.S2: the per-vertex stage could not be interpreted symbolically (%s)" % e)
        from fractions import Fraction
        one = {(): Fraction(1)}
        W = {("w",): Fraction(1)}
        ok_att = S.ratio_eq(att, ({("a",): Fraction(1)}, W))
        ok_pos = len(pos) == 3
        for r_ in range(3):
            if not ok_pos:
                break
            num = {}
            for c_, sy in enumerate(("x", "y", None, None)):
                pass
            # M[r] . (x/w, y/w, 1/w, 1) = (m_r0 x + m_r1 y + m_r2 + m_r3 w) / w
            num = {("m%d0" % r_, "x"): Fraction(1), ("m%d1" % r_, "y"): Fraction(1), ("m%d2" % r_,): Fraction(1), ("m%d3" % r_, "w"): Fraction(1)}
            num = {tuple(sorted(k_)): v_ for k_, v_ in num.items()}
            ok_pos = ok_pos and S.ratio_eq(pos[r_], (num, W))
        rep.inst("C01.S2", "per-vertex stage on a symbolic clip vertex: attribute = a / w: %s" % ok_att, config=cfg)
        rep.inst("C01.S3", "per-vertex stage on a symbolic clip vertex: position = to_screen . (x/w, y/w, 1/w, 1): %s" % ok_pos, config=cfg)
        if not ok_att:
            rep.violate("C01.S2", "S2|paired-division", rn.where(fb, None),
                        "the per-vertex stage does not divide the attribute by the w of the same clip-space position (attribute = %s / %s)" % (att[0], att[1]), config=cfg)
        if not ok_pos:
            rep.violate("C01.S3", "S3|viewport", rn.where(fb, None),
                        "the per-vertex stage does not produce to_screen.apply((x/w, y/w, 1/w)) with render()'s own viewport matrix (got %s)" % ([(str(p_[0])[:80], str(p_[1])[:40]) for p_ in pos][:1],), config=cfg)

    # ---- S4: what Scanline::fragments yields, by symbolic interpretation: Frag{pos, var / pos.z} for every item of self.vs
    fr = prog.body("retrofire_core::render::raster::Scanline::<V>::fragments")
    PT = "retrofire_core::math::point::Point"
    SLN = "retrofire_core::render::raster::Scanline"
    sla = prog.adt(SLN)
    items = [("tuple", [("adt", PT, "Point", [("array", [S.sym("px%d" % k), S.sym("py%d" % k), S.sym("pz%d" % k)]), ("tuple", [])]), S.sym("v%d" % k)]) for k in range(2)]
    slv = {"y": 0, "xs": A.UNKNOWN, "vs": ("iter", S.ListIt(items))}
    line = ("adt", SLN, sla["variants"][0]["name"], [slv.get(n, A.UNKNOWN) for n in sla["variants"][0]["fields"]])
    from fractions import Fraction
    fnames = prog.adt("retrofire_core::render::raster::Frag")["variants"][0]["fields"]

    def run_frags(orc):
        cell = A.Frame(None)
        cell.locals[0] = A.copy_val(line)
        cell.locals[0][3][sla["variants"][0]["fields"].index("vs")] = ("iter", S.ListIt([A.copy_val(x) for x in items]))
        it_ = S.interp(prog, oracle=orc)
        fr_it = it_.call_body(fr, [("ref", cell, 0, [])], env={"V": "f32"})
        return it_, [A.deref_all(it_, x) for x in S._drain(S.as_iter(it_, fr_it), it_, 0)]
    ok4 = True
    try:
        outs = S.explore(run_frags, max_paths=64)
        for trace, (it, frs) in outs:
            okp = len(frs) == 2
            for k, f in enumerate(frs):
                if not okp:
                    break
                ppos = S.components(it, f[3][fnames.index("pos")])
                var = S.to_ratio(A.deref_all(it, f[3][fnames.index("var")]))
                okp = [S.to_poly(c) for c in ppos] == [{("p%s%d" % (c, k),): Fraction(1)} for c in "xyz"] \
                    and S.ratio_eq(var, ({("v%d" % k,): Fraction(1)}, {("pz%d" % k,): Fraction(1)}))
            if okp:
                continue
            # a path with another formula: does a fragment with a positive reciprocal depth follow it?
            feasible = False
            import itertools
            for zs in itertools.product((1e-6, 1e-4, 0.01, 0.5, 1.0, 100.0), repeat=2):
                pt = {}
                for k in range(2):
                    pt.update({"px%d" % k: 3.5 + k, "py%d" % k: 2.5, "pz%d" % k: zs[k], "v%d" % k: 0.7})
                try:
                    if S.trace_holds(trace, pt):
                        feasible = True
                        break
                except S.NotNumeric:
                    break
            if feasible or not trace:
                ok4 = False
            else:
                raise common.Infra("C01.S4: Scanline::fragments has a path [%s] with another formula that no sample depth follows; rule needs re-confirmation" % S.fmt_trace(trace)[:160])
    except (A.Undecided, A.Panic, S.NotPolynomial, KeyError, ValueError, IndexError) as e:
        raise common.Infra("C01.S4: Scanline::fragments could not be interpreted symbolically (%s)" % e)
    rep.inst("C01.S4", "fragments() yields Frag{pos, var / pos.z} for every (pos, var) of self.vs, in order: %s" % ok4, config=cfg)
    if not ok4:
        rep.violate("C01.S4", "S4|fragments", fr.where(), "Scanline::fragments does not divide every varying by the interpolated 1/w (pos.z) of the same fragment", config=cfg)
    for path in (FB_RASTERIZE, BUF_RASTERIZE):
        fam = prog.family(path)
        fam_i = [prog.inlined(b, depth=2, pred=lambda cb: not cb.is_pub) for b in fam]
        uses_frag = any(True for b in fam_i for _b, _t in b.calls(lambda c: c["path"].endswith("Scanline::<V>::fragments")))
        raw_vs = False
        for b in fam_i:
            bsl = T.Slicer(b)
            for _bi, t in b.calls():
                for a in t["args"]:
                    at = bsl.operand(a)
                    if T.contains(at, lambda q: q[0] == "field" and q[2] == "Scanline.vs"):
                        raw_vs = True
        rep.inst("C01.S4", "%s obtains fragments via Scanline::fragments(): %s, touches Scanline.vs directly: %s" % (path.split("<")[1].split(" as")[0], uses_frag, raw_vs), config=cfg)
        if not uses_frag or raw_vs:
            rep.violate("C01.S4", "S4|target|%s" % path, fam[0].where(), "a Target impl bypasses Scanline::fragments() (perspective correction would be skipped)", config=cfg)

    # ---- S5 front doors
    for path, fields in (("retrofire_core::render::batch::Batch::<Vtx, Uni, Shd, Tgt, Ctx>::render",
                          ["Batch.faces", "Batch.verts", "Batch.shader", "Batch.uniform", "Batch.viewport", "Batch.target", "Batch.ctx"]),):
        bs = [b for p, b in prog.bodies.items() if p.startswith("retrofire_core::render::batch::Batch::<") and p.endswith("::render")]
        rep.floor("C01.S5.batch.%s" % cfg, len(bs), 1, "Batch::render")
        b = bs[0]
        bsl = T.Slicer(b)
        rc = [(bi, t) for bi, t in b.calls(lambda c: c["path"] == RENDER)]
        ok = len(rc) == 1 and all(b.dominates(rc[0][0], r) for r in G.return_blocks(b))
        if ok:
            got = [T.fields_in(s(bsl.operand(a))) for a in rc[0][1]["args"]]
            ok = all(any(f == want for f in fl) for fl, want in zip(got, fields))
        rep.inst("C01.S5", "Batch::render = one unconditional render::render(faces, verts, shader, uniform, viewport, target, ctx) of its own fields: %s" % ok, config=cfg)
        if not ok:
            rep.violate("C01.S5", "S5|batch", b.where(), "Batch::render does not forward its own fields, in order, to render::render", config=cfg)
    cams = [b for p, b in prog.bodies.items() if p.startswith("retrofire_core::render::cam::Camera::<M>::render") and b.kind == "AssocFn"]
    rep.floor("C01.S5.camera.%s" % cfg, len(cams), 1, "Camera::render")
    b = cams[0]
    bsl = T.Slicer(b)
    rc = [(bi, t) for bi, t in b.calls(lambda c: c["path"] == RENDER)]
    ok = len(rc) == 1 and all(b.dominates(rc[0][0], r) for r in G.return_blocks(b))
    if ok:
        a = [s(bsl.operand(x)) for x in rc[0][1]["args"]]
        tf_ok = T.contains(a[3], lambda q: q[0] == "call" and q[1].split(" => ")[0].endswith("::then")
                           and s(q[2][0]) == ("param", 4) and bool(T.calls_in(q[2][1], "Camera::<M>::world_to_project")))
        vp_ok = a[4] == ("field", ("param", 1), "Camera.viewport")
        passthru = T.contains(a[0], lambda q: q == ("param", 2)) and T.contains(a[1], lambda q: q == ("param", 3)) and a[2] == ("param", 5) \
            and a[5] == ("param", 7) and a[6] == ("param", 8)
        ok = tf_ok and vp_ok and passthru
    rep.inst("C01.S5", "Camera::render = render::render(tris, verts, shader, (to_world.then(world_to_project()), uniform), self.viewport, target, ctx): %s" % ok, config=cfg)
    if not ok:
        rep.violate("C01.S5", "S5|camera", b.where(), "Camera::render does not forward to_world.then(world_to_project()) and its own viewport to render::render", config=cfg)


def check(rep, args):
    configs = ["ws"] if rep.tier == "quick" else common.ALL_CONFIGS
    rep.configs = configs
    for cfg in configs:
        check_config(rep, facts.program(cfg))
    cov = {
        "explanation": "provenance / dominance rules on render(), its per-vertex closure, Scanline::fragments, the Target impls and the two front doors: "
                       "the shape every perspective-correct pipeline must have; no pixel value is decided",
        "evaluations": len(rep.instances),
        "distinct_nontrivial": len({i["what"] for i in rep.instances}),
        "rules": ["S1", "S2", "S3", "S4", "S5", "S6"],
    }
    return "other", cov, ["numeric image equality, the pixel-centre rule, fan completeness and viewport orientation are not decided"]
