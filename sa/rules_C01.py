"""C01 — pipeline shape of render() (necessary conditions only; says nothing
about pixel values).

Decides (engine D):
  S1  stage order: vertex shader -> ClipVert::new -> collect; triangles are
      assembled from those vertices; the only consumer of the assembled
      triangles is view_frustum::clip; the raster loop iterates the clip output;
      no path reaches tri_fill without passing clip
  S2  paired perspective division: in the per-vertex closure, the position
      vec3(x, y, 1.0) (x, y = components 0, 1 of the clip position) and the
      attribute are both z_div'ed by component 3 (w) of that SAME position
  S3  viewport: the divided position - and only it - goes through
      to_screen.apply, to_screen being render()'s own parameter
  S4  per-fragment correction: Scanline::fragments maps every (pos, var) to
      var.z_div(pos.z()); both Target impls obtain fragments only via fragments()
  S5  front doors: Batch::render and Camera::render are one unconditional call
      to render::render forwarding their own fields / to_world.then(world_to_project)
      and the camera's viewport
  S6  tri_fill receives the per-vertex closure's output (screen-space vertices)
Leaves: everything numerical (interpolation, rounding, fan completeness, axis
orientation).
"""
from . import facts, guards as G, term as T, common
from .render_common import RENDER, FB_RASTERIZE, BUF_RASTERIZE, capture_terms


def s(t):
    return T.strip(t, sites=False, refs=True)


def _only_sorts(prog, name):
    """a local helper that does nothing to the slice it is given but sort it (sort_* of std on its first parameter):
    reordering the clip output is what depth sorting is"""
    b = prog.lookup(name)
    if b is None:
        return False
    sl_ = T.Slicer(b)
    touched = False
    for _bi, t in b.calls():
        for a in t["args"]:
            at = T.strip(sl_.operand(a), sites=True, refs=True)
            if T.contains(at, lambda q: q == ("param", 1)):
                nm = t["callee"]["path"]
                last = nm.rsplit("::", 1)[-1]
                if last.startswith("sort"):
                    touched = True
                elif any(k in nm for k in ("Deref", "len", "iter", "as_mut", "as_ref", "is_empty")) or _only_sorts(prog, nm):
                    continue
                else:
                    return False
    return touched


def check_config(rep, prog):
    cfg = prog.config
    rn = prog.body(RENDER)
    from . import symalg as S, absint as A, render_sem as RSEM

    # ---- S1 (structural half): no path reaches tri_fill without having passed the clipper. In render() with its private helpers
    # inlined, every tri_fill call is dominated by a call of the frustum clipper (the `view_frustum::clip` wrapper or `Clip::clip`
    # itself). This sees a by-pass under a size / count threshold that the reference scene below does not trip.
    rin = prog.inlined(rn, depth=3, pred=lambda cb: (not cb.is_pub) and cb.file == rn.file)
    live = set(rin.reachable(0))
    is_clip = lambda c: facts.callee_matches(c, "view_frustum::clip", "render::clip::Clip::clip", "as render::clip::Clip>::clip")  # noqa: E731
    clips = [bi for bi, _t in rin.calls(is_clip) if bi in live]
    fills = [bi for bi, _t in rin.calls(lambda c: facts.callee_matches(c, "raster::tri_fill")) if bi in live]
    rep.floor("C01.view_frustum::clip call.%s" % cfg, len(clips), 1, "calls of the frustum clipper in render()")
    rep.floor("C01.tri_fill call.%s" % cfg, len(fills), 1, "tri_fill call")
    for fb_ in fills:
        # every path from the entry to this tri_fill passes one of the clip calls
        by_pass = fb_ in rin.reachable(0, removed_blocks=set(clips), unwind=False)
        rep.inst("C01.S1", "tri_fill at %s is reachable only through a call of the frustum clipper: %s" % (rin.where(fb_, None), not by_pass), config=cfg)
        if by_pass:
            rep.violate("C01.S1", "S1|order", rin.where(fb_, None), "a triangle can reach tri_fill on a path that does not pass the frustum clipper", config=cfg)

    # ---- S1 (behavioural half) / S2 / S3 / S6 by interpreting render() on the reference scene of sa/render_sem.py with a SYMBOLIC viewport
    # matrix: every vertex shaded once in order; a visible triangle reaches tri_fill with position = to_screen . (x/w, y/w, 1/w, 1) as a
    # function of the matrix entries and attribute = a / w of the same w; a hidden triangle never does; a partly visible one only inside
    # the viewport. The shape of render() (closures, helpers, iterator chains) is irrelevant.
    def pipeline_block():
        try:
            n, findings = RSEM.check(prog)
        except A.Undecided as e:
            raise common.Infra("C01.S1: render() could not be interpreted on the reference scene (%s)" % e)
        mine = [f for f in findings if f[0] == "pipeline"]
        rule_of = {"vertex-stage": "S1", "assembly": "S1", "clip-bypassed": "S1", "dropped": "S1", "panic": "S1", "position": "S3", "viewport": "S3", "paired-division": "S2"}
        for rule, txt in (("S1", "every vertex shaded once; visible triangles assembled by index reach tri_fill, hidden ones never, clipped ones inside the viewport"),
                          ("S2", "attribute = a / w with the w of the same vertex's position"),
                          ("S3", "position = to_screen . (x/w, y/w, 1/w, 1) as a function of the symbolic viewport matrix")):
            rep.inst("C01." + rule, "render() on the reference scene (%d settings): %s: %s" % (n, txt, not any(rule_of.get(f[1]) == rule for f in mine)), config=cfg)
        for _c, key, msg in mine:
            rule = rule_of.get(key, "S1")
            rep.violate("C01." + rule, "%s|%s" % (rule, key), rn.where(), msg, config=cfg)
        # which control paths of render() and of the batch clipper the scenes took (information: the scenes are samples of input SHAPES)
        for path, got, tot, miss in prog.__dict__.get("_render_sem_cover", []):
            rep.inst("C01.S1", "scene coverage of %s: %d of %d blocks on entry-to-return paths executed by some scene%s"
                     % (path.replace("retrofire_core::", ""), got, tot, "; not executed: " + ", ".join(m.split("/")[-1] for m in miss[:8]) if miss else ""), config=cfg)
    rep.guard(pipeline_block)

    # ---- S4: what Scanline::fragments yields, by symbolic interpretation: Frag{pos, var / pos.z} for every item of self.vs
    fr = prog.body("retrofire_core::render::raster::Scanline::<V>::fragments")
    PT = "retrofire_core::math::point::Point"
    SLN = "retrofire_core::render::raster::Scanline"
    sla = prog.adt(SLN)
    items = [("tuple", [("adt", PT, "Point", [("array", [S.sym("px%d" % k), S.sym("py%d" % k), S.sym("pz%d" % k)]), ("tuple", [])]), S.sym("v%d" % k)]) for k in range(2)]
    slv = {"y": 0, "xs": A.UNKNOWN, "vs": ("iter", S.ListIt(items))}
    line = ("adt", SLN, sla["variants"][0]["name"], [slv.get(n, A.UNKNOWN) for n in sla["variants"][0]["fields"]])
    from fractions import Fraction
    fnames = prog.adt("retrofire_core::render::raster::Frag")["variants"][0]["fields"]

    def run_frags(orc):
        cell = A.Frame(None)
        cell.locals[0] = A.copy_val(line)
        cell.locals[0][3][sla["variants"][0]["fields"].index("vs")] = ("iter", S.ListIt([A.copy_val(x) for x in items]))
        it_ = S.interp(prog, oracle=orc)
        fr_it = it_.call_body(fr, [("ref", cell, 0, [])], env={"V": "f32"})
        return it_, [A.deref_all(it_, x) for x in S._drain(S.as_iter(it_, fr_it), it_, 0)]
    ok4 = True
    try:
        outs = S.explore(run_frags, max_paths=64)
        for trace, (it, frs) in outs:
            okp = len(frs) == 2
            for k, f in enumerate(frs):
                if not okp:
                    break
                ppos = S.components(it, f[3][fnames.index("pos")])
                var = S.to_ratio(A.deref_all(it, f[3][fnames.index("var")]))
                okp = [S.to_poly(c) for c in ppos] == [{("p%s%d" % (c, k),): Fraction(1)} for c in "xyz"] \
                    and S.ratio_eq(var, ({("v%d" % k,): Fraction(1)}, {("pz%d" % k,): Fraction(1)}))
            if okp:
                continue
            # a path with another formula: does a fragment with a positive reciprocal depth follow it?
            feasible = False
            import itertools
            for zs in itertools.product((1e-6, 1e-4, 0.01, 0.5, 1.0, 100.0), repeat=2):
                pt = {}
                for k in range(2):
                    pt.update({"px%d" % k: 3.5 + k, "py%d" % k: 2.5, "pz%d" % k: zs[k], "v%d" % k: 0.7})
                try:
                    if S.trace_holds(trace, pt):
                        feasible = True
                        break
                except S.NotNumeric:
                    break
            if feasible or not trace:
                ok4 = False
            else:
                raise common.Infra("C01.S4: Scanline::fragments has a path [%s] with another formula that no sample depth follows; rule needs re-confirmation" % S.fmt_trace(trace)[:160])
    except (A.Undecided, A.Panic, S.NotPolynomial, KeyError, ValueError, IndexError) as e:
        raise common.Infra("C01.S4: Scanline::fragments could not be interpreted symbolically (%s)" % e)
    rep.inst("C01.S4", "fragments() yields Frag{pos, var / pos.z} for every (pos, var) of self.vs, in order: %s" % ok4, config=cfg)
    if not ok4:
        rep.violate("C01.S4", "S4|fragments", fr.where(), "Scanline::fragments does not divide every varying by the interpolated 1/w (pos.z) of the same fragment", config=cfg)
    for path in (FB_RASTERIZE, BUF_RASTERIZE):
        fam = prog.family(path)
        fam_i = [prog.inlined(b, depth=2, pred=lambda cb: not cb.is_pub) for b in fam]
        uses_frag = any(True for b in fam_i for _b, _t in b.calls(lambda c: c["path"].endswith("Scanline::<V>::fragments")))
        raw_vs = False
        for b in fam_i:
            bsl = T.Slicer(b)
            for _bi, t in b.calls():
                for a in t["args"]:
                    at = bsl.operand(a)
                    if T.contains(at, lambda q: q[0] == "field" and q[2] == "Scanline.vs"):
                        raw_vs = True
        rep.inst("C01.S4", "%s obtains fragments via Scanline::fragments(): %s, touches Scanline.vs directly: %s" % (path.split("<")[1].split(" as")[0], uses_frag, raw_vs), config=cfg)
        if not uses_frag or raw_vs:
            rep.violate("C01.S4", "S4|target|%s" % path, fam[0].where(), "a Target impl bypasses Scanline::fragments() (perspective correction would be skipped)", config=cfg)

    # ---- S5 front doors
    for path, fields in (("retrofire_core::render::batch::Batch::<Vtx, Uni, Shd, Tgt, Ctx>::render",
                          ["Batch.faces", "Batch.verts", "Batch.shader", "Batch.uniform", "Batch.viewport", "Batch.target", "Batch.ctx"]),):
        bs = [b for p, b in prog.bodies.items() if p.startswith("retrofire_core::render::batch::Batch::<") and p.endswith("::render")]
        rep.floor("C01.S5.batch.%s" % cfg, len(bs), 1, "Batch::render")
        b = bs[0]
        bsl = T.Slicer(b)
        rc = [(bi, t) for bi, t in b.calls(lambda c: c["path"] == RENDER)]
        ok = len(rc) == 1 and all(b.dominates(rc[0][0], r) for r in G.return_blocks(b))
        if ok:
            got = [T.fields_in(s(bsl.operand(a))) for a in rc[0][1]["args"]]
            ok = all(any(f == want for f in fl) for fl, want in zip(got, fields))
        rep.inst("C01.S5", "Batch::render = one unconditional render::render(faces, verts, shader, uniform, viewport, target, ctx) of its own fields: %s" % ok, config=cfg)
        if not ok:
            rep.violate("C01.S5", "S5|batch", b.where(), "Batch::render does not forward its own fields, in order, to render::render", config=cfg)
    cams = [b for p, b in prog.bodies.items() if p.startswith("retrofire_core::render::cam::Camera::<M>::render") and b.kind == "AssocFn"]
    rep.floor("C01.S5.camera.%s" % cfg, len(cams), 1, "Camera::render")
    b = cams[0]
    bsl = T.Slicer(b)
    rc = [(bi, t) for bi, t in b.calls(lambda c: c["path"] == RENDER)]
    ok = len(rc) == 1 and all(b.dominates(rc[0][0], r) for r in G.return_blocks(b))
    if ok:
        a = [s(bsl.operand(x)) for x in rc[0][1]["args"]]
        tf_ok = T.contains(a[3], lambda q: q[0] == "call" and q[1].split(" => ")[0].endswith("::then")
                           and s(q[2][0]) == ("param", 4) and bool(T.calls_in(q[2][1], "Camera::<M>::world_to_project")))
        vp_ok = a[4] == ("field", ("param", 1), "Camera.viewport")
        passthru = T.contains(a[0], lambda q: q == ("param", 2)) and T.contains(a[1], lambda q: q == ("param", 3)) and a[2] == ("param", 5) \
            and a[5] == ("param", 7) and a[6] == ("param", 8)
        ok = tf_ok and vp_ok and passthru
    rep.inst("C01.S5", "Camera::render = render::render(tris, verts, shader, (to_world.then(world_to_project()), uniform), self.viewport, target, ctx): %s" % ok, config=cfg)
    if not ok:
        rep.violate("C01.S5", "S5|camera", b.where(), "Camera::render does not forward to_world.then(world_to_project()) and its own viewport to render::render", config=cfg)


def check(rep, args):
    configs = ["ws"] if rep.tier == "quick" else common.ALL_CONFIGS
    rep.configs = configs
    for cfg in configs:
        check_config(rep, facts.program(cfg))
    cov = {
        "explanation": "render() interpreted end to end on a reference scene (symbolic attributes and viewport matrix; shader, tri_fill, rasterize uninterpreted; the real "
                       "clipper run) plus a must-pass rule for the clipper; Scanline::fragments interpreted symbolically; forwarding rules for the two front doors: "
                       "the shape every perspective-correct pipeline must have; no pixel value is decided",
        "evaluations": len(rep.instances),
        "distinct_nontrivial": len({i["what"] for i in rep.instances}),
        "rules": ["S1", "S2", "S3", "S4", "S5", "S6"],
    }
    return "other", cov, ["numeric image equality, the pixel-centre rule, fan completeness and viewport orientation are not decided"]
