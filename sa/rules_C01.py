"""C01 — pipeline shape of render() (necessary conditions only; says nothing
about pixel values).

Decides (engine D):
  S1  stage order: vertex shader -> ClipVert::new -> collect; triangles are
      assembled from those vertices; the only consumer of the assembled
      triangles is view_frustum::clip; the raster loop iterates the clip output;
      no path reaches tri_fill without passing clip
  S2  paired perspective division: in the per-vertex closure, the position
      vec3(x, y, 1.0) (x, y = components 0, 1 of the clip position) and the
      attribute are both z_div'ed by component 3 (w) of that SAME position
  S3  viewport: the divided position - and only it - goes through
      to_screen.apply, to_screen being render()'s own parameter
  S4  per-fragment correction: Scanline::fragments maps every (pos, var) to
      var.z_div(pos.z()); both Target impls obtain fragments only via fragments()
  S5  front doors: Batch::render and Camera::render are one unconditional call
      to render::render forwarding their own fields / to_world.then(world_to_project)
      and the camera's viewport
  S6  tri_fill receives the per-vertex closure's output (screen-space vertices)
Leaves: everything numerical (interpolation, rounding, fan completeness, axis
orientation).
"""
from . import facts, guards as G, term as T, common
from .render_common import RENDER, FB_RASTERIZE, BUF_RASTERIZE, capture_terms


def s(t):
    return T.strip(t, sites=False, refs=True)


def check_config(rep, prog):
    cfg = prog.config
    rn = prog.body(RENDER)
    sl = T.Slicer(rn)

    def one_call(pred, what):
        cs = [(bi, t) for bi, t in rn.calls(pred)]
        rep.floor("C01.%s.%s" % (what, cfg), len(cs), 1, what)
        return cs
    clip = one_call(lambda c: facts.callee_matches(c, "view_frustum::clip"), "view_frustum::clip call")
    fill = one_call(lambda c: facts.callee_matches(c, "raster::tri_fill"), "tri_fill call")
    # ---- S1
    cb, ct = clip[0]
    tris_t = s(sl.operand(ct["args"][0]))
    # tris = collect(map(iter(tris_param), closure#1)) where closure#1 indexes the shaded verts
    shaded = None
    ok_tris = False
    col = [x for x in T.walk(tris_t) if x[0] == "call" and x[1].split(" => ")[0].endswith("Iterator::collect")]
    if col:
        m = col[0][2][0]
        if m[0] == "call" and m[1].split(" => ")[0].endswith("Iterator::map"):
            src, clos = m[2][0], m[2][1]
            from_param = T.contains(src, lambda q: q == ("param", 1))
            if clos[0] == "agg" and clos[1].startswith("closure:") and clos[2]:
                shaded = s(clos[2][0])
                ok_tris = from_param
    # shaded verts = collect(map(map(cloned(iter(verts_param)), vertex-shader closure), ClipVert::new))
    ok_verts = False
    if shaded is not None:
        sv = shaded
        has_new = T.contains(sv, lambda q: q[0] == "fnptr" and "ClipVert::<V>::new" in q[1])
        vs_cl = [q for q in T.walk(sv) if q[0] == "agg" and q[1].startswith("closure:")]
        vs_ok = False
        for q in vs_cl:
            cbody = prog.bodies.get(q[1][8:])
            if cbody and any(True for _b, _t in cbody.calls(lambda c: facts.callee_matches(c, "VertexShader::shade_vertex"))):
                vs_ok = True
        from_verts = T.contains(sv, lambda q: q == ("param", 2))
        # order: map(shade) is INSIDE map(ClipVert::new)
        order = False
        for q in T.walk(sv):
            if q[0] == "call" and q[1].split(" => ")[0].endswith("Iterator::map") and q[2][1][0] == "fnptr" and "ClipVert::<V>::new" in q[2][1][1]:
                order = T.contains(q[2][0], lambda r: r[0] == "agg" and r[1].startswith("closure:"))
        ok_verts = has_new and vs_ok and from_verts and order
    rep.inst("C01.S1", "clip input = triangles assembled (by index) from collect(verts.map(shade_vertex).map(ClipVert::new)): tris=%s verts=%s" % (ok_tris, ok_verts), config=cfg)
    if not (ok_tris and ok_verts):
        rep.violate("C01.S1", "S1|assembly", rn.where(cb, None), "view_frustum::clip is not fed the triangles assembled from the vertex shader's output wrapped by ClipVert::new", config=cfg)
    clip_out = s(sl.operand(ct["args"][1]))
    fb, ft = fill[0]
    dom = rn.dominates(cb, fb)
    # the loop feeding tri_fill iterates the clip output
    arg = s(sl.operand(ft["args"][0]))
    from_clip = T.contains(arg, lambda q: q[0] == "call" and "into_iter" in q[1] and s(q[2][0]) == clip_out)
    rep.inst("C01.S1", "clip dominates tri_fill: %s; tri_fill's triangle derives from iterating the clip output: %s" % (dom, from_clip), config=cfg)
    if not (dom and from_clip):
        rep.violate("C01.S1", "S1|order", rn.where(fb, None), "a triangle can reach tri_fill without having passed view_frustum::clip (dominates=%s, from clip output=%s)" % (dom, from_clip), config=cfg)
    # nothing else consumes / produces the clip output between clip and the loop except depth_sort
    for bi, t in rn.calls():
        for a in t["args"]:
            at = s(sl.operand(a))
            if at == clip_out and bi not in (cb,):
                name = t["callee"]["path"]
                if not any(k in name for k in ("render::depth_sort", "into_iter", "DerefMut::deref_mut", "Deref::deref")):
                    rep.violate("C01.S1", "S1|clip-output-touched|%s" % name, rn.where(bi, None),
                                "the clip output is passed to %s between clipping and rasterisation" % name, config=cfg)

    # ---- S2 / S3 in the per-vertex closure (the closure passed to array::map whose result feeds tri_fill)
    vclos = [q for q in T.walk(arg) if q[0] == "agg" and q[1].startswith("closure:")]
    rep.floor("C01.S2.closure.%s" % cfg, len(vclos), 1, "per-vertex screen-space closure")
    vc = prog.bodies[vclos[0][1][8:]]
    vsl = T.Slicer(vc)
    zd = [(bi, t) for bi, t in vc.calls(lambda c: c["path"].endswith("vary::ZDiv::z_div"))]
    pos_field = ("field", ("param", 2), "ClipVert.pos")

    def comp(k):
        return lambda q: q[0] in ("index", "cindex") and s(q)[1] == ("field", pos_field, "Vector.0") and (q[2] == ("const", "usize", k) if q[0] == "index" else q[2] == k)
    divisors = []
    kinds = {}
    for bi, t in zd:
        recv = s(vsl.operand(t["args"][0]))
        dv = s(vsl.operand(t["args"][1]))
        divisors.append(dv)
        if recv[0] == "call" and recv[1].split(" => ")[0].endswith("vec::vec3"):
            a0, a1, a2 = [s(x) for x in recv[2]]
            okp = comp(0)(a0) and comp(1)(a1) and a2 == ("const", "f32", 1.0)
            kinds["pos"] = (bi, okp, recv)
        elif recv[0] == "field" and recv[2] == "ClipVert.attrib" and recv[1] == ("param", 2):
            kinds["attrib"] = (bi, True, recv)
    same_div = len(divisors) >= 2 and all(d == divisors[0] for d in divisors) and comp(3)(divisors[0])
    ok2 = "pos" in kinds and "attrib" in kinds and kinds["pos"][1] and same_div
    rep.inst("C01.S2", "position vec3(x, y, 1.0) and attribute are both z_div'ed by w (component 3 of the same clip position): pos=%s attrib=%s same divisor=%s"
             % (kinds.get("pos", (0, False))[1], "attrib" in kinds, same_div), config=cfg)
    if not ok2:
        rep.violate("C01.S2", "S2|paired-division", vc.where(), "position and attribute are not divided by the same w of the clip-space position "
                    "(pos ok=%s, attribute divided=%s, same divisor w=%s)" % (kinds.get("pos", (0, False))[1], "attrib" in kinds, same_div), config=cfg)
    # S3
    ap = [(bi, t) for bi, t in vc.calls(lambda c: "mat::Matrix" in c["path"] and c["path"].endswith("::apply"))]
    ok3 = False
    if len(ap) == 1 and "pos" in kinds:
        bi, t = ap[0]
        m = s(vsl.operand(t["args"][0]))
        v = s(vsl.operand(t["args"][1]))
        caps = capture_terms(prog, vc)
        is_ts = m == ("upvar", "to_screen") and any(s(c) == ("param", 5) for c in caps.values())
        divided = v[0] == "call" and v[1].split(" => ")[0].endswith("ZDiv::z_div") and v[3] == (vc.path, kinds["pos"][0])
        ret = s(vsl.local(0))
        pos_out = ret[0] == "agg" and ret[1].endswith("Vertex::Vertex") and T.contains(ret[2][0], lambda q: q[0] == "call" and q[1].endswith("::apply") and q[3] == (vc.path, bi))
        att_out = ret[0] == "agg" and "attrib" in kinds and ret[2][1][0] == "call" and ret[2][1][3] == (vc.path, kinds["attrib"][0])
        ok3 = is_ts and divided and pos_out and att_out
    rep.inst("C01.S3", "the divided position (only) is mapped by render()'s to_screen parameter; result vertex = (to_screen(pos/w), attrib/w): %s" % ok3, config=cfg)
    if not ok3:
        rep.violate("C01.S3", "S3|viewport", vc.where(), "the per-vertex closure does not produce Vertex{to_screen.apply(pos/w), attrib/w}", config=cfg)

    # ---- S4
    fr = prog.body("retrofire_core::render::raster::Scanline::<V>::fragments")
    fcl = prog.children(fr.path)
    ok4 = False
    if len(fcl) == 1:
        c = fcl[0]
        csl = T.Slicer(c)
        ret = s(csl.local(0))
        if ret[0] == "agg" and ret[1].endswith("raster::Frag::Frag"):
            names = None
            for _b, _s, st in c.stmts():
                if st["k"] == "Assign" and st["rv"]["k"] == "Aggregate" and st["rv"].get("adt", "").endswith("raster::Frag"):
                    names = st["rv"]["fields"]
            if names:
                pos_t = ret[2][names.index("pos")]
                var_t = ret[2][names.index("var")]
                item = ("param", 2)
                ok_pos = pos_t == ("field", item, "0")
                ok_var = var_t[0] == "call" and var_t[1].split(" => ")[0].endswith("ZDiv::z_div") and s(var_t[2][0]) == ("field", item, "1") \
                    and s(var_t[2][1])[0] == "call" and s(var_t[2][1])[1].split(" => ")[0].endswith("::z") and s(s(var_t[2][1])[2][0]) == ("field", item, "0")
                ok4 = ok_pos and ok_var
    fsl = T.Slicer(fr)
    rt = s(fsl.local(0))
    over_vs = T.contains(rt, lambda q: q[0] == "field" and q[2] == "Scanline.vs")
    rep.inst("C01.S4", "fragments() maps every (pos, var) of self.vs to Frag{pos, var.z_div(pos.z())}: %s (iterates Scanline.vs: %s)" % (ok4, over_vs), config=cfg)
    if not (ok4 and over_vs):
        rep.violate("C01.S4", "S4|fragments", fr.where(), "Scanline::fragments does not divide every varying by the interpolated 1/w (pos.z) of the same fragment", config=cfg)
    for path in (FB_RASTERIZE, BUF_RASTERIZE):
        fam = prog.family(path)
        uses_frag = any(True for b in fam for _b, _t in b.calls(lambda c: c["path"].endswith("Scanline::<V>::fragments")))
        raw_vs = False
        for b in fam:
            bsl = T.Slicer(b)
            for _bi, t in b.calls():
                for a in t["args"]:
                    at = bsl.operand(a)
                    if T.contains(at, lambda q: q[0] == "field" and q[2] == "Scanline.vs"):
                        raw_vs = True
        rep.inst("C01.S4", "%s obtains fragments via Scanline::fragments(): %s, touches Scanline.vs directly: %s" % (path.split("<")[1].split(" as")[0], uses_frag, raw_vs), config=cfg)
        if not uses_frag or raw_vs:
            rep.violate("C01.S4", "S4|target|%s" % path, fam[0].where(), "a Target impl bypasses Scanline::fragments() (perspective correction would be skipped)", config=cfg)

    # ---- S6 tri_fill gets the closure's output
    map_calls = [q for q in T.walk(arg) if q[0] == "call" and q[1].split(" => ")[0].endswith("array::<impl [T; N]>::map")]
    ok6 = bool(map_calls) and arg == map_calls[0]
    rep.inst("C01.S6", "tri_fill receives vs.map(<per-vertex closure>) of the clipped triangle: %s" % ok6, config=cfg)
    if not ok6:
        rep.violate("C01.S6", "S6|fill-input", rn.where(fb, None), "tri_fill is not given the screen-space vertices produced by the per-vertex closure", config=cfg)

    # ---- S5 front doors
    for path, fields in (("retrofire_core::render::batch::Batch::<Vtx, Uni, Shd, Tgt, Ctx>::render",
                          ["Batch.faces", "Batch.verts", "Batch.shader", "Batch.uniform", "Batch.viewport", "Batch.target", "Batch.ctx"]),):
        bs = [b for p, b in prog.bodies.items() if p.startswith("retrofire_core::render::batch::Batch::<") and p.endswith("::render")]
        rep.floor("C01.S5.batch.%s" % cfg, len(bs), 1, "Batch::render")
        b = bs[0]
        bsl = T.Slicer(b)
        rc = [(bi, t) for bi, t in b.calls(lambda c: c["path"] == RENDER)]
        ok = len(rc) == 1 and all(b.dominates(rc[0][0], r) for r in G.return_blocks(b))
        if ok:
            got = [T.fields_in(s(bsl.operand(a))) for a in rc[0][1]["args"]]
            ok = all(any(f == want for f in fl) for fl, want in zip(got, fields))
        rep.inst("C01.S5", "Batch::render = one unconditional render::render(faces, verts, shader, uniform, viewport, target, ctx) of its own fields: %s" % ok, config=cfg)
        if not ok:
            rep.violate("C01.S5", "S5|batch", b.where(), "Batch::render does not forward its own fields, in order, to render::render", config=cfg)
    cams = [b for p, b in prog.bodies.items() if p.startswith("retrofire_core::render::cam::Camera::<M>::render") and b.kind == "AssocFn"]
    rep.floor("C01.S5.camera.%s" % cfg, len(cams), 1, "Camera::render")
    b = cams[0]
    bsl = T.Slicer(b)
    rc = [(bi, t) for bi, t in b.calls(lambda c: c["path"] == RENDER)]
    ok = len(rc) == 1 and all(b.dominates(rc[0][0], r) for r in G.return_blocks(b))
    if ok:
        a = [s(bsl.operand(x)) for x in rc[0][1]["args"]]
        tf_ok = T.contains(a[3], lambda q: q[0] == "call" and q[1].split(" => ")[0].endswith("::then")
                           and s(q[2][0]) == ("param", 4) and bool(T.calls_in(q[2][1], "Camera::<M>::world_to_project")))
        vp_ok = a[4] == ("field", ("param", 1), "Camera.viewport")
        passthru = T.contains(a[0], lambda q: q == ("param", 2)) and T.contains(a[1], lambda q: q == ("param", 3)) and a[2] == ("param", 5) \
            and a[5] == ("param", 7) and a[6] == ("param", 8)
        ok = tf_ok and vp_ok and passthru
    rep.inst("C01.S5", "Camera::render = render::render(tris, verts, shader, (to_world.then(world_to_project()), uniform), self.viewport, target, ctx): %s" % ok, config=cfg)
    if not ok:
        rep.violate("C01.S5", "S5|camera", b.where(), "Camera::render does not forward to_world.then(world_to_project()) and its own viewport to render::render", config=cfg)


def check(rep, args):
    configs = ["ws"] if rep.tier == "quick" else common.ALL_CONFIGS
    rep.configs = configs
    for cfg in configs:
        check_config(rep, facts.program(cfg))
    cov = {
        "explanation": "provenance / dominance rules on render(), its per-vertex closure, Scanline::fragments, the Target impls and the two front doors: "
                       "the shape every perspective-correct pipeline must have; no pixel value is decided",
        "evaluations": len(rep.instances),
        "distinct_nontrivial": len({i["what"] for i in rep.instances}),
        "rules": ["S1", "S2", "S3", "S4", "S5", "S6"],
    }
    return "other", cov, ["numeric image equality, the pixel-centre rule, fan completeness and viewport orientation are not decided"]
