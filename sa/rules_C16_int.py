"""C16.K7 — "no in-range input panics", for the 8-bit colour conversions (engine V, sa/intervals.py).

Color3<Rgb>::to_hsl, Color3<Hsl>::to_rgb and the 4-channel wrappers are interpreted over EVERY path with the
channels as ranges [0, 255]; every arithmetic-overflow, division-by-zero, remainder-by-zero, bounds and
unreachable!() edge must be excluded by the ranges and the refinements of the branches taken. The one
value-level assertion (debug_assert!(0 <= ch && ch < 256) on the recombined channel of to_rgb) needs the
relation between chroma and lightness, which intervals do not carry: it is listed, not decided."""
from . import common, intervals as V

C = "retrofire_core::math::color::"
COL = C + "Color"

# (function suffix, kind) -> why it is not decided here
LISTED = {
    ("to_rgb::{closure#0}", "diverge:panic_fmt"): "debug_assert!(0 <= ch && ch < 256): a value-level clause (c + m <= 255 needs the chroma/lightness relation)",
}


def G_strip_not(d):
    from . import guards as G
    return G.strip_not(d)


def is_channel_range_assert(prog, p):
    """The value-level debug assertion of the 8-bit HSL -> RGB conversion, wherever it lives (the per-channel closure, a nested fn, the
    method itself) and however it is spelled: a diverging formatted panic in the `Hsl::to_rgb` family that is guarded by nothing but
    comparisons of one value against the constants 0 / 255 / 256 (or a `contains` on such a range)."""
    from . import term as T, panics as PN
    root = "%s::<[u8; 3], math::color::Hsl>::to_rgb" % COL
    if not (p.body == root or p.body.startswith(root + "::")) or p.kind != "diverge:panic_fmt":
        return False
    b = prog.bodies.get(p.body)
    if b is None:
        return False
    try:
        line = int(str(p.where).rsplit(":", 1)[-1])
    except ValueError:
        return False
    sl = T.Slicer(b)
    for bi, t in b.calls(lambda c: "panic" in c["path"]):
        if t.get("t") is not None or t.get("line") != line:
            continue
        # the switches that decide whether this panic is reached: the panic block is reachable from them but not from all their successors
        conds = []
        for si, blk in enumerate(b.blocks):
            st = blk["term"]
            if st["k"] != "SwitchInt":
                continue
            succ = [x for x, _l in b.term_edges(si, False)]
            reach = [bi == x or bi in b.reachable(x, unwind=False) for x in succ]
            if any(reach) and not all(reach):
                conds.append((sl.operand(st["discr"]), True))
        if not conds:
            continue
        ok = True
        for d, _taken in conds:
            d = T.strip(d, sites=True, refs=True)
            d, _neg = G_strip_not(d)
            if d[0] == "const":
                continue                                   # cfg!(debug_assertions)
            if d[0] == "bin" and d[1] in ("Le", "Lt", "Ge", "Gt"):
                cs = [x for x in (d[2], d[3]) if x[0] == "const" and isinstance(x[2], int)]
                ok = ok and len(cs) == 1 and cs[0][2] in (0, 255, 256)
            elif d[0] == "call" and d[1].split(" => ")[0].endswith("::contains"):
                consts = [x[2] for x in T.walk(d) if x[0] == "const" and isinstance(x[2], int)]
                ok = ok and bool(consts) and set(consts) <= {0, 255, 256}
            else:
                ok = False
        if ok:
            return True
    return False


def int_panic_rules(rep, prog):
    cfg = prog.config
    roots = [("[u8; 3]", "Rgb", "to_hsl", 3), ("[u8; 3]", "Hsl", "to_rgb", 3), ("[u8; 4]", "Rgba", "to_hsla", 4), ("[u8; 4]", "Hsla", "to_rgba", 4)]
    n_paths = 0
    for repr_, space, meth, n in roots:
        path = "%s::<%s, math::color::%s>::%s" % (COL, repr_, space, meth)
        b = prog.bodies.get(path)
        if b is None:
            raise common.AnchorMissing("C16.K7: %s not found (config %s)" % (path, cfg))

        def mk(it, n=n):
            return [("adt", COL, "Color", [("array", [it.new_rng(0, 255) for _ in range(n)]), ("tuple", [])])]
        try:
            paths, found = V.analyze(prog, b, mk)
        except Exception as e:      # Undecided and friends
            raise common.Infra("C16.K7: %s could not be analysed over ranges (%s: %s)" % (path, type(e).__name__, e))
        n_paths += paths
        bad = []
        for (_body, kind, where), p in sorted(found.items(), key=lambda kv: kv[1].where):
            suffix = p.body.split("::", 5)[-1] if "::" in p.body else p.body
            listed = [why for (sfx, k), why in LISTED.items() if k == kind and is_channel_range_assert(prog, p)]
            if listed:
                rep.inst("C16.K7", "%s: %s at %s is listed, not decided: %s" % (meth, kind, where, listed[0]), config=cfg)
                continue
            bad.append(p)
        rep.inst("C16.K7", "Color<%s, %s>::%s over all channel values: %d path(s), %d panic edge(s) the ranges do not exclude" % (repr_, space, meth, paths, len(bad)), config=cfg)
        for p in bad:
            rep.violate("C16.K7", "K7|%s|%s" % (meth, p.kind), p.where,
                        "an in-range 8-bit colour can panic in %s: %s (%s) on a path the channel ranges [0, 255] and the branches taken do not exclude"
                        % (p.body.replace("retrofire_core::math::color::", ""), p.kind, p.detail), config=cfg)
    rep.count("int_paths", n_paths)
