"""Polynomial normal form of arithmetic provenance terms (exact, over Q).

Used to compare an arithmetic expression with its specification up to the ring
axioms (commutativity, associativity, distributivity), so that algebraically
equivalent rewrites are not reported. Float rounding is NOT modelled."""
from fractions import Fraction


def poly(t, atoms):
    """term -> {monomial(tuple of sorted symbol names): Fraction}. `atoms` is a
    list of (predicate, name); unknown sub-terms become opaque symbols keyed by
    their own repr."""
    for pred, name in atoms:
        if pred(t):
            return {(name,): Fraction(1)}
    h = t[0]
    if h == "field" and t[2] == "0" and t[1][0] == "bin" and "WithOverflow" in t[1][1]:
        b = t[1]
        return poly(("bin", b[1].replace("WithOverflow", ""), b[2], b[3]), atoms)
    if h == "cast" and t[1] == "IntToInt":
        return poly(t[2], atoms)
    if h == "const" and isinstance(t[2], (int, float)):
        return {(): Fraction(t[2]).limit_denominator(1 << 40)} if t[2] != 0 else {}
    if h == "bin" and t[1] in ("Add", "Sub", "Mul"):
        a, b = poly(t[2], atoms), poly(t[3], atoms)
        if t[1] == "Add":
            return padd(a, b)
        if t[1] == "Sub":
            return padd(a, {m: -c for m, c in b.items()})
        return pmul(a, b)
    if h == "un" and t[1] == "Neg":
        return {m: -c for m, c in poly(t[2], atoms).items()}
    if h == "phi" and len(t[2]) == 1:
        return poly(t[2][0], atoms)
    return {("?" + repr(t),): Fraction(1)}


def padd(a, b):
    r = dict(a)
    for m, c in b.items():
        r[m] = r.get(m, 0) + c
        if r[m] == 0:
            del r[m]
    return r


def pmul(a, b):
    r = {}
    for m1, c1 in a.items():
        for m2, c2 in b.items():
            m = tuple(sorted(m1 + m2))
            r[m] = r.get(m, 0) + c1 * c2
            if r[m] == 0:
                del r[m]
    return r
