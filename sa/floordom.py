"""Floor-relative abstract interpretation of a float -> integral-float function (engine F).

The argument x is written x = F + frac with F = floor(x) an integer symbol and frac in [0, 1);
the five argument classes (sign x integrality, and -0.0) fix whether frac is 0 and the sign.
The function's MIR is interpreted in the ring domain with
  * `x as iN`      -> F (+1 on negative non-integers: truncation towards zero); a target narrower
                      than the domain bound, or an unsigned target on a negative class, is WRONG
  * is_sign_negative(x) -> 0/1 by class
  * comparisons    -> decided from the class: both sides reduce to k + c*frac with integers k, c
  * saturating/wrapping add/sub -> plain +/- (no saturation inside the domain bound)
  * `x % 1.0`      -> frac, frac - 1 or 0 by class (IEEE remainder keeps the sign of x)
and the result must be exactly F. Branches (`if t > x { t - 1.0 } else { t }`) are followed, not
guessed: this is what the term-level analysis in rules_C12 cannot do."""
from fractions import Fraction

from . import absint as A, symalg as S, poly as PL

CLASSES = ("negative non-integer", "negative exact integer", "negative zero", "zero or positive integer", "positive non-integer")


class Wrong(Exception):
    pass


def evaluate(prog, body, cls, domain_bits=63):
    """Returns ("off", k) if the function returns floor(x) + k on this class, ("bad", why) or ("unknown", why)."""
    x, F, fr = S.sym("x"), S.sym("F"), S.sym("frac")
    neg = cls.startswith("negative")
    integral = cls != "negative non-integer" and cls != "positive non-integer"

    def to_kc(v):
        """value -> (k, c) with value = F*? ... reduced: returns (poly without F terms?)"""
        p = S.to_poly(v)
        out = {}
        for mono, c in p.items():
            # substitute x = F + frac
            terms = [{(): Fraction(1)}]
            for sy in mono:
                sub = ({("F",): Fraction(1)} if integral else {("F",): Fraction(1), ("frac",): Fraction(1)}) if sy == "x" else {(sy,): Fraction(1)}
                terms = [PL.pmul(t, sub) for t in terms]
            for t in terms:
                out = PL.padd(out, {m: c * cc for m, cc in t.items()})
        return {m: c for m, c in out.items() if c != 0}

    def orc(op, a, b):
        try:
            d = PL.padd(to_kc(a), {m: -c for m, c in to_kc(b).items()})
        except S.NotPolynomial:
            return None
        if any(m not in ((), ("frac",)) for m in d):
            return None
        k, c = d.get((), Fraction(0)), d.get(("frac",), Fraction(0))
        if integral:
            lo = hi = k
            openiv = False
        else:
            lo, hi = min(k, k + c), max(k, k + c)
            openiv = c != 0
        if openiv:
            pos, negv, zero = lo >= 0, hi <= 0, False
        else:
            pos, negv, zero = lo > 0, hi < 0, lo == hi == 0
        if not (pos or negv or zero):
            return None
        return {"Gt": pos, "Ge": pos or zero, "Lt": negv, "Le": negv or zero, "Eq": zero, "Ne": not zero}[op]

    def m_sign(it, args, callee, depth):
        if A.deref_all(it, args[0]) == x:
            return 1 if neg else 0
        return NotImplemented

    def m_satsub(sign):
        def f(it, args, callee, depth):
            a, b = A.deref_all(it, args[0]), A.deref_all(it, args[1])
            if isinstance(a, int) and isinstance(b, int):
                return NotImplemented
            return ("symop", "Sub" if sign < 0 else "Add", a if not isinstance(a, int) else ("f", float(a)), b if not isinstance(b, int) else ("f", float(b)))
        return f
    it = S.interp(prog, oracle=orc, models={"is_sign_negative": m_sign, "saturating_sub": m_satsub(-1), "wrapping_sub": m_satsub(-1),
                                            "saturating_add": m_satsub(1), "wrapping_add": m_satsub(1)})

    def hook(v, to):
        if v != x:
            if isinstance(v, tuple) and v[0] == "f":
                return None
            raise A.Undecided("float->%s cast of %r (only the argument itself is understood)" % (to, v))
        bits = A.INT_BITS.get(to, 64)
        if to.startswith("u"):
            if neg and cls != "negative zero":
                raise Wrong("the argument is converted straight to the unsigned %s: every negative value saturates to 0" % to)
            if bits < domain_bits:
                raise Wrong("the argument is converted to %s, which saturates beyond 2^%d although the function is exact up to 2^%d today" % (to, bits, domain_bits))
        elif bits - 1 < domain_bits:
            raise Wrong("the argument is converted to %s, which saturates beyond 2^%d although the function is exact up to 2^%d today" % (to, bits - 1, domain_bits))
        return ("symop", "Add", F, ("f", 1.0)) if cls == "negative non-integer" else F
    it.float_to_int = hook
    plain_binop = it.binop

    def binop(op, a, b, ty):
        # IEEE `x % 1.0` keeps the sign of x: frac for x >= 0, frac - 1 for a negative non-integer, (-)0 for an integer
        if op == "Rem" and a == x and b == ("f", 1.0):
            if integral:
                return ("f", 0.0)
            return fr if not neg else ("symop", "Sub", fr, ("f", 1.0))
        return plain_binop(op, a, b, ty)
    it.binop = binop
    try:
        r = A.deref_all(it, it.call_body(body, [x]))
        res = to_kc(r)
    except Wrong as e:
        return ("bad", str(e))
    except (A.Undecided, A.Panic, S.NotPolynomial) as e:
        return ("unknown", str(e)[:200])
    k = PL.padd(res, {("F",): Fraction(-1)})
    k = {m: c for m, c in k.items() if c != 0}
    if not k:
        return ("off", 0)
    if set(k) == {()} and k[()].denominator == 1:
        return ("off", int(k[()]))
    if any(sy.startswith("?") for m in k for sy in m):
        return ("unknown", "the result contains an operation the floor analysis does not interpret: %s" % sorted({sy for m in k for sy in m if sy.startswith("?")})[0][:120])
    return ("bad", "the result is floor(x) + (%s) on this class, not an integer-valued offset" % k)
