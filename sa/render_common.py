"""Shared anchors and extraction for the render-path rules (C01, C06, C07)."""
from . import facts, guards as G, term as T

FB_RASTERIZE = "retrofire_core::<render::target::Framebuf<Col, Dep> as render::target::Target>::rasterize"
BUF_RASTERIZE = "retrofire_core::<Buf as render::target::Target>::rasterize"
RENDER = "retrofire_core::render::render"
CTX = "retrofire_core::render::ctx::Context"

ELEM_TYPES = {"&mut u32": "colour", "&mut f32": "depth"}
SPAN_TYPES = {"&mut [u32]": "colour", "&mut [f32]": "depth"}
# calls that only re-shape a span reference and cannot write through it
SPAN_PLUMBING = ("IndexMut<I> for [T]>::index_mut", "Iterator::zip", "IntoIterator::into_iter",
                 "iter_mut", "DerefMut::deref_mut", "core::ops::index::IndexMut::index_mut")


def is_call_to(t, *needles):
    return t[0] == "call" and any(n in t[1] for n in needles)


class TargetImpl:
    """Everything the rules need to know about one `Target::rasterize` impl."""

    def __init__(self, prog, path, has_depth):
        self.prog = prog
        self.path = path
        self.has_depth = has_depth
        # private helpers of the same file (a span-clamping helper, a per-fragment function) are seen through
        self.bodies = [prog.inlined(b, depth=2, pred=lambda cb, f=prog.body(path).file: (not cb.is_pub) and cb.file == f) for b in prog.family(path)]
        self.root = self.bodies[0]
        self.sl = {b.path: T.Slicer(b) for b in self.bodies}
        self.stores = []      # dicts: body, bb, idx, kind(colour/depth), how(assign/escape), value term, lhs term
        self.escapes = []
        self._collect()

    def _collect(self):
        for b in self.bodies:
            sl = self.sl[b.path]
            for bi, si, s in b.stmts():
                if s["k"] != "Assign":
                    continue
                p = s["lhs"]
                if p["p"] and p["p"][0] == "*":
                    ty = b.locals[p["l"]]
                    if ty in ELEM_TYPES and len(p["p"]) == 1:
                        self.stores.append({
                            "body": b, "bb": bi, "idx": si, "kind": ELEM_TYPES[ty], "how": "assign",
                            "value": sl.rvalue(s["rv"], 0, ()), "lhs": sl.place(p),
                            "where": b.where(bi, si)})
                    elif ty in SPAN_TYPES:
                        self.stores.append({
                            "body": b, "bb": bi, "idx": si, "kind": SPAN_TYPES[ty], "how": "span-assign",
                            "value": None, "lhs": sl.place(p), "where": b.where(bi, si)})
            for bi, ti, t in b.terms():
                if t["k"] != "Call":
                    continue
                c = t.get("callee")
                name = (c["path"] + " " + (c["res"]["path"] if c and c.get("res") else "")) if c else "<indirect>"
                for a in t["args"]:
                    pl = a.get("m") or a.get("c")
                    if not pl or pl["p"]:
                        continue
                    ty = b.locals[pl["l"]]
                    if ty in ELEM_TYPES:
                        self.stores.append({
                            "body": b, "bb": bi, "idx": ti, "kind": ELEM_TYPES[ty], "how": "escape:" + name,
                            "value": None, "lhs": T.simplify(("deref", sl.operand(a))),
                            "where": b.where(bi, ti)})
                    elif ty in SPAN_TYPES and not any(n in name for n in SPAN_PLUMBING):
                        self.stores.append({
                            "body": b, "bb": bi, "idx": ti, "kind": SPAN_TYPES[ty], "how": "span-escape:" + name,
                            "value": None, "lhs": sl.operand(a), "where": b.where(bi, ti)})

    def depth_tests(self, body):
        sl = self.sl[body.path]
        calls = [(bi, t) for bi, t in body.calls(lambda c: facts.callee_matches(c, "render::ctx::Context::depth_test"))]
        edges = G.bool_edges(body, sl, lambda d: is_call_to(d, "render::ctx::Context::depth_test"))
        return calls, edges

    def flag_edges(self, body, field):
        """(true_edges, false_edges) of switches on Context.<field>."""
        sl = self.sl[body.path]
        tr, fa = [], []
        for _bi, t_e, f_e in G.bool_edges(
                body, sl, lambda d: d[0] == "field" and d[2] == "Context." + field):
            tr += t_e
            fa += f_e
        return tr, fa

    def shade_edges(self, body):
        """(some_edges, none_edges) on the discriminant of shade_fragment's result."""
        sl = self.sl[body.path]
        return G.option_edges(body, sl, lambda p: is_call_to(p, "FragmentShader::shade_fragment"))


def capture_terms(prog, closure):
    """upvar index -> provenance term (in the parent body) of what the closure captures."""
    parent = prog.bodies.get(closure.parent)
    if parent is None:
        return {}
    psl = T.Slicer(parent)
    for _bi, _si, s in parent.stmts():
        if s["k"] == "Assign" and s["rv"]["k"] == "Aggregate" and s["rv"].get("closure") == closure.path:
            return {i: psl.operand(o) for i, o in enumerate(s["rv"]["ops"])}
    return {}


def upvar_index(sl, name):
    for idx, (n, _byref) in sl.upvars().items():
        if n == name:
            return idx
    return None


def in_cycle(body, bb):
    return bb in body.reachable_from_succs(bb)
