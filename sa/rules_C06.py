"""C06 — hidden-surface removal is independent of submission order.

Decides (static, necessary conditions; engine D):
  W1  every write to the colour or depth buffer in Framebuf::rasterize is reachable
      only through the PASS edge of the depth test (edge dominance)
  W1e a depth store and a colour store exist on the pass path (a pass with
      writes enabled must update the pair)
  W2  the value tested is the value stored, and the test reads the very cell
      that is later overwritten
  W3  colour span and depth span are cut with identical row and x-range of the
      same scanline whose fragments() are zipped with them
  W4  Context::depth_test: abstract evaluation over the finite set of float
      orderings - with no predicate every fragment passes, with predicate `ord`
      a fragment passes iff cmp(curr, new) == ord (reciprocal depth: larger is nearer)
  W5  render(): the optional sort is applied to the clip output before the
      rasterisation loop, under the Some edge of ctx.depth_sort, with its payload
  W6  nothing in render() touches the target except Target::rasterize
      (no clearing between calls => splitting a scene into calls is harmless)
  W7  depth_sort comparator: abstract evaluation over orderings of the two keys

Leaves (not decided): equality of images over permutations, numeric depth values.
"""
from . import facts, guards as G, term as T, common, ordeval
from .render_common import TargetImpl, FB_RASTERIZE, RENDER, is_call_to


def check_config(rep, prog):
    cfg = prog.config
    def target_block():
        # ---- W1 / W1e / W2 / W3 by interpreting Framebuf::rasterize over the scenarios of sa/target_sem.py: whatever way the test,
        # the shader result and the flags are combined, a buffer is written only for a fragment that passes the depth predicate, the
        # depth stored is the depth tested, and fragment k is tested against / written to pixel x0 + k of the scanline's row in BOTH buffers
        from . import target_sem as TS, absint as A
        try:
            n, findings = TS.check_target(prog, "framebuf", rep.tier == "thorough")
        except A.Undecided as e:
            raise common.Infra("C06.W1: Framebuf::rasterize could not be interpreted over the depth-test scenarios (%s%s)"
                               % (e, "; in " + " < ".join(getattr(e, "stack", [])[:3]) if getattr(e, "stack", None) else ""))
        rep.count("target_scenarios", n)
        fbb = prog.body(FB_RASTERIZE)
        # a deviation where a passing, shaded fragment with its flag on is not written belongs to W1e here (and to F1 in C07)
        mine = [(("W1e" if (c == "F1" and k.endswith("not-written")) else c), k, m) for c, k, m in findings if c in ("W1", "W2", "W3") or (c == "F1" and k.endswith("not-written"))]
        for rule, txt in (("W1", "no buffer write for a fragment that fails the depth predicate (4 predicates x 4 orders incl. unordered)"),
                          ("W1e", "a passing, shaded fragment replaces the stored colour/depth pair when writes are on"),
                          ("W2", "the depth stored is the depth that was tested, against the very cell that is overwritten"),
                          ("W3", "fragment k is tested against and written to pixel x0 + k of the scanline's row in both buffers; no other cell changes")):
            rep.inst("C06." + rule, "Framebuf::rasterize in %d scenarios: %s: %s" % (n, txt, not any(f[0] == rule for f in mine)), config=cfg)
        for clause, key, msg in mine:
            rep.violate("C06." + clause, "%s|%s" % (clause, key), fbb.where(), "Framebuf::rasterize: " + msg, config=cfg)
    rep.guard(target_block)

    # ---- W4 depth_test semantics over orderings
    dt = prog.body("retrofire_core::render::ctx::Context::depth_test")
    res = ordeval.eval_depth_test(prog, dt)
    rep.inst("C06.W4", "abstract evaluation of Context::depth_test over {<,=,>,unordered} x {None,Less,Equal,Greater}: %s" % res["table"], config=cfg)
    for bad in res["bad"]:
        rep.violate("C06.W4", "W4|%s" % bad["case"], dt.where(), bad["msg"], config=cfg)

    # ---- W5: what the depth_sort setting does, by interpreting render() on the reference scene of sa/render_sem.py: with None the
    # triangles are rasterised in submission order, with FrontToBack / BackToFront in ascending / descending order of their summed clip z
    # (a triangle with negative depth included) - wherever and however the sort is written
    from . import render_sem as RSEM, absint as A
    rn = prog.body(RENDER)

    def order_block():
        try:
            n, findings = RSEM.check(prog)
        except A.Undecided as e:
            raise common.Infra("C06.W5: render() could not be interpreted on the reference scene (%s)" % e)
        mine = [f for f in findings if f[0] == "order"]
        rep.inst("C06.W5", "render() interpreted in %d (face_cull, depth_sort) settings on the reference scene: rasterisation order = submission order / ascending / descending summed depth: %s"
                 % (n, not mine), config=cfg)
        for _c, key, msg in mine:
            rep.violate("C06.W5", "W5|order|%s" % key, rn.where(), msg, config=cfg)
    rep.guard(order_block)
    # local functions that do nothing to a slice but sort it (the comparator of each is evaluated abstractly under W7)
    from .rules_C01 import _only_sorts
    served = {}
    DS = "retrofire_core::render::ctx::DepthSort"
    for fb_ in prog.family(RENDER):
        fsl = T.Slicer(fb_)
        inner = lambda p: p[0] == "field" and p[1][0] == "downcast" and T.contains(p, lambda f: f[0] == "field" and f[2] == "Context.depth_sort")  # noqa: E731
        mode_edges = {m: G.variant_edges(prog, fb_, fsl, inner, DS, m) for m in ("FrontToBack", "BackToFront")}
        for bi, t in fb_.calls():
            if not t["args"]:
                continue
            nm = ((t["callee"].get("res") or {}).get("path") or t["callee"]["path"])
            if prog.lookup(nm) is None or not _only_sorts(prog, nm):
                continue
            if len(t["args"]) >= 2:
                for m in ("FrontToBack", "BackToFront"):
                    served.setdefault(m, []).append((nm, True))
            else:
                for m, es in mode_edges.items():
                    if es and G.guarded_by(fb_, bi, es):
                        served.setdefault(m, []).append((nm, False))
    if not served:
        rep.notes.append("C06.W7: no separate sort function in render() (the sort is written inline): its comparator is exercised on the reference scene under W5 only")

    # ---- W6 who-may-touch the target in render()
    fam = prog.family(RENDER)
    n_rast = 0
    for b in fam:
        bsl = T.Slicer(b)
        for bi, ti, t in b.terms():
            if t["k"] != "Call":
                continue
            for ai, a in enumerate(t["args"]):
                at = bsl.operand(a)
                core_t = T.strip(at, refs=True)
                touches = core_t == ("upvar", "target") or (b is fam[0] and core_t == ("param", 6))
                if not touches:
                    continue
                c = t.get("callee")
                name = c["path"] if c else "<indirect>"
                if "render::target::Target::rasterize" in name:
                    n_rast += 1
                    continue
                rep.violate("C06.W6", "W6|%s|%s" % (b.path, name), b.where(bi, ti),
                            "render() passes the target to %s; only Target::rasterize may touch it" % name, config=cfg)
    rep.inst("C06.W6", "uses of `target` in render() family: %d, all Target::rasterize" % n_rast, config=cfg)
    rep.floor("C06.W6", n_rast, 1, "Target::rasterize call sites in render()")

    # ---- W7 comparator of the sort function(s), per mode
    done = set()
    for m, lst in sorted(served.items()):
        for nm, has_arg in lst:
            if (nm, m if not has_arg else "*") in done:
                continue
            done.add((nm, m if not has_arg else "*"))
            ds = prog.lookup(nm)
            res7 = ordeval.eval_depth_sort(prog, ds, modes=("FrontToBack", "BackToFront") if has_arg else (m,), mode_arg=has_arg)
            rep.inst("C06.W7", "abstract evaluation of the comparator of %s: %s" % (nm.rsplit("::", 1)[-1], res7["table"]), config=cfg)
            for bad in res7["bad"]:
                rep.violate("C06.W7", "W7|%s" % bad["case"], ds.where(), bad["msg"], config=cfg)


def check(rep, args):
    configs = ["ws"] if rep.tier == "quick" else common.ALL_CONFIGS
    rep.configs = configs
    for cfg in configs:
        check_config(rep, facts.program(cfg))
    cov = {
        "explanation": "Framebuf::rasterize interpreted over (predicate x depth order x shader result x flags) scenarios, render() interpreted on a reference "
                       "scene under every depth_sort setting, Context::depth_test / depth_sort over all float orderings; decides the write-on-pass "
                       "mechanism that order independence rests on, not image equality",
        "evaluations": len(rep.instances),
        "distinct_nontrivial": len({i["what"] for i in rep.instances}),
        "rules": ["W1", "W1e", "W2", "W3", "W4", "W5", "W6", "W7"],
    }
    return "other", cov, [
        "MIR at -Zmir-opt-level=0 faithfully represents the source (rustc MIR construction trusted)",
        "float comparison semantics of partial_cmp/total_cmp as documented by core",
        "numeric values (which fragment is nearer) are not decided"]
