"""C06 — hidden-surface removal is independent of submission order.

Decides (static, necessary conditions; engine D):
  W1  every write to the colour or depth buffer in Framebuf::rasterize is reachable
      only through the PASS edge of the depth test (edge dominance)
  W1e a depth store and a colour store exist on the pass path (a pass with
      writes enabled must update the pair)
  W2  the value tested is the value stored, and the test reads the very cell
      that is later overwritten
  W3  colour span and depth span are cut with identical row and x-range of the
      same scanline whose fragments() are zipped with them
  W4  Context::depth_test: abstract evaluation over the finite set of float
      orderings - with no predicate every fragment passes, with predicate `ord`
      a fragment passes iff cmp(curr, new) == ord (reciprocal depth: larger is nearer)
  W5  render(): the optional sort is applied to the clip output before the
      rasterisation loop, under the Some edge of ctx.depth_sort, with its payload
  W6  nothing in render() touches the target except Target::rasterize
      (no clearing between calls => splitting a scene into calls is harmless)
  W7  depth_sort comparator: abstract evaluation over orderings of the two keys

Leaves (not decided): equality of images over permutations, numeric depth values.
"""
from . import facts, guards as G, term as T, common, ordeval
from .render_common import TargetImpl, FB_RASTERIZE, RENDER, is_call_to


def check_config(rep, prog):
    cfg = prog.config
    fb = TargetImpl(prog, FB_RASTERIZE, True)
    rep.count("bodies_analysed", len(fb.bodies))

    # ---- W1 / W1e
    kinds = {"colour": 0, "depth": 0}
    n_tests = 0
    for b in fb.bodies:
        calls, edges = fb.depth_tests(b)
        n_tests += len(calls)
        pass_edges = [e for _bb, tr, _fa in edges for e in tr]
        stores = [s for s in fb.stores if s["body"] is b]
        for s in stores:
            kinds[s["kind"]] += 1
            ok = bool(pass_edges) and G.guarded_by(b, s["bb"], pass_edges)
            rep.inst("C06.W1", "%s write (%s) at %s guarded by depth-test pass edge: %s"
                     % (s["kind"], s["how"], s["where"], ok), config=cfg)
            if not ok:
                rep.violate("C06.W1", "W1|%s|%s|%s" % (b.path, s["kind"], s["how"].split(":")[0]), s["where"],
                            "%s buffer write (%s) is reachable without passing the depth test"
                            % (s["kind"], s["how"]), config=cfg, body=b.path)
        if calls and not edges:
            rep.violate("C06.W1", "W1|%s|test-unused" % b.path, b.where(calls[0][0], None),
                        "result of Context::depth_test does not control any branch", config=cfg)
    rep.floor("C06.depth_test_calls", n_tests, 1, "calls to Context::depth_test in Framebuf::rasterize")
    for k in ("colour", "depth"):
        if kinds[k] == 0:
            rep.violate("C06.W1e", "W1e|no-%s-store" % k, fb.root.where(),
                        "Framebuf::rasterize never writes the %s buffer: a passing fragment cannot replace the stored pair" % k,
                        config=cfg)

    # ---- W2
    for b in fb.bodies:
        sl = fb.sl[b.path]
        calls, _ = fb.depth_tests(b)
        for bi, t in calls:
            new_t = sl.operand(t["args"][1])
            cur_t = sl.operand(t["args"][2])
            dstores = [s for s in fb.stores if s["body"] is b and s["kind"] == "depth"]
            for s in dstores:
                same_val = s["value"] is not None and s["value"] == new_t
                same_cell = s["lhs"] == cur_t
                rep.inst("C06.W2", "depth store at %s: stored=%s tested=%s cell=%s read=%s"
                         % (s["where"], T.show(s["value"]) if s["value"] else s["how"], T.show(new_t),
                            T.show(s["lhs"]), T.show(cur_t)), config=cfg)
                if not same_val:
                    rep.violate("C06.W2", "W2|value|%s" % b.path, s["where"],
                                "depth value stored (%s) is not the value that was tested (%s)"
                                % (T.show(s["value"]) if s["value"] else s["how"], T.show(new_t)), config=cfg)
                if not same_cell:
                    rep.violate("C06.W2", "W2|cell|%s" % b.path, s["where"],
                                "depth test reads %s but the store overwrites %s" % (T.show(cur_t), T.show(s["lhs"])),
                                config=cfg)
            # the current depth must be a load through a buffer element reference
            if not (cur_t[0] == "deref"):
                rep.violate("C06.W2", "W2|curr-not-load|%s" % b.path, b.where(bi, None),
                            "second depth-test operand (%s) is not a load of the pixel's current depth" % T.show(cur_t),
                            config=cfg)

    # ---- W3
    root = fb.root
    sl = fb.sl[root.path]
    spans = {"colour": [], "depth": []}
    # the spans are whatever `&mut [u32]` / `&mut [f32]` values are cut out of the buffers by a range index (however they are then
    # paired with the fragments: zip chains, a zip of two iter_mut()s, a for loop)
    for bi, t in root.calls(lambda c: facts.callee_matches(c, "IndexMut<I> for [T]>::index_mut", "core::ops::index::IndexMut::index_mut")):
        dst = t.get("dest")
        if not dst or dst["p"]:
            continue
        ty = root.locals[dst["l"]]
        idx_t = T.strip(sl.operand(t["args"][1]), sites=True, refs=True)
        is_range = (idx_t[0] == "agg" and "Range" in idx_t[1]) or (idx_t[0] == "call" and idx_t[1].split(" => ")[0].endswith("Clone::clone")) or "Range" in T.show(idx_t)[:40]
        if ty in ("&mut [u32]", "&mut [f32]") and is_range:
            spans["colour" if ty == "&mut [u32]" else "depth"].append((bi, ("call", t["callee"]["path"], tuple(sl.operand(a) for a in t["args"]), None)))
    rep.floor("C06.W3.spans", len(spans["colour"]) + len(spans["depth"]), 2, "buffer spans zipped with fragments()")

    def norm(t):
        t = T.strip(t)

        def ren(x):
            if isinstance(x, tuple) and x and x[0] == "field" and x[2] in ("Framebuf.color_buf", "Framebuf.depth_buf"):
                return ("field", ren(x[1]), "Framebuf.BUF")
            if isinstance(x, tuple):
                return tuple(ren(y) if isinstance(y, tuple) else y for y in x)
            return x
        return ren(t)
    for (_b1, c), (_b2, d) in zip(spans["colour"], spans["depth"]):
        same = norm(c) == norm(d)
        rep.inst("C06.W3", "colour span %s  vs depth span %s : identical cut = %s" % (T.show(c), T.show(d), same), config=cfg)
        if not same:
            rep.violate("C06.W3", "W3|span-mismatch", root.where(_b2, None),
                        "colour and depth spans are cut differently: %s vs %s" % (T.show(c), T.show(d)), config=cfg)
        for name, sp in (("colour", c), ("depth", d)):
            flds = T.fields_in(sp)
            if "Scanline.y" not in flds or "Scanline.xs" not in flds:
                rep.violate("C06.W3", "W3|span-not-scanline|%s" % name, root.where(_b2, None),
                            "%s span is not addressed by the scanline's own row and x-range: %s" % (name, T.show(sp)),
                            config=cfg)

    # ---- W4 depth_test semantics over orderings
    dt = prog.body("retrofire_core::render::ctx::Context::depth_test")
    res = ordeval.eval_depth_test(prog, dt)
    rep.inst("C06.W4", "abstract evaluation of Context::depth_test over {<,=,>,unordered} x {None,Less,Equal,Greater}: %s" % res["table"], config=cfg)
    for bad in res["bad"]:
        rep.violate("C06.W4", "W4|%s" % bad["case"], dt.where(), bad["msg"], config=cfg)

    # ---- W5 sort placement in render(): whatever local function sorts the clip output (depth_sort(tris, mode), or one function per
    # mode) is called under the Some(depth_sort) arm, after clipping and before the raster loop; every mode is served
    from .rules_C01 import _only_sorts
    rn = prog.body(RENDER)
    rsl = T.Slicer(rn)
    clip_calls = list(rn.calls(lambda c: facts.callee_matches(c, "view_frustum::clip")))
    fill_calls = list(rn.calls(lambda c: facts.callee_matches(c, "raster::tri_fill")))
    rep.floor("C06.W5.anchors", min(len(clip_calls), len(fill_calls)), 1, "clip and tri_fill calls in render()")
    clip_out = T.strip(rsl.operand(clip_calls[0][1]["args"][1]), refs=True)
    sort_calls = []
    for bi, t in rn.calls():
        if not t["args"]:
            continue
        a0 = T.strip(rsl.operand(t["args"][0]), refs=True)
        nm = ((t["callee"].get("res") or {}).get("path") or t["callee"]["path"])
        if T.contains(a0, lambda s_: s_ == clip_out) and prog.lookup(nm) is not None and _only_sorts(prog, nm):
            sort_calls.append((bi, t, nm))
    some_e, none_e = G.option_edges(rn, rsl, lambda p: p[0] == "field" and p[2] == "Context.depth_sort")
    DS = "retrofire_core::render::ctx::DepthSort"
    inner = lambda p: p[0] == "field" and p[1][0] == "downcast" and T.contains(p, lambda f: f[0] == "field" and f[2] == "Context.depth_sort")  # noqa: E731
    mode_edges = {m: G.variant_edges(prog, rn, rsl, inner, DS, m) for m in ("FrontToBack", "BackToFront")}
    if not sort_calls:
        rep.violate("C06.W5", "W5|no-sort", rn.where(), "render() never sorts the clip output: the depth_sort setting has no effect", config=cfg)
    served = {}
    for bi, t, nm in sort_calls:
        ok_guard = bool(some_e) and G.guarded_by(rn, bi, some_e)
        after_clip = all(rn.dominates(cb, bi) for cb, _ in clip_calls)
        in_loop = any(bi in rn.reachable_from_succs(fbb) for fbb, _ in fill_calls)
        if len(t["args"]) >= 2:
            dterm = rsl.operand(t["args"][1])
            payload = T.contains(dterm, lambda s_: s_[0] == "downcast" and s_[2] == "Some" and T.contains(s_[1], lambda f: f[0] == "field" and f[2] == "Context.depth_sort"))
            modes = ("FrontToBack", "BackToFront")
        else:
            modes = tuple(m for m, es in mode_edges.items() if es and G.guarded_by(rn, bi, es))
            payload = len(modes) == 1
        for m in modes:
            served.setdefault(m, []).append((nm, len(t["args"]) >= 2))
        rep.inst("C06.W5", "sort of the clip output by %s at %s: under Some(depth_sort) edge=%s, mode %s, after clip=%s, outside raster loop=%s"
                 % (nm.rsplit("::", 1)[-1], rn.where(bi, None), ok_guard, "passed as argument" if len(t["args"]) >= 2 else "/".join(modes) or "UNDETERMINED", after_clip, not in_loop), config=cfg)
        if not (ok_guard and payload and after_clip and not in_loop):
            rep.violate("C06.W5", "W5|sort-shape", rn.where(bi, None),
                        "the clip output is sorted outside 'if let Some(d) = ctx.depth_sort', without the selected mode, before clipping or inside the raster loop "
                        "(guard=%s mode=%s after_clip=%s in_loop=%s)" % (ok_guard, payload, after_clip, in_loop), config=cfg)
    if sort_calls:
        for m in ("FrontToBack", "BackToFront"):
            if m not in served:
                rep.violate("C06.W5", "W5|mode-unserved|%s" % m, rn.where(), "no sort of the clip output is performed for DepthSort::%s" % m, config=cfg)
    # the loop iterates the clip output
    it = list(rn.calls(lambda c: facts.callee_matches(c, "IntoIterator::into_iter")))
    loop_ok = False
    if clip_calls:
        clip_out = T.strip(rsl.operand(clip_calls[0][1]["args"][1]), refs=True)
        for bi, t in it:
            a = T.strip(rsl.operand(t["args"][0]), refs=True)
            if a == clip_out and any(fbb in rn.reachable_from_succs(bi) for fbb, _ in fill_calls):
                loop_ok = True
    rep.inst("C06.W5", "raster loop iterates the vector filled by view_frustum::clip: %s" % loop_ok, config=cfg)
    if not loop_ok:
        rep.violate("C06.W5", "W5|loop-source", rn.where(), "the rasterisation loop does not iterate the clip output", config=cfg)

    # ---- W6 who-may-touch the target in render()
    fam = prog.family(RENDER)
    n_rast = 0
    for b in fam:
        bsl = T.Slicer(b)
        for bi, ti, t in b.terms():
            if t["k"] != "Call":
                continue
            for ai, a in enumerate(t["args"]):
                at = bsl.operand(a)
                core_t = T.strip(at, refs=True)
                touches = core_t == ("upvar", "target") or (b is fam[0] and core_t == ("param", 6))
                if not touches:
                    continue
                c = t.get("callee")
                name = c["path"] if c else "<indirect>"
                if "render::target::Target::rasterize" in name:
                    n_rast += 1
                    continue
                rep.violate("C06.W6", "W6|%s|%s" % (b.path, name), b.where(bi, ti),
                            "render() passes the target to %s; only Target::rasterize may touch it" % name, config=cfg)
    rep.inst("C06.W6", "uses of `target` in render() family: %d, all Target::rasterize" % n_rast, config=cfg)
    rep.floor("C06.W6", n_rast, 1, "Target::rasterize call sites in render()")

    # ---- W7 comparator of the sort function(s), per mode
    done = set()
    for m, lst in sorted(served.items()):
        for nm, has_arg in lst:
            if (nm, m if not has_arg else "*") in done:
                continue
            done.add((nm, m if not has_arg else "*"))
            ds = prog.lookup(nm)
            res7 = ordeval.eval_depth_sort(prog, ds, modes=("FrontToBack", "BackToFront") if has_arg else (m,), mode_arg=has_arg)
            rep.inst("C06.W7", "abstract evaluation of the comparator of %s: %s" % (nm.rsplit("::", 1)[-1], res7["table"]), config=cfg)
            for bad in res7["bad"]:
                rep.violate("C06.W7", "W7|%s" % bad["case"], ds.where(), bad["msg"], config=cfg)


def check(rep, args):
    configs = ["ws"] if rep.tier == "quick" else common.ALL_CONFIGS
    rep.configs = configs
    for cfg in configs:
        check_config(rep, facts.program(cfg))
    cov = {
        "explanation": "dominance / control-dependence / provenance rules over the MIR of Framebuf::rasterize, "
                       "Context::depth_test, render() and depth_sort; decides the write-on-pass mechanism that order "
                       "independence rests on, not image equality",
        "evaluations": len(rep.instances),
        "distinct_nontrivial": len({i["what"] for i in rep.instances}),
        "rules": ["W1", "W1e", "W2", "W3", "W4", "W5", "W6", "W7"],
    }
    return "other", cov, [
        "MIR at -Zmir-opt-level=0 faithfully represents the source (rustc MIR construction trusted)",
        "float comparison semantics of partial_cmp/total_cmp as documented by core",
        "numeric values (which fragment is nearer) are not decided"]
