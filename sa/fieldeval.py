#!/usr/bin/env python3-vt
"""Exact arithmetic in the field of rational functions Q(x1..xn) (sympy's sparse fraction
field: every operation cancels common factors by polynomial gcd). Reads a DAG of ring
operations from stdin, decides the requested identities `node_a == node_b`, prints JSON.
Runs under the tooling interpreter (python3-vt) because sympy lives there."""
import json
import sys
from fractions import Fraction

from sympy import QQ
from sympy.polys.fields import field


def main():
    job = json.load(sys.stdin)
    gens = job["gens"] or ["_dummy"]
    F, *xs = field(",".join(gens), QQ)
    env = dict(zip(gens, xs))
    vals = []
    for n in job["nodes"]:
        k = n[0]
        if k == "sym":
            vals.append(env[n[1]])
        elif k == "const":
            fr = Fraction(n[1])
            vals.append(F(QQ(fr.numerator, fr.denominator)))
        elif k == "Neg":
            vals.append(-vals[n[1]])
        else:
            a, b = vals[n[1]], vals[n[2]]
            if k == "Add":
                vals.append(a + b)
            elif k == "Sub":
                vals.append(a - b)
            elif k == "Mul":
                vals.append(a * b)
            elif k == "Div":
                if b == 0:
                    print(json.dumps({"error": "division by the zero function at node %d" % len(vals)}))
                    return
                vals.append(a / b)
            else:
                raise SystemExit("unknown op %r" % k)
    out = []
    for a, b in job["checks"]:
        d = vals[a] - vals[b]
        out.append({"equal": bool(d == 0), "diff": None if d == 0 else str(d)[:300]})
    print(json.dumps({"results": out, "nodes": len(vals)}))


if __name__ == "__main__":
    main()
