"""Symbolic-algebra layer on top of the abstract interpreter (engine A over a
commutative-ring domain).

Scalars are polynomials-in-waiting: ('sym', name), float constants and
('symop', op, a, b) trees; `to_poly` normalises them so that two results can be
compared up to the ring axioms. Iterator adaptors, array::from_fn/map and the
library's own generic vector helpers are interpreted (the latter from their MIR,
with const generics bound per call), so a statement such as
    compose(A, B).apply(v) == A.apply(B.apply(v))
is decided as a polynomial identity over symbolic matrix entries — over the
reals; float rounding is not modelled.
"""
from fractions import Fraction

from . import absint as A, poly as P


# ---------------------------------------------------------------- iterators

class It:
    def next(self, it, depth):
        raise NotImplementedError


class ListIt(It):
    def __init__(self, items):
        self.items = list(items)
        self.pos = 0

    def next(self, it, depth):
        if self.pos < len(self.items):
            v = self.items[self.pos]
            self.pos += 1
            return v
        return None


class CountIt(It):
    """n.. (unbounded)"""
    def __init__(self, start):
        self.n = start

    def next(self, it, depth):
        v = self.n
        self.n += 1
        return v


class ZipIt(It):
    def __init__(self, a, b):
        self.a, self.b = a, b

    def next(self, it, depth):
        x = self.a.next(it, depth)
        if x is None:
            return None
        y = self.b.next(it, depth)
        if y is None:
            return None
        return ("tuple", [x, y])


class MapIt(It):
    def __init__(self, a, f):
        self.a, self.f = a, f

    def next(self, it, depth):
        x = self.a.next(it, depth)
        if x is None:
            return None
        return it.invoke(self.f, [x], depth)


class EnumIt(It):
    def __init__(self, a):
        self.a, self.n = a, 0

    def next(self, it, depth):
        x = self.a.next(it, depth)
        if x is None:
            return None
        self.n += 1
        return ("tuple", [self.n - 1, x])


class DerefIt(It):
    def __init__(self, a):
        self.a = a

    def next(self, it, depth):
        x = self.a.next(it, depth)
        if x is None:
            return None
        return A.copy_val(A.deref_all(it, x))


class ChainIt(It):
    def __init__(self, a, b):
        self.a, self.b = a, b

    def next(self, it, depth):
        x = self.a.next(it, depth)
        return x if x is not None else self.b.next(it, depth)


class TakeIt(It):
    def __init__(self, a, n):
        self.a, self.n = a, n

    def next(self, it, depth):
        if self.n <= 0:
            return None
        self.n -= 1
        return self.a.next(it, depth)


def _local_iter_impl(it, v):
    """`impl Iterator for <local ADT>`: the body of its `next`, if the value is such an ADT"""
    if not (isinstance(v, tuple) and v[0] == "adt" and v[1].startswith("retrofire_")):
        return None
    rel = v[1].split("::", 1)[1]
    for b in it.prog.bodies.values():
        if b.kind == "AssocFn" and (b.impl_trait or "").endswith("iter::traits::iterator::Iterator") and b.path.endswith("::next") \
                and ((b.impl_self or "").startswith(rel + "<") or (b.impl_self or "") == rel):
            return b
    return None


class UserIt(It):
    """a user-defined iterator (local `impl Iterator`), advanced by interpreting its own `next`"""
    def __init__(self, ref, body):
        self.ref, self.body = ref, body

    def next(self, it, depth):
        r = A.deref_all(it, it.call_body(self.body, [self.ref], depth + 1, env=it.infer_env(self.body, [self.ref])))
        if not (isinstance(r, tuple) and r[0] == "adt" and r[2] in ("Some", "None")):
            raise A.Undecided("user iterator returned %r" % (r,))
        return None if r[2] == "None" else r[3][0]


def as_iter(it, v):
    """IntoIterator::into_iter on a runtime value"""
    if isinstance(v, tuple) and v[0] == "iter":
        return v[1]
    if isinstance(v, tuple) and v[0] == "ref":
        tgt0 = A.deref_all(it, v)
        ub = _local_iter_impl(it, tgt0)
        if ub is not None:
            r = v
            while isinstance(it.load_ref(r), tuple) and it.load_ref(r)[0] == "ref":
                r = it.load_ref(r)
            return UserIt(r, ub)
    if isinstance(v, tuple) and v[0] == "adt" and _local_iter_impl(it, v) is not None:
        cell = A.Frame(None)
        cell.locals[0] = v
        return UserIt(("ref", cell, 0, []), _local_iter_impl(it, v))
    if isinstance(v, tuple) and v[0] == "ref":
        tgt = it.load_ref(v)
        while isinstance(tgt, tuple) and tgt[0] == "ref":      # &&[T]: iterate the slice behind the references
            v = tgt
            tgt = it.load_ref(v)
        if isinstance(tgt, tuple) and tgt[0] == "iter":
            return tgt[1]
        if isinstance(tgt, tuple) and tgt[0] == "array" and len(tgt) > 2 and tgt[2] == "window":
            return ListIt(list(tgt[1]))
        if isinstance(tgt, tuple) and tgt[0] == "array":
            return ListIt([("ref", v[1], v[2], list(v[3]) + [{"ci": i, "ml": 0, "fe": False}]) for i in range(len(tgt[1]))])
        raise A.Undecided("into_iter on a reference to %r" % (tgt,))
    if isinstance(v, tuple) and v[0] == "array":
        return ListIt([A.copy_val(x) for x in v[1]])
    if isinstance(v, tuple) and v[0] == "adt" and v[1].endswith("ops::range::Range") and all(isinstance(x, int) for x in v[3]):
        return ListIt(list(range(v[3][0], v[3][1])))
    if isinstance(v, tuple) and v[0] == "adt" and v[1].endswith("ops::range::RangeFrom") and isinstance(v[3][0], int):
        return CountIt(v[3][0])
    if isinstance(v, tuple) and v[0] == "adt" and v[1].endswith("ops::range::RangeInclusive") and all(isinstance(x, int) for x in v[3][:2]):
        return ListIt(list(range(v[3][0], v[3][1] + 1)))
    if isinstance(v, tuple) and v[0] == "adt" and v[1].endswith("option::Option"):          # Option as a zero-or-one element iterator
        return ListIt([A.copy_val(x) for x in v[3][:1]] if v[2] == "Some" else [])
    raise A.Undecided("into_iter on %r" % (v,))


def _drain(itobj, it, depth):
    out = []
    while True:
        x = itobj.next(it, depth)
        if x is None:
            return out
        out.append(x)
        if len(out) > 4096:
            raise A.Undecided("iterator too long")


def m_slice_iter(it, args, callee, depth):
    return ("iter", as_iter(it, args[0]))


def m_into_iter(it, args, callee, depth):
    return ("iter", as_iter(it, args[0]))


def m_zip(it, args, callee, depth):
    return ("iter", ZipIt(as_iter(it, args[0]), as_iter(it, args[1])))


def m_map(it, args, callee, depth):
    return ("iter", MapIt(as_iter(it, args[0]), args[1]))


def m_enumerate(it, args, callee, depth):
    return ("iter", EnumIt(as_iter(it, args[0])))


def m_deref_iter(it, args, callee, depth):
    return ("iter", DerefIt(as_iter(it, args[0])))


def m_rev(it, args, callee, depth):
    return ("iter", ListIt(list(reversed(_drain(as_iter(it, args[0]), it, depth)))))


def m_chain(it, args, callee, depth):
    return ("iter", ChainIt(as_iter(it, args[0]), as_iter(it, args[1])))


def m_take(it, args, callee, depth):
    if not isinstance(args[1], int):
        raise A.Undecided("take(n) with undecided n")
    return ("iter", TakeIt(as_iter(it, args[0]), args[1]))


def m_next(it, args, callee, depth):
    v = args[0]
    tgt = it.load_ref(v) if isinstance(v, tuple) and v[0] == "ref" else v
    if isinstance(tgt, tuple) and tgt[0] == "iter":
        x = tgt[1].next(it, depth)
        return A.NONE if x is None else A.some(x)
    if _local_iter_impl(it, tgt) is not None:
        return NotImplemented                     # a local `impl Iterator`: interpret its own next()
    if isinstance(tgt, tuple) and tgt[0] == "adt" and tgt[1].endswith("ops::range::Range") and all(isinstance(x, int) for x in tgt[3]):
        if tgt[3][0] < tgt[3][1]:
            cur = tgt[3][0]
            tgt[3][0] = cur + 1
            return A.some(cur)
        return A.NONE
    return NotImplemented


def m_fold(it, args, callee, depth):
    acc = args[1]
    for x in _drain(as_iter(it, args[0]), it, depth):
        acc = it.invoke(args[2], [acc, x], depth)
    return acc


def m_sum(it, args, callee, depth):
    items = _drain(as_iter(it, args[0]), it, depth)
    items = [A.deref_all(it, x) for x in items]
    if items and all(isinstance(x, int) for x in items):
        return sum(items)                  # integer sum of concrete values (width checks are the panic inventory's business)
    acc = ("f", 0.0)
    for x in items:
        acc = it.binop("Add", acc, x, "f32")
    return acc


def m_for_each(it, args, callee, depth):
    for x in _drain(as_iter(it, args[0]), it, depth):
        it.invoke(args[1], [x], depth)
    return ("tuple", [])


def m_try_for_each(it, args, callee, depth):
    """Iterator::try_for_each: stops at the first Err / None / Break the closure returns and hands it back; otherwise the unit success"""
    src = as_iter(it, args[0])
    kind = None
    while True:
        x = src.next(it, depth)
        if x is None:
            break
        r = A.deref_all(it, it.invoke(args[1], [x], depth))
        if not (isinstance(r, tuple) and r[0] == "adt" and r[2] in ("Ok", "Err", "Some", "None", "Continue", "Break")):
            raise A.Undecided("try_for_each closure returned %r" % (str(r)[:60],))
        kind = r[1]
        if r[2] in ("Err", "None", "Break"):
            return r
    full = " ".join([(callee or {}).get("full", ""), " ".join((callee or {}).get("args") or [])])
    if kind is None:
        kind = "core::option::Option" if "Option<" in full else "core::ops::control_flow::ControlFlow" if "ControlFlow<" in full else "core::result::Result"
    ok = {"core::result::Result": "Ok", "core::option::Option": "Some", "core::ops::control_flow::ControlFlow": "Continue"}.get(kind)
    if ok is None:
        raise A.Undecided("try_for_each over %s" % kind)
    return ("adt", kind, ok, [("tuple", [])])


def m_count(it, args, callee, depth):
    """Iterator::count: consumes the iterator (adaptor closures run for every item)"""
    return len(_drain(as_iter(it, args[0]), it, depth))


def m_collect(it, args, callee, depth):
    return ("array", _drain(as_iter(it, args[0]), it, depth))


def m_from_fn(it, args, callee, depth):
    n = None
    ga = (callee or {}).get("args") or []
    if len(ga) >= 2:
        n = it.resolve_generic(ga[1], getattr(it, "cur_env", {}) or {})
    if not isinstance(n, int):
        raise A.Undecided("array::from_fn with undecided length %r" % (n,))
    return ("array", [it.invoke(args[0], [i], depth) for i in range(n)])


def m_array_map(it, args, callee, depth):
    arr = A.deref_all(it, args[0])
    if not (isinstance(arr, tuple) and arr[0] == "array"):
        raise A.Undecided("array map on %r" % (arr,))
    return ("array", [it.invoke(args[1], [A.copy_val(x)], depth) for x in arr[1]])


def m_vec_index(it, args, callee, depth):
    r, i = args[0], args[1]
    if isinstance(r, tuple) and r[0] == "ref" and isinstance(i, int):
        return ("ref", r[1], r[2], list(r[3]) + [{"f": 0, "n": "0", "of": "", "ty": ""}, {"ci": i, "ml": 0, "fe": False}])
    raise A.Undecided("Vector/Point index on %r[%r]" % (r, i))


def m_arith(op):
    def f(it, args, callee, depth):
        res = ((callee or {}).get("res") or {}).get("path", "")
        if res and res in it.prog.bodies:
            return NotImplemented
        a = A.deref_all(it, args[0])
        if op == "Neg":
            if isinstance(a, tuple) and a[0] == "f":
                return ("f", -a[1])
            if isinstance(a, tuple) and a[0] in ("sym", "symop", "f"):
                return ("symop", "Neg", a, None)
            return NotImplemented
        b = A.deref_all(it, args[1])
        scal = lambda x: isinstance(x, int) or (isinstance(x, tuple) and x[0] in ("sym", "symop", "f"))  # noqa: E731
        if scal(a) and scal(b):
            return it.binop(op, a, b, "f32")
        return NotImplemented
    return f


def m_arith_assign(op):
    def f(it, args, callee, depth):
        res = ((callee or {}).get("res") or {}).get("path", "")
        if res and res in it.prog.bodies:
            return NotImplemented
        r = args[0]
        if not (isinstance(r, tuple) and r[0] == "ref"):
            return NotImplemented
        a = it.load_ref(r)
        b = A.deref_all(it, args[1])
        it._store(r[1], r[2], list(r[3]), it.binop(op, a, b, "f32"))
        return ("tuple", [])
    return f


WRAPPERS = {"math::vec::Vector": "retrofire_core::math::vec::Vector", "math::point::Point": "retrofire_core::math::point::Point",
            "math::mat::Matrix": "retrofire_core::math::mat::Matrix", "math::color::Color": "retrofire_core::math::color::Color"}


def _wrap_for(ty):
    ty = ty.replace("retrofire_core::", "")
    for k, full in WRAPPERS.items():
        if ty.startswith(k + "<"):
            return full
    return None


def m_into(it, args, callee, depth):
    res = ((callee or {}).get("res") or {}).get("path", "")
    ga = (callee or {}).get("args") or []
    v = args[0]
    is_into = (callee or {}).get("path", "").endswith("Into::into")
    tgt = ga[1] if (is_into and len(ga) > 1) else (ga[0] if ga else "")
    env = getattr(it, "cur_env", {}) or {}
    tgt = it.resolve_generic(tgt, env) if isinstance(tgt, str) else tgt
    dv = A.deref_all(it, v)
    # a user-written `impl From<Src> for Dst` (e.g. polar/spherical <-> Cartesian) is a real conversion: run it
    rb = it.prog.lookup(res) if res else None
    if rb is not None and rb.impl_trait is not None:
        return it.call_body(rb, [v], depth + 1)
    src = it.resolve_generic(ga[0], env) if (is_into and ga) else (it.resolve_generic(ga[1], env) if (not is_into and len(ga) > 1) else None)
    if isinstance(src, str) and isinstance(tgt, str):
        idx = getattr(it.prog, "_from_impls", None)
        if idx is None:
            idx = {}
            for pth in it.prog.bodies:
                k0 = pth.find("<impl core::convert::From<")
                if k0 >= 0 and pth.endswith(">::from") and "> for " in pth:
                    inner = pth[k0 + len("<impl core::convert::From<"):-len(">::from")]
                    a_, _, b_ = inner.rpartition("> for ")
                    idx[(a_.replace(" ", ""), b_.replace(" ", ""))] = pth
            it.prog._from_impls = idx
        norm = lambda t: t.replace("retrofire_core::", "").replace(" ", "")  # noqa: E731
        hit = idx.get((norm(src), norm(tgt)))
        if hit:
            return it.call_body(it.prog.bodies[hit], [v], depth + 1)
    if isinstance(tgt, str):
        w = _wrap_for(tgt)
        if w and isinstance(dv, tuple) and dv[0] == "array":
            return ("adt", w, w.rsplit("::", 1)[-1], [dv, ("tuple", [])])
        if tgt.startswith("[") and isinstance(dv, tuple) and dv[0] == "adt" and dv[3] and isinstance(dv[3][0], tuple) and dv[3][0][0] == "array":
            return dv[3][0]
    return v


ALG_MODELS = {
    "core::convert::Into::into": m_into,
    "core::convert::From::from": m_into,
    "core::ops::arith::Add": m_arith("Add"),
    "core::ops::arith::Sub": m_arith("Sub"),
    "core::ops::arith::Mul": m_arith("Mul"),
    "core::ops::arith::Div": m_arith("Div"),
    "core::ops::arith::Neg": m_arith("Neg"),
    "core::slice::<impl [T]>::iter": m_slice_iter,
    "core::slice::<impl [T]>::iter_mut": m_slice_iter,
    "IntoIterator::into_iter": m_into_iter,
    "core::iter::traits::iterator::Iterator::zip": m_zip,
    "core::iter::adapters::zip::zip": m_zip,
    "core::iter::traits::iterator::Iterator::map": m_map,
    "core::iter::traits::iterator::Iterator::enumerate": m_enumerate,
    "core::iter::traits::iterator::Iterator::cloned": m_deref_iter,
    "core::iter::traits::iterator::Iterator::copied": m_deref_iter,
    "core::iter::traits::iterator::Iterator::rev": m_rev,
    "core::iter::traits::iterator::Iterator::chain": m_chain,
    "core::iter::traits::iterator::Iterator::take": m_take,
    "core::iter::traits::iterator::Iterator::next": m_next,
    "core::iter::traits::iterator::Iterator::fold": m_fold,
    "core::iter::traits::iterator::Iterator::sum": m_sum,
    "core::iter::traits::iterator::Iterator::for_each": m_for_each,
    "core::iter::traits::iterator::Iterator::try_for_each": m_try_for_each,
    "core::iter::traits::iterator::Iterator::count": m_count,
    "core::iter::traits::iterator::Iterator::collect": m_collect,
    "core::array::from_fn": m_from_fn,
    "array::<impl [T; N]>::map": m_array_map,
    "math::vec::Vector<R, Sp> as core::ops::index::Index<usize>>::index": m_vec_index,
    "math::point::Point<R, Sp> as core::ops::index::Index<usize>>::index": m_vec_index,
    "math::vec::Vector<R, Sp> as core::ops::index::IndexMut<usize>>::index_mut": m_vec_index,
}


# ---------------------------------------------------------------- values

VEC = "retrofire_core::math::vec::Vector"
PT = "retrofire_core::math::point::Point"
MAT = "retrofire_core::math::mat::Matrix"


def sym(n):
    return ("sym", n)


def vector(names):
    return ("adt", VEC, "Vector", [("array", [sym(n) if isinstance(n, str) else n for n in names]), ("tuple", [])])


def point(names):
    return ("adt", PT, "Point", [("array", [sym(n) if isinstance(n, str) else n for n in names]), ("tuple", [])])


def matrix(prefix, n, rows=None):
    rows = rows or [[sym("%s%d%d" % (prefix, i, j)) for j in range(n)] for i in range(n)]
    return ("adt", MAT, "Matrix", [("array", [("array", list(r)) for r in rows]), ("tuple", [])])


def ref_to(v):
    cell = A.Frame(None)
    cell.locals[0] = v
    return ("ref", cell, 0, [])


def components(it, v):
    """scalar components of a Vector / Point / Matrix / array value (row-major)"""
    v = A.deref_all(it, v)
    if isinstance(v, tuple) and v[0] == "adt" and v[3]:
        return components(it, v[3][0])
    if isinstance(v, tuple) and v[0] == "array":
        out = []
        for x in v[1]:
            x = A.deref_all(it, x)
            if isinstance(x, tuple) and x[0] in ("array", "adt"):
                out += components(it, x)
            else:
                out.append(x)
        return out
    return [v]


class NotPolynomial(Exception):
    pass


def to_poly(v, relations=None):
    """value -> polynomial dict. Opaque sub-values become symbols named by their repr."""
    if isinstance(v, bool):
        return {(): Fraction(int(v))} if v else {}
    if isinstance(v, int):
        return {(): Fraction(v)} if v else {}
    if not isinstance(v, tuple):
        raise NotPolynomial(repr(v))
    if v[0] == "f":
        return {(): Fraction(v[1])} if v[1] != 0 else {}
    if v[0] == "sym":
        return {(v[1],): Fraction(1)}
    if v[0] == "symop":
        op = v[1]
        if op in ("Add", "Sub", "Mul"):
            a, b = to_poly(v[2]), to_poly(v[3])
            if op == "Add":
                return P.padd(a, b)
            if op == "Sub":
                return P.padd(a, {m: -c for m, c in b.items()})
            return P.pmul(a, b)
        if op == "Neg":
            return {m: -c for m, c in to_poly(v[2]).items()}
        if op == "Div":
            b = to_poly(v[3])
            if set(b) <= {()} and b.get((), 0) != 0:
                return {m: c / b[()] for m, c in to_poly(v[2]).items()}
            raise NotPolynomial("division by a non-constant: %r" % (v[3],))
        if op.startswith("cast:f"):
            return to_poly(v[2])       # int -> float conversion of a symbolic integer: exact for the magnitudes of interest
        return {("?%r" % (v,),): Fraction(1)}
    if v[0] == "unknown":
        raise NotPolynomial("unknown value")
    return {("?%r" % (v,),): Fraction(1)}


def reduce_mod(p, rels):
    """Reduce polynomial p modulo relations of the form  sym_a^2 -> poly  (e.g. s^2 -> 1 - c^2)."""
    changed = True
    guard = 0
    while changed and guard < 64:
        guard += 1
        changed = False
        out = {}
        for mono, c in p.items():
            done = False
            for (s, repl) in rels:
                if mono.count(s) >= 2:
                    lst = list(mono)
                    lst.remove(s)
                    lst.remove(s)
                    rest = {tuple(sorted(lst)): c}
                    out = P.padd(out, P.pmul(rest, repl))
                    done = True
                    changed = True
                    break
            if not done:
                out = P.padd(out, {mono: c})
        p = out
    return p


def interp(prog, models=None, oracle=None):
    m = dict(ALG_MODELS)
    # the std transfer functions of sa/constfold.py (Vec, slices, iterator adaptors, mem::swap, integer helpers ...) are part of every
    # interpretation; the ring domain's own models and the caller's keep priority for the same key
    from . import constfold as CF
    for k, v in CF.MODELS.items():
        m.setdefault(k, v)
    m.update(models or {})
    return A.Interp(prog, oracle=oracle, models=m, fuel=2000000, max_depth=64)


def to_ratio(v):
    """value -> (numerator polynomial, denominator polynomial)"""
    one = {(): Fraction(1)}
    if isinstance(v, tuple) and v[0] == "symop" and v[1] in ("Add", "Sub", "Mul", "Div", "Neg"):
        op = v[1]
        if op == "Neg":
            n, d = to_ratio(v[2])
            return ({m: -c for m, c in n.items()}, d)
        (n1, d1), (n2, d2) = to_ratio(v[2]), to_ratio(v[3])
        if op == "Mul":
            return (P.pmul(n1, n2), P.pmul(d1, d2))
        if op == "Div":
            return (P.pmul(n1, d2), P.pmul(d1, n2))
        a, b = P.pmul(n1, d2), P.pmul(n2, d1)
        if op == "Sub":
            b = {m: -c for m, c in b.items()}
        return (P.padd(a, b), P.pmul(d1, d2))
    if isinstance(v, tuple) and v[0] == "symop" and v[1].startswith("cast:f"):
        return to_ratio(v[2])
    return (to_poly(v), one)


def ratio_eq(a, b):
    """a, b: (num, den) pairs; equality as rational functions"""
    return P.pmul(a[0], b[1]) == P.pmul(b[0], a[1])


def m_recip(it, args, callee, depth):
    x = A.deref_all(it, args[0])
    return ("symop", "Div", ("f", 1.0), x)


ALG_MODELS["f32>::recip"] = m_recip


def m_abs(it, args, callee, depth):
    x = A.deref_all(it, args[0])
    if isinstance(x, tuple) and x[0] == "f":
        return ("f", abs(x[1]))
    return ("symop", "abs", x, None)


ALG_MODELS["f32>::abs"] = m_abs
for _k in ("$float::fallback::abs", "$::fabsf", "$float::mm::abs", "$float::libm::abs", "$float::f32::abs"):
    ALG_MODELS[_k] = m_abs


def _opaque(name):
    def f(it, args, callee, depth):
        vals = [A.deref_all(it, a) for a in args]
        if all(isinstance(v, tuple) and v[0] == "f" for v in vals):
            try:
                x = [v[1] for v in vals]
                if name == "fclamp":
                    return ("f", min(max(x[0], x[1]), x[2]))
                if name == "fmin":
                    return ("f", min(x))
                if name == "fmax":
                    return ("f", max(x))
            except Exception:
                pass
        return ("symop", name, vals[0], tuple(vals[1:]) if len(vals) > 2 else (vals[1] if len(vals) > 1 else None))
    return f


def m_slice_swap(it, args, callee, depth):
    """<[T]>::swap(a, b) through a mutable reference to an array"""
    r = args[0]
    while isinstance(r, tuple) and r[0] == "ref" and isinstance(it.load_ref(r), tuple) and it.load_ref(r)[0] == "ref":
        r = it.load_ref(r)
    arr = it.load_ref(r) if isinstance(r, tuple) and r[0] == "ref" else None
    i, j = A.deref_all(it, args[1]), A.deref_all(it, args[2])
    if not (isinstance(arr, tuple) and arr[0] == "array" and isinstance(i, int) and isinstance(j, int)):
        raise A.Undecided("slice::swap on %r" % (arr,))
    if i >= len(arr[1]) or j >= len(arr[1]):
        raise A.Panic("swap index out of bounds")
    new = list(arr[1])
    new[i], new[j] = new[j], new[i]
    _tag, fr, local, projs = r
    it._store(fr, local, projs, ("array", new))
    return ("tuple", [])


ALG_MODELS["slice::<impl [T]>::swap"] = m_slice_swap


def m_len(it, args, callee, depth):
    v = A.deref_all(it, args[0])
    if isinstance(v, tuple) and v[0] == "array":
        return len(v[1])
    if isinstance(v, tuple) and v[0] == "symvec":
        return ("sym", v[1])            # a vector of symbolic length
    return NotImplemented


def m_mem_replace(it, args, callee, depth):
    r = args[0]
    if not (isinstance(r, tuple) and r[0] == "ref"):
        raise A.Undecided("mem::replace through %r" % (r,))
    old = it.load_ref(r)
    it._store(r[1], r[2], list(r[3]), args[1])
    return old


def _truth(it, v):
    v = A.deref_all(it, v)
    if not isinstance(v, int):
        raise A.Undecided("predicate returned undecided value %r" % (v,))
    return bool(v)


def m_all(it, args, callee, depth):
    for x in _lazy(as_iter(it, args[0]), it, depth):
        if not _truth(it, it.invoke(args[1], [x], depth)):
            return 0
    return 1


def _lazy(itobj, it, depth):
    """items one at a time (short-circuiting adaptors consume only what they look at; the source may be unbounded)"""
    n = 0
    while True:
        x = itobj.next(it, depth)
        if x is None:
            return
        yield x
        n += 1
        if n > 4096:
            raise A.Undecided("iterator too long")


def m_any(it, args, callee, depth):
    for x in _lazy(as_iter(it, args[0]), it, depth):
        if _truth(it, it.invoke(args[1], [x], depth)):
            return 1
    return 0


def m_position(it, args, callee, depth):
    for i, x in enumerate(_lazy(as_iter(it, args[0]), it, depth)):
        if _truth(it, it.invoke(args[1], [x], depth)):
            return A.some(i)
    return A.NONE


def m_find(it, args, callee, depth):
    for x in _lazy(as_iter(it, args[0]), it, depth):
        cell = A.Frame(None)
        cell.locals[0] = x
        if _truth(it, it.invoke(args[1], [("ref", cell, 0, [])], depth)):
            return A.some(x)
    return A.NONE


ALG_MODELS["core::iter::traits::iterator::Iterator::all"] = m_all
ALG_MODELS["core::iter::traits::iterator::Iterator::any"] = m_any
ALG_MODELS["core::iter::traits::iterator::Iterator::position"] = m_position
ALG_MODELS["core::iter::traits::iterator::Iterator::find"] = m_find


def m_each_ref(it, args, callee, depth):
    r = args[0]
    arr = A.deref_all(it, r)
    if not (isinstance(arr, tuple) and arr[0] == "array" and isinstance(r, tuple) and r[0] == "ref"):
        raise A.Undecided("each_ref on %r" % (arr,))
    while isinstance(it.load_ref(r), tuple) and it.load_ref(r)[0] == "ref":
        r = it.load_ref(r)
    return ("array", [("ref", r[1], r[2], list(r[3]) + [{"ci": i, "ml": 0, "fe": False}]) for i in range(len(arr[1]))])


ALG_MODELS["array::<impl [T; N]>::each_ref"] = m_each_ref
ALG_MODELS["array::<impl [T; N]>::each_mut"] = m_each_ref
ALG_MODELS["core::mem::replace"] = m_mem_replace
ALG_MODELS["core::iter::traits::iterator::Iterator::by_ref"] = lambda it, args, callee, depth: args[0]
ALG_MODELS["$vec::Vec::<T, A>::len"] = m_len
ALG_MODELS["$slice::<impl [T]>::len"] = m_len


def m_mul_add(it, args, callee, depth):
    a, b, c = [A.deref_all(it, x) for x in args[:3]]
    return it.binop("Add", it.binop("Mul", a, b, "f32"), c, "f32")


ALG_MODELS.setdefault("$f32>::clamp", _opaque("fclamp"))
ALG_MODELS.setdefault("$f32>::min", _opaque("fmin"))
ALG_MODELS.setdefault("$f32>::max", _opaque("fmax"))
ALG_MODELS.setdefault("$f32>::mul_add", m_mul_add)


# ---------------------------------------------------------------- path exploration

def explore(run, max_paths=32, base_oracle=None):
    """Enumerate the outcomes of a symbolic run whose control flow depends on comparisons
    the domain cannot decide. `run(oracle)` performs one run; each undecided comparison is
    answered from a decision prefix and the alternative answer is queued (replay forking).
    Returns [(trace, result)] with trace = [(op, a, b, answer)]; operands that are UNKNOWN
    stay undecided (the run raises Undecided as before)."""
    pending = [()]
    outs = []
    while pending:
        if len(outs) >= max_paths:
            raise A.Undecided("more than %d paths through undecided comparisons" % max_paths)
        prefix = pending.pop()
        trace = []

        def orc(op, a, b, prefix=prefix, trace=trace):
            if base_oracle is not None:
                r = base_oracle(op, a, b)
                if r is not None:
                    return r
            if a is A.UNKNOWN or b is A.UNKNOWN or a == A.UNKNOWN or b == A.UNKNOWN:
                return None
            i = len(trace)
            if i < len(prefix):
                ans = prefix[i]
            else:
                ans = True
                pending.append(tuple(t[3] for t in trace) + (False,))
            trace.append((op, a, b, ans))
            return ans
        outs.append((trace, run(orc)))
    return outs


class NotNumeric(Exception):
    pass


def num_eval(v, point):
    """Evaluate a symbolic value of the ring domain (with the opaque real functions) at a
    concrete point {symbol: float}: used only to exhibit a witness input against a summary
    that has already been extracted from the code, never to decide that a property holds."""
    import math
    if isinstance(v, bool):
        return float(v)
    if isinstance(v, (int, float)):
        return float(v)
    if not isinstance(v, tuple):
        raise NotNumeric(repr(v))
    if v[0] == "f":
        return float(v[1])
    if v[0] == "sym":
        if v[1] in point:
            return point[v[1]]
        raise NotNumeric("free symbol %s" % v[1])
    if v[0] == "adt" and len(v[3]) == 1:
        return num_eval(v[3][0], point)        # newtype wrappers (Angle)
    if v[0] != "symop":
        raise NotNumeric(repr(v)[:80])
    op = v[1]
    a = num_eval(v[2], point)
    b = num_eval(v[3], point) if len(v) > 3 and v[3] is not None else None
    try:
        if op == "Add": return a + b
        if op == "Sub": return a - b
        if op == "Mul": return a * b
        if op == "Div": return a / b if b != 0 else math.copysign(math.inf, a) if a else math.nan
        if op == "Rem": return math.fmod(a, b) if b else math.nan
        if op == "Neg": return -a
        if op == "abs": return abs(a)
        if op == "fmin": return min(a, b)
        if op == "fmax": return max(a, b)
        if op == "sqrt": return math.sqrt(a) if a >= 0 else math.nan
        if op == "sin": return math.sin(a)
        if op == "cos": return math.cos(a)
        if op == "tan": return math.tan(a)
        if op == "atan2": return math.atan2(a, b)
        if op == "rem_euclid":
            r = math.fmod(a, b)
            return r + abs(b) if r < 0 else r
        if op.startswith("cast:f"): return a
        if op == "RND": return math.floor(a + 0.5) + 0.5          # raster_sym: round_up_to_half
        if op == "FLOOR": return float(math.floor(a))
        if op == "TOINT": return float(max(0, int(a))) if a == a and abs(a) != math.inf else (0.0 if a != a or a < 0 else float(2 ** 64 - 1))
    except (ValueError, OverflowError):
        return math.nan
    raise NotNumeric("operator %s" % op)


def trace_holds(trace, point):
    """Does the concrete point follow the decisions of this trace?"""
    for op, a, b, ans in trace:
        x, y = num_eval(a, point), num_eval(b, point)
        got = {"Lt": x < y, "Le": x <= y, "Gt": x > y, "Ge": x >= y, "Eq": x == y, "Ne": x != y}[op]
        if got != ans:
            return False
    return True


def fmt_trace(trace):
    def f(v):
        if isinstance(v, tuple) and v[0] == "sym":
            return v[1]
        if isinstance(v, tuple) and v[0] == "f":
            return repr(v[1])
        if isinstance(v, tuple) and v[0] == "symop":
            args = [f(x) for x in v[2:] if x is not None]
            return "%s(%s)" % (v[1], ", ".join(args))
        return repr(v)[:40]
    return " and ".join("%s%s(%s, %s)" % ("" if ans else "not ", op, f(a), f(b)) for op, a, b, ans in trace) or "always"


# ---------------------------------------------------------------- exact rational-function identities

def field_identities(pairs, timeout=600):
    """pairs: [(value_a, value_b)] of ring-domain values. Decides each a == b in the field of
    rational functions over Q in the symbols (opaque sub-terms become further indeterminates),
    with exact gcd cancellation (sympy's fraction field, run under python3-vt)."""
    import json
    import os
    import shutil
    import subprocess
    nodes, memo, gens = [], {}, []

    def gen(name):
        if name not in gens:
            gens.append(name)
        return name

    def ser(v):
        key = id(v)
        if key in memo:
            return memo[key]
        if isinstance(v, (int, float)) and not isinstance(v, bool):
            n = ["const", repr(float(v)) if isinstance(v, float) else str(v)]
        elif isinstance(v, tuple) and v[0] == "f":
            n = ["const", str(Fraction(v[1]))]
        elif isinstance(v, tuple) and v[0] == "sym":
            n = ["sym", gen(v[1])]
        elif isinstance(v, tuple) and v[0] == "symop" and v[1] in ("Add", "Sub", "Mul", "Div"):
            n = [v[1], ser(v[2]), ser(v[3])]
        elif isinstance(v, tuple) and v[0] == "symop" and v[1] == "Neg":
            n = ["Neg", ser(v[2])]
        elif isinstance(v, tuple) and v[0] == "symop" and v[1].startswith("cast:f"):
            return ser(v[2])
        elif isinstance(v, tuple) and v[0] in ("symop",):
            import hashlib
            n = ["sym", gen("op_" + hashlib.sha1(repr(v).encode()).hexdigest()[:12])]
        else:
            raise NotPolynomial("value %r is outside the ring domain" % (v,))
        nodes.append(n)
        memo[key] = len(nodes) - 1
        return memo[key]
    checks = [[ser(a), ser(b)] for a, b in pairs]
    for n in nodes:
        if n[0] == "const":
            n[1] = str(Fraction(n[1])) if "/" not in n[1] else n[1]
    if globals().get("_DEBUG"):
        open("/tmp/fe_job.json", "w").write(json.dumps({"gens": gens, "nodes": nodes, "checks": checks}))
    exe = shutil.which("python3-vt")
    if not exe:
        raise A.Undecided("python3-vt (sympy) not available for exact rational-function arithmetic")
    here = os.path.dirname(os.path.abspath(__file__))
    r = subprocess.run([exe, os.path.join(here, "fieldeval.py")], input=json.dumps({"gens": gens, "nodes": nodes, "checks": checks}),
                       stdout=subprocess.PIPE, stderr=subprocess.PIPE, text=True, timeout=timeout)
    if r.returncode != 0:
        raise A.Undecided("field evaluation failed: %s" % r.stderr[-400:])
    out = json.loads(r.stdout)
    if "error" in out:
        raise A.Undecided("field evaluation: %s" % out["error"])
    return out["results"]
