"""Edge/guard helpers on top of facts.Body and term.Slicer."""
from . import term as T


def strip_not(t):
    neg = False
    while True:
        if t[0] == "un" and t[1] == "Not":
            neg = not neg
            t = t[2]
        elif t[0] == "cast":
            t = t[2]
        elif t[0] == "phi" and len(t[2]) == 1:
            t = t[2][0]
        else:
            return t, neg


def bool_edges(body, sl, pred):
    """For every SwitchInt whose (possibly negated) boolean discriminant term
    satisfies pred(term): yields (bb, true_edges, false_edges), each a list of
    (src, dst, label)."""
    out = []
    for bi, _i, t in body.terms():
        if t["k"] != "SwitchInt":
            continue
        if t["dty"] != "bool":
            continue
        d, neg = strip_not(sl.operand(t["discr"]))
        if not pred(d):
            continue
        tr, fa = [], []
        for dst, lab in body.term_edges(bi):
            if lab == ("switch", 0):
                fa.append((bi, dst, lab))
            else:
                tr.append((bi, dst, lab))
        if neg:
            tr, fa = fa, tr
        out.append((bi, tr, fa))
    return out


def discr_edges(body, sl, pred):
    """SwitchInt on `discriminant(place)` where pred(place term). Yields
    (bb, {value: [(src,dst,label)]}, otherwise_edges)."""
    out = []
    for bi, _i, t in body.terms():
        if t["k"] != "SwitchInt":
            continue
        d = sl.operand(t["discr"])
        if d[0] == "phi" and len(d[2]) == 1:
            d = d[2][0]
        if d[0] != "discr" or not pred(d[1]):
            continue
        by = {}
        other = []
        for dst, lab in body.term_edges(bi):
            if lab[0] == "switch":
                by.setdefault(lab[1], []).append((bi, dst, lab))
            else:
                other.append((bi, dst, lab))
        out.append((bi, by, other))
    return out


def variant_edges(prog, body, sl, pred, adt_path, variant):
    """Edges taken when discriminant(place) == `variant` of ADT adt_path.
    Handles both explicit value edges and `otherwise` when the variant is the
    only one not listed."""
    STD = {"core::ops::control_flow::ControlFlow": {"Continue": 0, "Break": 1}, "core::option::Option": {"None": 0, "Some": 1},
           "core::result::Result": {"Ok": 0, "Err": 1}, "core::cmp::Ordering": {"Less": -1 & 0xFF, "Equal": 0, "Greater": 1}}
    adt = prog.adts.get(adt_path)
    res = []
    for bi, by, other in discr_edges(body, sl, pred):
        if adt is None and adt_path not in STD:
            continue
        vals = {v["name"]: int(v["discr"]) for v in adt["variants"]} if adt is not None else STD[adt_path]
        want = vals[variant]
        if want in by:
            res.extend(by[want])
        else:
            listed = set(by)
            rest = [n for n, d in vals.items() if d not in listed]
            if variant in rest:
                res.extend(other)
    return res


def option_edges(body, sl, pred):
    """(some_edges, none_edges) for switches on discriminant of an Option place."""
    some, none = [], []
    for bi, by, other in discr_edges(body, sl, pred):
        if 1 in by:
            some.extend(by[1])
            none.extend(by.get(0, []))
            # otherwise is None only if 0 is not listed
            if 0 not in by:
                none.extend(other)
        elif 0 in by:
            none.extend(by[0])
            some.extend(other)
    return some, none


def reachable_without(body, edges, start=0):
    return body.reachable(start, removed_edges=set(edges))


def guarded_by(body, bb, edges):
    """bb reachable from entry only through (at least one of) the given edges."""
    return bb not in reachable_without(body, edges)


def return_blocks(body):
    return [bi for bi, _i, t in body.terms() if t["k"] == "Return"]


def must_pass(body, from_bb, through_blocks, to_blocks, removed_edges=(), unwind=True):
    """Every path from from_bb to any of to_blocks passes through one of
    through_blocks (normal + unwind edges), optionally with some edges taken out
    (the arms of other enum variants when one variant is being followed)."""
    if from_bb in through_blocks:
        return True
    r = body.reachable(from_bb, removed_blocks=set(through_blocks), removed_edges=set(removed_edges), unwind=unwind)
    return not any(b in r for b in to_blocks)


def place_base_local(p):
    return p["l"]


def local_ty(body, l):
    return body.locals[l]
