"""Finite-domain abstract evaluation of comparison logic (depth test, depth sort).

Float depths are abstracted to opaque symbols whose mutual order is fixed by an
oracle for each case of a complete case split {<, =, >, unordered}."""
from . import absint as A

REL_NAMES = {"lt": "new < curr", "eq": "new == curr", "gt": "new > curr", "un": "unordered (NaN)"}


def rel_oracle(x, y, rel):
    """Oracle for two symbols x, y with relation rel of (x ? y)."""
    def orc(op, a, b):
        if a == x and b == y:
            r = rel
        elif a == y and b == x:
            r = {"lt": "gt", "gt": "lt", "eq": "eq", "un": "un"}[rel]
        elif a == b and a in (x, y):
            r = "eq"
        else:
            return None
        return {"Lt": r == "lt", "Gt": r == "gt", "Eq": r == "eq", "Ne": r != "eq",
                "Le": r in ("lt", "eq"), "Ge": r in ("gt", "eq")}.get(op)
    return orc


def struct_value(prog, adt_path, **fields):
    adt = prog.adt(adt_path)
    names = adt["variants"][0]["fields"]
    return ("adt", adt_path, adt["variants"][0]["name"], [fields.get(n, A.UNKNOWN) for n in names])


def eval_depth_test(prog, body):
    """Spec: no predicate -> pass; predicate ord -> pass iff cmp(curr, new) == ord
    (depths are reciprocal: larger = nearer, so Less means 'new is nearer').
    The verdict may depend on NOTHING else in the context: every other flag is
    enumerated and must not change the outcome."""
    from . import common
    new, curr = ("sym", "new"), ("sym", "curr")
    table = {}
    bad = []
    FC = "retrofire_core::render::ctx::FaceCull"
    DS = "retrofire_core::render::ctx::DepthSort"
    sorts = [A.NONE, A.some(("adt", DS, "FrontToBack", [])), A.some(("adt", DS, "BackToFront", []))]
    culls = [A.NONE, A.some(("adt", FC, "Front", [])), A.some(("adt", FC, "Back", []))]
    n = 0
    for pred in (None, "Less", "Equal", "Greater"):
        for rel in ("lt", "eq", "gt", "un"):
            seen = set()
            for ds in sorts:
                for fc in culls:
                    for cw in (0, 1):
                        for dw in (0, 1):
                            it = A.Interp(prog, oracle=rel_oracle(new, curr, rel))
                            ctx = struct_value(prog, "retrofire_core::render::ctx::Context",
                                               depth_test=A.NONE if pred is None else A.some(A.ordering(pred)),
                                               depth_sort=A.copy_val(ds), face_cull=A.copy_val(fc), color_write=cw, depth_write=dw,
                                               depth_clear=A.UNKNOWN, color_clear=A.UNKNOWN)
                            cell = A.Frame(None)
                            cell.locals[0] = ctx
                            try:
                                r = it.call_body(body, [("ref", cell, 0, []), new, curr])
                            except A.Undecided as e:
                                r = _forked_depth_test(prog, body, ctx, new, curr, rel, pred, bad, e)
                            if not isinstance(r, int):
                                raise common.Infra("C06.W4: depth_test returned undecided value %r" % (r,))
                            n += 1
                            seen.add(r)
                            if pred is None:
                                want = 1
                            else:
                                cmp_curr_new = {"lt": "Greater", "gt": "Less", "eq": "Equal", "un": None}[rel]
                                want = int(cmp_curr_new == pred)
                            if r != want and len(bad) < 6:
                                dsn = ds[2] if ds[2] == "None" else ds[3][0][2]
                                bad.append({"case": "%s-%s-%s" % (pred, rel, dsn),
                                            "msg": "Context::depth_test with predicate %s, %s, depth_sort=%s, face_cull=%s, color_write=%s, depth_write=%s returns %s, expected %s "
                                                   "(pass iff cmp(current, new) == predicate on reciprocal depth, whatever the other settings)"
                                                   % (pred, REL_NAMES[rel], dsn, fc[2] if fc[2] == "None" else fc[3][0][2], cw, dw, bool(r), bool(want))})
            table["%s/%s" % (pred, rel)] = sorted(seen)
    return {"table": table, "bad": bad, "evaluations": n}


# concrete depth pairs per ordering, used only to show that a wrong path is taken by real inputs: near and far
# reciprocal depths, a pair one ulp-ish apart, a pair far apart
_PAIRS = {"lt": [(0.25, 0.5), (0.0025, 0.00250001), (1.0, 1.0000002), (0.002499, 0.0025)],
          "gt": [(0.5, 0.25), (0.00250001, 0.0025), (1.0000002, 1.0), (0.0025, 0.002499)],
          "eq": [(0.5, 0.5), (0.0025, 0.0025), (0.0, 0.0)],
          "un": []}


def _forked_depth_test(prog, body, ctx, new, curr, rel, pred, bad, first_error):
    """The plain order domain cannot decide a comparison (e.g. a tolerance test on |new - curr|): enumerate the outcomes of
    every such comparison; each path must give the specified verdict, and a path that gives another one is reported when a
    concrete pair of depths with this ordering follows it."""
    from . import common, symalg as S
    base = rel_oracle(new, curr, rel)

    def run(orc):
        it = S.interp(prog, oracle=orc)
        cell = A.Frame(None)
        cell.locals[0] = A.copy_val(ctx)
        return it.call_body(body, [("ref", cell, 0, []), new, curr])
    try:
        outs = S.explore(run, max_paths=64, base_oracle=base)
    except A.Undecided as e:
        raise common.Infra("C06.W4: depth_test could not be evaluated abstractly (%s; first: %s); rule needs re-confirmation" % (e, first_error))
    if pred is None:
        want = 1
    else:
        want = int({"lt": "Greater", "gt": "Less", "eq": "Equal", "un": None}[rel] == pred)
    verdicts = set()
    for trace, r in outs:
        if not isinstance(r, int):
            raise common.Infra("C06.W4: depth_test returned undecided value %r" % (r,))
        verdicts.add(r)
        if r == want:
            continue
        wit = None
        for a, b in _PAIRS[rel]:
            try:
                if S.trace_holds(trace, {"new": a, "curr": b}):
                    wit = (a, b)
                    break
            except S.NotNumeric as e:
                raise common.Infra("C06.W4: depth_test compares quantities the rule cannot evaluate (%s)" % e)
        if wit is None:
            if rel == "un":
                continue          # NaN depths: outside the finite-depth domain of the witness search; the plain domain covers them when decidable
            raise common.Infra("C06.W4: depth_test has a path (%s) returning %s where %s is specified, and no sample depths follow it; rule needs re-confirmation"
                               % (S.fmt_trace(trace)[:200], bool(r), bool(want)))
        if len(bad) < 6:
            bad.append({"case": "%s-%s-path" % (pred, rel),
                        "msg": "Context::depth_test with predicate %s and %s returns %s for new = %r, curr = %r (path: %s); specified: pass iff cmp(current, new) == predicate "
                               "on the exact values" % (pred, REL_NAMES[rel], bool(r), wit[0], wit[1], S.fmt_trace(trace)[:160])})
    return want if verdicts == {want} or not verdicts else (1 - want)


def _leaves(v):
    if isinstance(v, tuple) and v[0] == "sym":
        return [v[1]], True
    if isinstance(v, tuple) and v[0] == "symop" and v[1] == "Add":
        l1, ok1 = _leaves(v[2])
        l2, ok2 = _leaves(v[3])
        return l1 + l2, ok1 and ok2
    if v == ("f", 0.0):
        return [], True            # the neutral start value of Iterator::sum
    return [], False


def eval_depth_sort(prog, body, modes=("FrontToBack", "BackToFront"), mode_arg=True):
    """Spec: the order depth_sort imposes on two triangles t, u is, for FrontToBack,
    the order of their depth keys and for BackToFront the reverse — for every
    combination of key signs (a key built from bit patterns or magnitudes orders
    negatives wrongly). The key must be an Add-combination of the z or w clip
    coordinates of ONE triangle (monotone in depth)."""
    from . import common
    tri_p = "retrofire_core::geom::Tri"
    cv_p = "retrofire_core::render::clip::ClipVert"
    vec_p = "retrofire_core::math::vec::Vector"

    def tri(name):
        vs = []
        for i in range(3):
            pos = ("adt", vec_p, "Vector", [("array", [("sym", "%s%d.%s" % (name, i, c)) for c in "xyzw"]), ("tuple", [])])
            vs.append(struct_value(prog, cv_p, pos=pos, outcode=A.UNKNOWN, attrib=A.UNKNOWN))
        return ("adt", tri_p, "Tri", [("array", vs)])

    def key_class(v):
        ls, ok = _leaves(v)
        if not ok or not ls:
            return None
        owners = {l[0] for l in ls}
        comps = {l.split(".")[1] for l in ls}
        if len(owners) == 1 and comps <= {"z", "w"}:
            return owners.pop()
        return None

    def is_bits(v):
        return isinstance(v, tuple) and v[0] == "symop" and v[1] == "to_bits" and key_class(v[2]) is not None

    REL = {"lt": {"Lt": True, "Le": True, "Gt": False, "Ge": False, "Eq": False, "Ne": True},
           "eq": {"Lt": False, "Le": True, "Gt": False, "Ge": True, "Eq": True, "Ne": False},
           "gt": {"Lt": False, "Le": False, "Gt": True, "Ge": True, "Eq": False, "Ne": True}}
    FLIP = {"lt": "gt", "gt": "lt", "eq": "eq"}
    cases = []
    for rel, pairs in (("lt", [("neg", "neg"), ("neg", "zero"), ("neg", "pos"), ("zero", "pos"), ("pos", "pos")]),
                       ("eq", [("neg", "neg"), ("zero", "zero"), ("pos", "pos")]),
                       ("gt", [("neg", "neg"), ("zero", "neg"), ("pos", "neg"), ("pos", "zero"), ("pos", "pos")])):
        for st, su in pairs:
            cases.append((st, su, rel))
    table = {}
    bad = []
    for mode in modes:
        for (st, su, rel) in cases:
            sign = {"t": st, "u": su}

            def rel_of(a, b, rel=rel):
                ka, kb = key_class(a), key_class(b)
                if ka is None or kb is None:
                    return None
                if ka == kb:
                    return "eq" if a == b else None
                return rel if ka == "t" else FLIP[rel]

            def orc(op, a, b, sign=sign):
                if all(isinstance(x, tuple) and x[0] == "symop" and x[1] == "BitNot" for x in (a, b)):
                    return orc(op, b[2], a[2])     # !x < !y  <=>  y < x on unsigned integers
                if is_bits(a) and is_bits(b):
                    fa, fb = a[2], b[2]
                    r = rel_of(fa, fb)
                    if r is None:
                        return None
                    na, nb = sign[key_class(fa)] == "neg", sign[key_class(fb)] == "neg"
                    if na and nb:
                        r = FLIP[r]            # both negative: bit patterns order by magnitude
                    elif na != nb:
                        r = "gt" if na else "lt"   # a negative float has the larger bit pattern
                    return REL[r].get(op)
                zero = ("f", 0.0)
                for x, y, flip in ((a, b, False), (b, a, True)):
                    if key_class(x) is not None and y == zero:
                        r = {"neg": "lt", "zero": "eq", "pos": "gt"}[sign[key_class(x)]]
                        if flip:
                            r = FLIP[r]
                        return REL[r].get(op)
                r = rel_of(a, b)
                return REL[r].get(op) if r else None
            got = []

            def cmp_values(it, a, b):
                a, b = A.deref_all(it, a), A.deref_all(it, b)
                if isinstance(a, tuple) and a[0] == "adt" and a[1].endswith("cmp::Reverse") and isinstance(b, tuple) and b[0] == "adt":
                    return cmp_values(it, b[3][0], a[3][0])
                if isinstance(a, int) and isinstance(b, int):
                    return "Less" if a < b else "Greater" if a > b else "Equal"
                if isinstance(a, tuple) and a[0] == "tuple" and isinstance(b, tuple) and b[0] == "tuple":
                    for x, y in zip(a[1], b[1]):
                        c = cmp_values(it, x, y)
                        if c != "Equal":
                            return c
                    return "Equal"
                lt, gt = it.oracle("Lt", a, b), it.oracle("Gt", a, b)
                if lt is None or gt is None:
                    raise A.Undecided("sort keys %r and %r are not comparable in the sign/order domain" % (a, b))
                return "Less" if lt else "Greater" if gt else "Equal"

            def pair():
                ct, cu = A.Frame(None), A.Frame(None)
                ct.locals[0] = tri("t")
                cu.locals[0] = tri("u")
                return ("ref", ct, 0, []), ("ref", cu, 0, [])

            def m_sort(it, args, callee, depth):
                rt, ru = pair()
                r = it.invoke(args[1], [rt, ru], depth)
                got.append(r[2] if isinstance(r, tuple) and r[0] == "adt" and r[1] == "core::cmp::Ordering" else r)
                return ("tuple", [])

            def m_sort_key(it, args, callee, depth):
                rt, ru = pair()
                kt = it.invoke(args[1], [rt], depth)
                ku = it.invoke(args[1], [ru], depth)
                got.append(cmp_values(it, kt, ku))
                return ("tuple", [])

            def m_to_bits(it, args, callee, depth):
                x = A.deref_all(it, args[0])
                return ("symop", "to_bits", x, None)
            from . import symalg
            it = A.Interp(prog, oracle=orc, models={**symalg.ALG_MODELS, "sort_unstable_by_key": m_sort_key, "sort_by_key": m_sort_key, "sort_by_cached_key": m_sort_key,
                                                     "sort_unstable_by": m_sort, "sort_by": m_sort, "f32>::to_bits": m_to_bits})
            d = ("adt", "retrofire_core::render::ctx::DepthSort", mode, [])
            try:
                it.call_body(body, [A.UNKNOWN, d] if mode_arg else [A.UNKNOWN])
            except A.Undecided as e:
                raise common.Infra("C06.W7: depth_sort ordering could not be evaluated abstractly (%s)" % e)
            if len(got) != 1 or got[0] not in ("Less", "Equal", "Greater"):
                raise common.Infra("C06.W7: depth_sort did not invoke a slice sort with a decidable ordering: %r" % (got,))
            res = got[0]
            asc = {"lt": "Less", "eq": "Equal", "gt": "Greater"}[rel]
            desc = {"lt": "Greater", "eq": "Equal", "gt": "Less"}[rel]
            want = asc if mode == "FrontToBack" else desc
            table["%s/t(%s)%su(%s)" % (mode, st, {"lt": "<", "eq": "=", "gt": ">"}[rel], su)] = res
            if res != want and len(bad) < 6:
                bad.append({"case": "%s-%s-%s-%s" % (mode, rel, st, su),
                            "msg": "depth_sort orders two triangles with depth(t) %s depth(u) (signs: t %s, u %s) as %s under %s, expected %s"
                                   % ({"lt": "<", "eq": "=", "gt": ">"}[rel], st, su, res, mode, want)})
    return {"table": table, "bad": bad}
