"""Finite-domain abstract evaluation of comparison logic (depth test, depth sort).

Float depths are abstracted to opaque symbols whose mutual order is fixed by an
oracle for each case of a complete case split {<, =, >, unordered}."""
from . import absint as A

REL_NAMES = {"lt": "new < curr", "eq": "new == curr", "gt": "new > curr", "un": "unordered (NaN)"}


def rel_oracle(x, y, rel):
    """Oracle for two symbols x, y with relation rel of (x ? y)."""
    def orc(op, a, b):
        if a == x and b == y:
            r = rel
        elif a == y and b == x:
            r = {"lt": "gt", "gt": "lt", "eq": "eq", "un": "un"}[rel]
        elif a == b and a in (x, y):
            r = "eq"
        else:
            return None
        return {"Lt": r == "lt", "Gt": r == "gt", "Eq": r == "eq", "Ne": r != "eq",
                "Le": r in ("lt", "eq"), "Ge": r in ("gt", "eq")}.get(op)
    return orc


def struct_value(prog, adt_path, **fields):
    adt = prog.adt(adt_path)
    names = adt["variants"][0]["fields"]
    return ("adt", adt_path, adt["variants"][0]["name"], [fields.get(n, A.UNKNOWN) for n in names])


def eval_depth_test(prog, body):
    """Spec: no predicate -> pass; predicate ord -> pass iff cmp(curr, new) == ord
    (depths are reciprocal: larger = nearer, so Less means 'new is nearer')."""
    new, curr = ("sym", "new"), ("sym", "curr")
    table = {}
    bad = []
    for pred in (None, "Less", "Equal", "Greater"):
        for rel in ("lt", "eq", "gt", "un"):
            it = A.Interp(prog, oracle=rel_oracle(new, curr, rel))
            ctx = struct_value(prog, "retrofire_core::render::ctx::Context",
                               depth_test=A.NONE if pred is None else A.some(A.ordering(pred)))
            cell = A.Frame(None)
            cell.locals[0] = ctx
            try:
                r = it.call_body(body, [("ref", cell, 0, []), new, curr])
            except A.Undecided as e:
                from . import common
                raise common.Infra("C06.W4: depth_test could not be evaluated abstractly (%s); rule needs re-confirmation" % e)
            if not isinstance(r, int):
                from . import common
                raise common.Infra("C06.W4: depth_test returned undecided value %r" % (r,))
            if pred is None:
                want = 1
            else:
                cmp_curr_new = {"lt": "Greater", "gt": "Less", "eq": "Equal", "un": None}[rel]
                want = int(cmp_curr_new == pred)
            table["%s/%s" % (pred, rel)] = r
            if r != want:
                bad.append({"case": "%s-%s" % (pred, rel),
                            "msg": "Context::depth_test with predicate %s and %s returns %s, expected %s "
                                   "(pass iff cmp(current, new) == predicate on reciprocal depth)"
                                   % (pred, REL_NAMES[rel], bool(r), bool(want))})
    return {"table": table, "bad": bad}


def _leaves(v):
    if isinstance(v, tuple) and v[0] == "sym":
        return [v[1]], True
    if isinstance(v, tuple) and v[0] == "symop" and v[1] == "Add":
        l1, ok1 = _leaves(v[2])
        l2, ok2 = _leaves(v[3])
        return l1 + l2, ok1 and ok2
    return [], False


def eval_depth_sort(prog, body):
    """Spec: comparator(t, u) for FrontToBack orders by ascending depth key,
    for BackToFront by descending; the key must be an Add-combination of the
    z or w clip coordinates of ONE triangle (monotone in depth)."""
    from . import common
    tri_p = "retrofire_core::geom::Tri"
    cv_p = "retrofire_core::render::clip::ClipVert"
    vec_p = "retrofire_core::math::vec::Vector"

    def tri(name):
        vs = []
        for i in range(3):
            pos = ("adt", vec_p, "Vector", [("array", [("sym", "%s%d.%s" % (name, i, c)) for c in "xyzw"]), ("tuple", [])])
            vs.append(struct_value(prog, cv_p, pos=pos, outcode=A.UNKNOWN, attrib=A.UNKNOWN))
        return ("adt", tri_p, "Tri", [("array", vs)])

    def key_class(v):
        ls, ok = _leaves(v)
        if not ok or not ls:
            return None
        owners = {l[0] for l in ls}
        comps = {l.split(".")[1] for l in ls}
        if len(owners) == 1 and comps <= {"z", "w"}:
            return owners.pop()
        return None

    table = {}
    bad = []
    for mode in ("FrontToBack", "BackToFront"):
        for rel in ("lt", "eq", "gt"):
            def orc(op, a, b, rel=rel):
                ka, kb = key_class(a), key_class(b)
                if ka is None or kb is None:
                    return None
                if ka == kb:
                    r = "eq" if a == b else None
                    if r is None:
                        return None
                elif ka == "t":
                    r = rel
                else:
                    r = {"lt": "gt", "gt": "lt", "eq": "eq"}[rel]
                return {"Lt": r == "lt", "Gt": r == "gt", "Eq": r == "eq", "Ne": r != "eq",
                        "Le": r in ("lt", "eq"), "Ge": r in ("gt", "eq")}.get(op)
            got = []

            def m_sort(it, args, callee, depth):
                ct, cu = A.Frame(None), A.Frame(None)
                ct.locals[0] = tri("t")
                cu.locals[0] = tri("u")
                got.append(it.invoke(args[1], [("ref", ct, 0, []), ("ref", cu, 0, [])], depth))
                return ("tuple", [])
            it = A.Interp(prog, oracle=orc, models={"sort_unstable_by": m_sort, "sort_by": m_sort})
            d = ("adt", "retrofire_core::render::ctx::DepthSort", mode, [])
            try:
                it.call_body(body, [A.UNKNOWN, d])
            except A.Undecided as e:
                raise common.Infra("C06.W7: depth_sort comparator could not be evaluated abstractly (%s)" % e)
            if len(got) != 1 or not (isinstance(got[0], tuple) and got[0][0] == "adt" and got[0][1] == "core::cmp::Ordering"):
                raise common.Infra("C06.W7: depth_sort did not invoke a slice sort with a decidable comparator: %r" % (got,))
            res = got[0][2]
            asc = {"lt": "Less", "eq": "Equal", "gt": "Greater"}[rel]
            desc = {"lt": "Greater", "eq": "Equal", "gt": "Less"}[rel]
            want = asc if mode == "FrontToBack" else desc
            table["%s/key(t)%skey(u)" % (mode, {"lt": "<", "eq": "=", "gt": ">"}[rel])] = res
            if res != want:
                bad.append({"case": "%s-%s" % (mode, rel),
                            "msg": "depth_sort comparator for %s with depth(t) %s depth(u) yields %s, expected %s"
                                   % (mode, {"lt": "<", "eq": "=", "gt": ">"}[rel], res, want)})
    return {"table": table, "bad": bad}
