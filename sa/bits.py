"""Integer range / bit-range evaluation over provenance terms (part of engine I).

eval_range(term) -> (lo, hi) over-approximating the unsigned value, or None if
nothing is known. Sound for the operators listed; anything else gives None (or
the type's full range when the type is known)."""
from . import term as T

BITS = {"u8": 8, "u16": 16, "u32": 32, "u64": 64, "usize": 64, "u128": 128,
        "i8": 8, "i16": 16, "i32": 32, "i64": 64, "isize": 64, "bool": 1, "char": 21}


def ty_range(ty):
    if ty in BITS and not ty.startswith("i"):
        return (0, (1 << BITS[ty]) - 1)
    if ty in BITS and ty.startswith("i"):
        b = BITS[ty]
        return (-(1 << (b - 1)), (1 << (b - 1)) - 1)
    return None


def eval_range(t, gen_calls=(), env=None, depth=0):
    """env: optional callback term -> (lo,hi)|None consulted first."""
    if depth > 60:
        return None
    if env:
        r = env(t)
        if r is not None:
            return r
    h = t[0]
    if h == "const" and isinstance(t[2], int):
        return (t[2], t[2])
    if h == "deref" or h == "ref":
        return eval_range(t[1], gen_calls, env, depth + 1)
    if h == "call":
        if any(g in t[1] for g in gen_calls):
            return (0, (1 << 64) - 1)
        name = t[1].split(" => ")[0]
        if name.endswith("::to_bits") and t[2]:
            a0 = T.strip(t[2][0], refs=True) if hasattr(T, "strip") else t[2][0]
            if a0[0] == "const" and a0[1] in ("f32", "f64") and isinstance(a0[2], (int, float)):
                import struct
                v = struct.unpack("<I", struct.pack("<f", float(a0[2])))[0] if a0[1] == "f32" else struct.unpack("<Q", struct.pack("<d", float(a0[2])))[0]
                return (v, v)
        if name.endswith("cmp::Ord::max") or name.endswith("cmp::Ord::min"):
            rs = [eval_range(a, gen_calls, env, depth + 1) for a in t[2][:2]]
            known = [r for r in rs if r is not None]
            if name.endswith("max") and known:
                lo = max(r[0] for r in known)
                hi = max(r[1] for r in known) if len(known) == 2 else (1 << 64) - 1
                return (lo, max(hi, lo))
            if name.endswith("min") and known:
                hi = min(r[1] for r in known)
                lo = min(r[0] for r in known) if len(known) == 2 else 0
                return (min(lo, hi), hi)
        return None
    if h == "phi":
        rs = [eval_range(x, gen_calls, env, depth + 1) for x in t[2]]
        if any(r is None for r in rs) or not rs:
            return None
        return (min(r[0] for r in rs), max(r[1] for r in rs))
    if h == "cast":
        r = eval_range(t[2], gen_calls, env, depth + 1)
        tr = ty_range(t[3])
        if t[1] != "IntToInt":
            return tr
        if r is None:
            return tr
        if tr and tr[0] <= r[0] and r[1] <= tr[1]:
            return r
        return tr
    if h == "field" and t[2] == "0" and t[1][0] == "bin" and "WithOverflow" in t[1][1]:
        b = t[1]
        return eval_range(("bin", b[1].replace("WithOverflow", ""), b[2], b[3], b[4] if len(b) > 4 else None), gen_calls, env, depth + 1)
    if h == "bin":
        op = t[1].replace("Unchecked", "")
        ty = t[4] if len(t) > 4 else None
        a = eval_range(t[2], gen_calls, env, depth + 1)
        b = eval_range(t[3], gen_calls, env, depth + 1)
        tr = ty_range(ty) if ty else None
        if op == "BitAnd":
            cands = [r[1] for r in (a, b) if r is not None and r[0] >= 0]
            if cands:
                return (0, min(cands))
            return tr
        if a is None or b is None:
            if op in ("Shr",) and b is not None and b[0] == b[1] and tr and tr[0] == 0:
                return (0, tr[1] >> b[0])
            if op == "Rem" and b is not None and b[0] > 0 and tr and tr[0] == 0:
                return (0, b[1] - 1)
            return tr if op not in ("Eq", "Ne", "Lt", "Le", "Gt", "Ge") else (0, 1)
        if op == "Shr" and b[0] == b[1] and a[0] >= 0:
            return (a[0] >> b[0], a[1] >> b[0])
        if op == "Shl" and b[0] == b[1] and a[0] >= 0:
            lo, hi = a[0] << b[0], a[1] << b[0]
            if tr and hi > tr[1]:
                return tr
            return (lo, hi)
        if op == "BitOr" and a[0] >= 0 and b[0] >= 0:
            for c, x in ((a, b), (b, a)):
                if c[0] == c[1]:
                    m = (1 << x[1].bit_length()) - 1
                    if c[0] & m == 0:
                        return (c[0] + x[0], c[0] + m)
            return (max(a[0], b[0]), (1 << max(a[1].bit_length(), b[1].bit_length())) - 1)
        if op == "BitXor" and a[0] >= 0 and b[0] >= 0:
            return (0, (1 << max(a[1].bit_length(), b[1].bit_length())) - 1)
        if op == "Add":
            r = (a[0] + b[0], a[1] + b[1])
        elif op == "Sub":
            r = (a[0] - b[1], a[1] - b[0])
        elif op == "Mul":
            ps = [a[0] * b[0], a[0] * b[1], a[1] * b[0], a[1] * b[1]]
            r = (min(ps), max(ps))
        elif op == "Div" and b[0] > 0 and a[0] >= 0:
            r = (a[0] // b[1], a[1] // b[0])
        elif op == "Rem" and b[0] > 0 and a[0] >= 0:
            r = (0, min(a[1], b[1] - 1))
        elif op in ("Eq", "Ne", "Lt", "Le", "Gt", "Ge"):
            always = {"Lt": a[1] < b[0], "Le": a[1] <= b[0], "Gt": a[0] > b[1], "Ge": a[0] >= b[1],
                      "Eq": a[0] == a[1] == b[0] == b[1], "Ne": a[1] < b[0] or a[0] > b[1]}[op]
            never = {"Lt": a[0] >= b[1], "Le": a[0] > b[1], "Gt": a[1] <= b[0], "Ge": a[1] < b[0],
                     "Eq": a[1] < b[0] or a[0] > b[1], "Ne": a[0] == a[1] == b[0] == b[1]}[op]
            if always:
                return (1, 1)
            if never:
                return (0, 0)
            return (0, 1)
        else:
            return tr
        if tr and (r[0] < tr[0] or r[1] > tr[1]):
            return tr  # wrapped (release) – fall back to the type's range
        return r
    if h == "un" and t[1] == "Not":
        return None
    return None


def generator_bits(t, gen_calls):
    """How many low bits of variability the generator contributes to term t
    (bit length of the upper bound of the maximal generator-dependent operand
    under BitOr/cast nodes)."""
    def has_gen(x):
        return bool(T.calls_in(x, *gen_calls))
    cur = t
    while True:
        if cur[0] == "cast" and has_gen(cur[2]):
            r = eval_range(cur, gen_calls)
            inner = eval_range(cur[2], gen_calls)
            if r is not None and inner is not None and inner[1] > r[1]:
                return r[1].bit_length()
            cur = cur[2]
            continue
        if cur[0] == "bin" and cur[1] in ("BitOr", "BitXor", "Add"):
            sides = [x for x in (cur[2], cur[3]) if has_gen(x)]
            if len(sides) == 1:
                cur = sides[0]
                continue
        break
    r = eval_range(cur, gen_calls)
    return r[1].bit_length() if r else None
