"""C12 — texture samplers never index out of bounds (and delegate consistently).

Decides (engines P, D) for SamplerRepeatPot and SamplerClamp, in every feature
configuration (floor resolves to a different callee in each):
  P-total  the only panic edges reachable from sample / sample_abs are
           (i) the view's own out-of-bounds panic in to_index_strict, discharged
               by B-index below,
           (ii) arithmetic / slice-bounds edges of the checked index maths,
               discharged by the invariant Inner::new establishes (C11 R3) for
               coordinates that passed x < w && y < h,
           (iii) f32::clamp's min <= max assertion, discharged for non-empty
               textures when min is the literal 0.0 and max is `dimension - 1.0`
           anything else (e.g. an overflow inside a float back-end) is reported
  B-index  each component of the index handed to the view carries a bounding
           provenance against the SAME axis: `x & mask` with mask = dim - 1 under
           a dominating is_power_of_two(dim) assertion (repeat), or
           floor(clamp(x, 0.0, dim_f - 1.0)) as u32 (clamp); u drives axis 0 with
           the width, v axis 1 with the height; Texture.w/h are written only by
           the From impls as `data.width()/height() as f32` of the stored data
  D-rel    sample(tc) == sample_abs(uv(w*u, h*v)) as polynomial identities
  O-once   SamplerOnce has no panic edge beyond its index and its two debug
           assertions
Assumptions (part of the property's own hypotheses): the texture is non-empty,
a SamplerRepeatPot is used with the texture it was created for, and dimensions
are exactly representable in f32 (< 2^24).
  K-floor  the repeat sampler's masked operand is floor(coord) converted through
           residue-preserving integer conversions (float->signed, int->int); a direct
           float->unsigned cast, a truncation without floor or float arithmetic before
           the floor are reported
Leaves: the clamping sampler's texel choice beyond its bounds.
"""
from . import facts, guards as G, term as T, common, panics as P, callgraph as CG, poly as PL

TEX = "retrofire_core::render::tex::"
INNER = "retrofire_core::util::buf::inner::Inner::<T, D>::"


def index_calls(b, sl):
    out = []
    for bi, t in b.calls(lambda c: c["path"].endswith("ops::index::Index::index")):
        out.append((bi, t, sl.operand(t["args"][0]), sl.operand(t["args"][1])))
    return out


def strip_all(t):
    return T.strip(t, sites=True, refs=True)


def repeat_component(prog, t, axis):
    """BitAnd(x, self.<mask>) with the mask of `axis`"""
    t = strip_all(t)
    if t[0] != "bin" or t[1] != "BitAnd":
        return False, "not masked: %s" % T.show(t)[:80]
    want = "SamplerRepeatPot." + ("w_mask" if axis == 0 else "h_mask")
    for m in (t[2], t[3]):
        m = T.strip(m, refs=True)
        if m[0] == "field" and m[2] == want:
            return True, "x & %s" % want
    return False, "masked with the wrong field: %s" % T.show(t)[:80]


COORD_CLASSES = ("negative non-integer", "negative exact integer", "negative zero", "zero or positive integer", "positive non-integer")


def _subst(t, args):
    if not isinstance(t, tuple):
        return t
    if t[0] == "param" and isinstance(t[1], int) and 1 <= t[1] <= len(args):
        return args[t[1] - 1]
    return tuple(_subst(x, args) if isinstance(x, tuple) else x for x in t)


def floor_offset(prog, t, acc, cls, depth=0):
    """Abstract value of an integer-valued term relative to floor(coord), for a coordinate in class `cls`
    (|coord| < 2^31): returns ("off", k) meaning floor(coord) + k, ("int", k) for a constant, ("coord",) for
    the raw float coordinate, ("bad", why) or ("unknown", why)."""
    t = T.strip(t, refs=True, sites=True)
    neg = cls.startswith("negative")
    if t[0] == "const" and isinstance(t[2], (int, bool)):
        return ("int", int(t[2]))
    if t[0] == "call":
        decl = t[1].split(" => ")[0]
        res = t[1].split(" => ")[-1]
        last = decl.rsplit("::", 1)[-1]
        if decl.endswith(acc):
            return ("coord",)
        a = [floor_offset(prog, x, acc, cls, depth) for x in t[2]]
        # a helper of this repository applied to the coordinate itself: interpret its MIR with x = floor(x) + frac (engine F),
        # which follows branches; fall back to the term-level inlining below if that does not apply
        if len(a) == 1 and a[0] == ("coord",):
            for cand in (res, decl):
                hb = prog.bodies.get(cand)
                if hb is not None and hb.d.get("argc", 0) == 1:
                    from . import floordom
                    r = floordom.evaluate(prog, hb, cls, domain_bits=31)
                    if r[0] in ("off", "bad"):
                        return r
        # a floor written in this repository (the no-fp fallback, a wrapper around a back-end) is analysed, not trusted
        for cand in (res, decl):
            b = prog.bodies.get(cand)
            if b is not None and depth < 3 and b.d.get("argc", 0) == len(t[2]):
                ret = T.strip(T.Slicer(b).local(0), refs=True, sites=True)
                r = floor_offset(prog, _subst(ret, list(t[2])), acc, cls, depth + 1)
                if r[0] != "unknown" or last not in ("floor", "floorf"):
                    return r
        if last in ("floor", "floorf") and a and a[0] == ("coord",):
            return ("off", 0)             # std / libm / micromath floor: trusted (their accuracy is not this property's business)
        if last in ("min", "max", "clamp") and a and a[0][0] == "off" and all(x[0] == "int" for x in a[1:]):
            return a[0]               # clamping the integral part against constants only matters at the ends of the range
        if last == "is_sign_negative" and a and a[0] == ("coord",):
            return ("int", 1 if neg else 0)
        if last in ("saturating_sub", "wrapping_sub", "saturating_add", "wrapping_add") and len(a) == 2 and a[0][0] == "off" and a[1][0] == "int":
            return ("off", a[0][1] - a[1][1] if "sub" in last else a[0][1] + a[1][1])
        for x in a:
            if x[0] in ("bad", "unknown"):
                return x
        return ("unknown", "call to %s" % decl)
    if t[0] == "cast" and t[1] == "IntToInt":
        return floor_offset(prog, t[2], acc, cls, depth)
    if t[0] == "cast" and t[1] == "FloatToInt":
        inner = floor_offset(prog, t[2], acc, cls, depth)
        if inner[0] in ("bad", "unknown"):
            return inner
        if t[3].startswith("u") and neg and cls != "negative zero":
            return ("bad", "a float is converted straight to the unsigned %s: every negative coordinate saturates to 0 instead of wrapping" % t[3])
        if t[3] in ("i8", "i16", "u8", "u16"):
            return ("bad", "the coordinate is converted to %s, which saturates long before 2^31" % t[3])
        if inner == ("coord",):
            return ("off", 1 if cls == "negative non-integer" else 0)     # truncation towards zero
        return inner
    if t[0] == "cast" and t[1] in ("IntToFloat", "BoolToInt") or (t[0] == "cast" and t[1] == "IntToInt"):
        return floor_offset(prog, t[2], acc, cls, depth)
    if t[0] == "bin" and t[1] in ("Add", "Sub", "AddWithOverflow", "SubWithOverflow") and len(t) >= 5 and not str(t[4]).startswith("f"):
        a, b = floor_offset(prog, t[2], acc, cls, depth), floor_offset(prog, t[3], acc, cls, depth)
        if a[0] == "off" and b[0] == "int":
            return ("off", a[1] + (b[1] if "Add" in t[1] else -b[1]))
        for x in (a, b):
            if x[0] in ("bad", "unknown"):
                return x
        return ("unknown", "integer arithmetic on %s" % T.show(t)[:50])
    if t[0] == "bin" and t[1] in ("Gt", "Lt", "Ge", "Le", "Eq", "Ne"):
        # comparison of an integral value floor(coord)+k with the coordinate itself: decided per class
        # (coord - floor(coord) is 0 for the integer classes and strictly inside (0, 1) otherwise)
        a, b = floor_offset(prog, t[2], acc, cls, depth), floor_offset(prog, t[3], acc, cls, depth)
        op = t[1]
        if a == ("coord",) and b[0] == "off":
            a, b = b, a
            op = {"Gt": "Lt", "Lt": "Gt", "Ge": "Le", "Le": "Ge"}.get(op, op)
        if a[0] == "off" and b == ("coord",):
            k = a[1]
            integral = "integer" in cls and "non-integer" not in cls or cls == "negative zero"
            if integral:
                v = {"Gt": k > 0, "Lt": k < 0, "Ge": k >= 0, "Le": k <= 0, "Eq": k == 0, "Ne": k != 0}[op]
            else:
                v = {"Gt": k >= 1, "Lt": k <= 0, "Ge": k >= 1, "Le": k <= 0, "Eq": False, "Ne": True}[op]
            return ("int", int(v))
        for x in (a, b):
            if x[0] in ("bad", "unknown"):
                return x
        return ("unknown", "comparison %s" % T.show(t)[:50])
    if t[0] == "bin" and t[1] in ("Add", "Sub") and len(t) >= 5 and str(t[4]).startswith("f"):
        ops = [T.strip(x, refs=True, sites=True) for x in (t[2], t[3])]
        consts = [o for o in ops if o[0] == "const" and isinstance(o[2], float)]
        if len(consts) == 1 and consts[0][2] != int(consts[0][2]):
            return ("bad", "the value is shifted by the non-integer constant %s%s before it is truncated: the cell boundaries move by that amount, so part of every cell "
                           "is assigned to its neighbour" % ("-" if t[1] == "Sub" else "+", consts[0][2]))
    if t[0] == "bin" and len(t) >= 5 and str(t[4]).startswith("f"):
        return ("bad", "float arithmetic (%s) is applied to the coordinate before it is floored: f32 rounding moves values across integer boundaries "
                       "(tiny negatives, magnitudes beyond 2^23)" % t[1])
    if t[0] == "field" and isinstance(t[1], tuple) and t[1][0] == "agg" and t[1][1] == "tuple" and str(t[2]).rsplit(".", 1)[-1].isdigit():
        k_ = int(str(t[2]).rsplit(".", 1)[-1])
        if k_ < len(t[1][2]):
            return floor_offset(prog, t[1][2][k_], acc, cls, depth)
    if t[0] == "field" and t[2] in ("(,).0", "tuple.0", "0"):
        return floor_offset(prog, t[1], acc, cls, depth)
    return ("unknown", "term %s" % T.show(t)[:60])


def floor_chain(prog, t, axis):
    """K-floor: which texel the repeating sampler addresses. The masked operand must equal floor(coord) + 0 modulo the
    (power-of-two) size for every |coord| < 2^31. Finite-domain abstract interpretation of the conversion term: the
    coordinate ranges over five classes (sign x integrality, and -0.0); each operation maps an offset relative to
    floor(coord): floor -> 0; float->signed truncation -> +1 on negative non-integers; is_sign_negative -> 0/1;
    integer +/- constants shift; int->int conversions preserve residues; float->unsigned of a negative value,
    narrow targets and float arithmetic before the floor are recognised as wrong."""
    t = strip_all(t)
    if t[0] != "bin" or t[1] != "BitAnd":
        return "unknown", "not masked"
    x = None
    for a, b in ((t[2], t[3]), (t[3], t[2])):
        m = T.strip(b, refs=True)
        if m[0] == "field" and m[2].startswith("SamplerRepeatPot."):
            x = a
    if x is None:
        return "unknown", "mask operand not found"
    acc = "::u" if axis == 0 else "::v"
    wrong = []
    for cls in COORD_CLASSES:
        r = floor_offset(prog, x, acc, cls)
        if r[0] == "bad":
            return "bad", r[1] + " (coordinates: %s)" % cls
        if r[0] == "unknown":
            return "unknown", r[1]
        if r[0] != "off":
            return "unknown", "masked operand is %r, not derived from the coordinate" % (r,)
        if r[1] != 0:
            wrong.append("%s -> floor %+d" % (cls, r[1]))
    if wrong:
        return "bad", "the masked value is not floor(coordinate) for: " + "; ".join(wrong)
    return "ok", "floor(%s) on all %d coordinate classes" % (acc[2:], len(COORD_CLASSES))


def clamp_component(prog, t, axis):
    t = T.strip(strip_all(t), casts=False)
    if t[0] != "cast" or t[1] != "FloatToInt" or t[3] != "u32":
        return False, "not a float->u32 conversion: %s" % T.show(t)[:80]
    fl = t[2]
    if not (fl[0] == "call" and "floor" in fl[1].split(" => ")[0].rsplit("::", 1)[-1]):
        # floor is optional for safety (truncation also bounds), but clamp is not
        fl = ("call", "id", (fl,))
    inner = fl[2][0]
    if not (inner[0] == "call" and inner[1].split(" => ")[0].endswith("f32>::clamp")):
        return False, "not clamped: %s" % T.show(t)[:80]
    x, lo, hi = inner[2]
    if lo != ("const", "f32", 0.0):
        return False, "lower clamp bound is %s, not 0.0" % T.show(lo)
    want = "Texture." + ("w" if axis == 0 else "h")
    ok_hi = hi[0] == "bin" and hi[1] == "Sub" and T.strip(hi[2], refs=True)[0] == "field" and T.strip(hi[2], refs=True)[2] == want and hi[3] == ("const", "f32", 1.0)
    if not ok_hi:
        return False, "upper clamp bound %s is not %s - 1.0" % (T.show(hi)[:60], want)
    acc = "::u" if axis == 0 else "::v"
    if not (x[0] == "call" and x[1].split(" => ")[0].endswith(acc)):
        return False, "axis %d is driven by %s" % (axis, T.show(x)[:40])
    return True, "floor(clamp(%s, 0.0, %s - 1.0)) as u32" % ("u" if axis == 0 else "v", want)


def check_config(rep, prog):
    cfg = prog.config
    feats = prog.features
    samplers = [("SamplerRepeatPot", repeat_component)]
    if TEX + "SamplerClamp::sample_abs" in prog.bodies:
        samplers.append(("SamplerClamp", clamp_component))
    rep.floor("C12.samplers.%s" % cfg, len(samplers), 2 if "fp" in feats else 1, "sampler types present")
    items = P.Items(prog)
    for name, comp in samplers:
        sa0 = prog.body(TEX + name + "::sample_abs")
        sm0 = prog.body(TEX + name + "::sample")
        # private helpers of tex.rs (a texel fetch, a per-axis wrap/clamp, a relative-to-absolute scaling) are seen through
        helper = lambda cb, f=sa0.file: (not cb.is_pub) and cb.file == f and cb.kind in ("Fn", "AssocFn")  # noqa: E731
        sa, sm = prog.inlined(sa0, depth=2, pred=helper), prog.inlined(sm0, depth=2, pred=helper)
        sl = T.Slicer(sa)
        # ---- B-index: the index sample_abs hands to the texture's view, by interpretation (sa/tex_sem.py): the recorded components are the
        # same values however the code spells them (separate statements, array::map, compound assignment, helpers)
        from . import tex_sem as TXS, absint as A_
        try:
            _it, rec_abs, recv_abs, panic_abs = TXS.run(prog, sa0, name)
        except A_.Undecided as e:
            raise common.Infra("C12.B-index: %s::sample_abs could not be interpreted (%s)" % (name, e))
        ics = [(None, None, rv_, ("agg", "array", tuple(TXS.to_term(c_) for c_ in comps_))) for comps_, rv_ in zip(rec_abs, recv_abs)]
        rep.floor("C12.B-index.%s.%s" % (name, cfg), len(ics), 1, "view index in sample_abs")
        bounded = True
        for bi, t, recv, idx in ics:
            it = idx
            comps = list(it[2]) if it[0] == "agg" and it[1] == "array" else []
            if len(comps) != 2:
                bounded = False
                rep.violate("C12.B-index", "B-index|%s|shape" % name, sa0.where(), "%s::sample_abs indexes the view with %s, not an [x, y] pair" % (name, T.show(it)[:80]), config=cfg)
                continue
            for axis in (0, 1):
                ok, why = comp(prog, comps[axis], axis)
                rep.inst("C12.B-index", "%s::sample_abs axis %d: %s -> %s" % (name, axis, why, "bounded" if ok else "UNBOUNDED"), config=cfg)
                if not ok:
                    bounded = False
                    rep.violate("C12.B-index", "B-index|%s|axis%d" % (name, axis), sa0.where(),
                                "%s::sample_abs: index component %d has no bounding provenance against its own axis (%s): the view's out-of-bounds panic is reachable"
                                % (name, axis, why), config=cfg)
            if name == "SamplerRepeatPot":
                for axis in (0, 1):
                    verdict, why = floor_chain(prog, comps[axis], axis)
                    rep.inst("C12.K-floor", "%s::sample_abs axis %d: %s (%s)" % (name, axis, why, verdict), config=cfg)
                    if verdict == "bad":
                        rep.violate("C12.K-floor", "K-floor|axis%d" % axis, sa0.where(),
                                    "SamplerRepeatPot::sample_abs does not address the texel at floor(coordinate) mod size: %s" % why, config=cfg)
                    elif verdict == "unknown":
                        raise common.Infra("C12.K-floor: conversion chain of axis %d not recognised (%s); classify it" % (axis, why))
            # the view indexed is the texture's own data
            rv = recv
            own = isinstance(recv, tuple) and recv[0] == "sym" and "Texture.data" in str(recv[1])
            if not own:
                bounded = False
                rep.violate("C12.B-index", "B-index|%s|data" % name, sa0.where(), "%s::sample_abs indexes something other than tex.data (%s)" % (name, str(rv)[:80]), config=cfg)
        # ---- P-total
        seen, edges, generic, std_safe = P.inventory(prog, [sa0, sm0])
        P.discharge_generic(edges, items)
        for e in edges:
            if e.discharged:
                rep.inst("C12.P-total", "%s: %s %s at %s discharged by %s" % (name, e.kind, e.what[:50], e.where, e.discharged[0]), config=cfg)
                continue
            bp = e.body.path
            why = None
            strict = INNER + "to_index_strict"
            never_returns = not any(blk_["term"]["k"] == "Return" for blk_ in e.body.blocks)
            via_strict = any(strict in hop.replace("core::util", "retrofire_core::util") for hop in CG.path_to(seen, bp)[-1:])
            if e.kind == "diverge" and (bp == strict or bp.startswith(strict + "::{closure") or (never_returns and via_strict and not e.body.is_pub)):
                why = "B-index: both index components are bounded against their own axis" if bounded else None
            elif bp == INNER + "to_index" and e.kind == "assert" and e.what in ("Overflow:Mul", "Overflow:Add"):
                why = "Inner invariant (C11 R3/R5): called only with x < w && y < h, for which (h-1)*stride + w was computed without overflow"
            elif "ops::index::Index<Pos>>::index" in bp and e.kind == "assert" and e.what == "BoundsCheck":
                why = "Inner invariant (C11 R3): a checked (x, y) maps below (h-1)*stride + w <= data.len()"
            elif e.kind == "std-cond" and "f32>::clamp" in e.what and name == "SamplerClamp":
                why = "non-empty texture: 0.0 <= dim - 1.0 (bounds verified literally by B-index)" if bounded else None
            rep.inst("C12.P-total", "%s: %s %s at %s: %s" % (name, e.kind, e.what[:50], e.where, why or "UNDISCHARGED"), config=cfg)
            if not why:
                rep.violate("C12.P-total", "P-total|%s|%s" % (name, e.key()), e.where,
                            "%s: reachable panic edge (%s: %s) for some coordinate; call path: %s"
                            % (name, e.kind, e.what, " ; ".join(CG.path_to(seen, bp)) or CG.short(bp)), config=cfg)
        rep.extra.setdefault("generic_dispatch_assumed_total", {})["%s/%s" % (cfg, name)] = generic
        # ---- D-rel: the index `sample` ends up with is the one `sample_abs` computes for the coordinate (w*u, h*v) of the same texture
        from . import symalg as S_
        try:
            _it2, rec_rel, recv_rel, _p2 = TXS.run(prog, sm0, name)
            scaled = ("adt", TXS.VEC, "Vector", [("array", [("symop", "Mul", S_.sym("Texture.w"), S_.sym("tc.u")), ("symop", "Mul", S_.sym("Texture.h"), S_.sym("tc.v"))]), ("tuple", [])])
            _it3, rec_sub, recv_sub, _p3 = TXS.run(prog, sa0, name, tc=scaled)
        except A_.Undecided as e:
            raise common.Infra("C12.D-rel: %s::sample could not be interpreted (%s)" % (name, e))

        def canon(v):
            if isinstance(v, tuple) and v and v[0] == "symop":
                args = [canon(x) if isinstance(x, tuple) else x for x in v[2:]]
                if v[1] in ("Mul", "Add", "BitAnd", "BitOr") and len(args) == 2:
                    args = sorted(args, key=repr)
                return ("symop", v[1]) + tuple(args)
            if isinstance(v, tuple):
                return tuple(canon(x) if isinstance(x, tuple) else x for x in v)
            return v
        ok_rel = bool(rec_rel) and [[canon(c_) for c_ in r_] for r_ in rec_rel] == [[canon(c_) for c_ in r_] for r_ in rec_sub] and recv_rel == recv_sub
        rep.inst("C12.D-rel", "%s::sample(tc) = sample_abs(self, tex, uv(w*u, h*v)): %s" % (name, ok_rel), config=cfg)
        if not ok_rel:
            rep.violate("C12.D-rel", "D-rel|%s" % name, sm.where(), "%s::sample does not delegate to sample_abs with (width*u, height*v) of the same texture" % name, config=cfg)

    # ---- mask construction in SamplerRepeatPot::new, by interpretation over the four (width is a power of two?, height is?) scenarios:
    # `new` panics unless both are, and then returns w_mask = width - 1, h_mask = height - 1 - however the test is spelled
    # (is_power_of_two, count_ones() == 1, w & (w - 1) == 0 ...)
    from . import symalg as S_, absint as A_, tex_sem as TXS
    from fractions import Fraction as Fr_
    nw = prog.body(TEX + "SamplerRepeatPot::new")
    tf = prog.adts[TEX + "Texture"]["variants"][0]["fields"]
    mask_bad = []
    for pot_w in (True, False):
        for pot_h in (True, False):
            pot = {"W": pot_w, "H": pot_h}

            def dim_of(v):
                v = A_.deref_all(itn, v) if False else v
                while isinstance(v, tuple) and v[0] == "symop" and (v[1].startswith("cast:") or v[1].startswith("f2i:")):
                    v = v[2]
                return {"Texture.w": "W", "Texture.h": "H"}.get(v[1]) if isinstance(v, tuple) and v[0] == "sym" else None

            def m_pot(it, args, c, d):
                k = dim_of(A_.deref_all(it, args[0]))
                return int(pot[k]) if k else NotImplemented

            def m_ones(it, args, c, d):
                k = dim_of(A_.deref_all(it, args[0]))
                return ("symop", "count_ones", S_.sym(k), None) if k else NotImplemented

            def orc(op, x, y):
                for p_, q_, flip in ((x, y, False), (y, x, True)):
                    if isinstance(p_, tuple) and p_[0] == "symop" and p_[1] == "count_ones" and q_ == 1:
                        is1 = pot[p_[2][1]]
                        return {"Eq": is1, "Ne": not is1}.get(op)
                    # w & (w - 1) == 0
                    if isinstance(p_, tuple) and p_[0] == "symop" and p_[1] == "BitAnd" and q_ == 0:
                        ks = {dim_of(z) for z in (p_[2], p_[3])} | {dim_of(z[2]) for z in (p_[2], p_[3]) if isinstance(z, tuple) and z[0] == "symop" and z[1] == "Sub" and z[3] == 1}
                        ks.discard(None)
                        if len(ks) == 1:
                            is1 = pot[next(iter(ks))]
                            return {"Eq": is1, "Ne": not is1}.get(op)
                    # a power of two is not zero
                    if dim_of(p_) and q_ == 0 and op in ("Eq", "Ne", "Gt", "Lt", "Ge", "Le"):
                        return {"Eq": False, "Ne": True, "Gt": not flip, "Lt": flip, "Ge": not flip, "Le": flip}[op] if pot[dim_of(p_)] else None
                return None
            itn = S_.interp(prog, models={"::is_power_of_two": m_pot, "::count_ones": m_ones}, oracle=orc)
            itn.float_to_int = lambda v, to: None if (isinstance(v, tuple) and v[0] == "f") else ("symop", "f2i:" + to, v, None)
            tex = ("adt", TEX + "Texture", "Texture", [{"w": S_.sym("Texture.w"), "h": S_.sym("Texture.h"), "data": ("sym", "Texture.data")}.get(f, A_.UNKNOWN) for f in tf])
            try:
                r = A_.deref_all(itn, itn.call_body(nw, [S_.ref_to(tex)], env={}))
                outcome = "returns"
            except A_.Panic:
                outcome, r = "panics", None
            except A_.Undecided as e:
                raise common.Infra("C12.B-index: SamplerRepeatPot::new could not be interpreted (%s)" % e)
            tag = "width %s, height %s a power of two" % ("is" if pot_w else "is NOT", "is" if pot_h else "is NOT")
            if (outcome == "returns") != (pot_w and pot_h):
                mask_bad.append(("mask|contract", "SamplerRepeatPot::new %s although %s" % (outcome, tag)))
            elif r is not None:
                names = prog.adts[TEX + "SamplerRepeatPot"]["variants"][0]["fields"]
                for fld, sym_ in (("w_mask", "Texture.w"), ("h_mask", "Texture.h")):
                    v = A_.deref_all(itn, r[3][names.index(fld)])
                    core_ = v
                    try:
                        def unc(z):
                            if isinstance(z, tuple) and z[0] == "symop" and (z[1].startswith("cast:") or z[1].startswith("f2i:")):
                                return unc(z[2])
                            if isinstance(z, tuple) and z[0] == "symop":
                                return (z[0], z[1]) + tuple(unc(q) if isinstance(q, tuple) else q for q in z[2:])
                            return z
                        okm = S_.to_poly(unc(v)) == {(sym_,): Fr_(1), (): Fr_(-1)}
                    except S_.NotPolynomial:
                        okm = False
                    if not okm:
                        mask_bad.append(("mask|%s" % fld, "SamplerRepeatPot::new: %s is %s, not %s - 1" % (fld, str(core_)[:80], "width" if fld == "w_mask" else "height")))
    rep.inst("C12.B-index", "SamplerRepeatPot::new in 4 scenarios: panics unless width and height are powers of two, else w_mask = width - 1, h_mask = height - 1: %s" % (not mask_bad), config=cfg)
    for key, msg in dict(mask_bad).items():
        rep.violate("C12.B-index", "B-index|%s" % key, nw.where(), msg, config=cfg)
    # Overflow:Sub(w, 1) in new is discharged by is_power_of_two(w) => w >= 1 : recorded, `new` itself is allowed to panic on non-POT sizes

    # ---- Texture construction sites
    sites = []
    for b in prog.bodies.values():
        for bi, si, s in b.stmts():
            if s["k"] == "Assign" and s["rv"]["k"] == "Aggregate" and s["rv"].get("adt", "").endswith("render::tex::Texture"):
                if "Clone>::clone" in b.path:
                    continue
                sites.append((b, bi, si, s))
    rep.floor("C12.texture_ctor.%s" % cfg, len(sites), 2, "Texture{..} construction sites")
    for b, bi, si, s in sites:
        bsl = items.slicer(b)
        ops = dict(zip(s["rv"]["fields"], [T.strip(bsl.operand(o), sites=False, refs=True) for o in s["rv"]["ops"]]))
        data = ops["data"]

        def dim_ok(t, meth):
            t = T.strip(t, sites=True, refs=True)
            return t[0] == "cast" and t[1] == "IntToFloat" and t[2][0] == "call" and t[2][1].split(" => ")[0].endswith("Inner::<T, D>::" + meth) \
                and T.contains(t[2], lambda q: T.strip(q, sites=True, refs=True) == T.strip(data, sites=True, refs=True))
        ok = dim_ok(ops["w"], "width") and dim_ok(ops["h"], "height")
        rep.inst("C12.B-index", "%s: Texture{w: data.width() as f32, h: data.height() as f32, data}: %s" % (b.path.split("tex::")[-1][:60], ok), config=cfg)
        if not ok:
            rep.violate("C12.B-index", "B-index|texture-ctor|%s" % b.path, b.where(bi, si),
                        "Texture is built with w/h that are not the width()/height() of the data it stores", config=cfg)

    # ---- O-once
    so = prog.body(TEX + "SamplerOnce::sample_abs")
    _seen, edges, _g, _s = P.inventory(prog, [so], stop=(INNER + "to_index_strict",))
    edges = [e for e in edges if e.body is so]
    P.discharge_generic(edges, items)
    open_e = [e for e in edges if not e.discharged]
    def under_cfg_debug(e):
        """`if cfg!(debug_assertions) { assert!(..) }`: the panic block lies behind a switch on a boolean literal"""
        for bi_, blk_ in enumerate(so.blocks):
            t_ = blk_["term"]
            if t_["k"] == "SwitchInt" and t_["dty"] == "bool" and ("k" in t_["discr"] or "cfg" in (t_.get("exp") or [])) and so.dominates(bi_, e.bb) and bi_ != e.bb:
                return True
        return False
    dbg = [e for e in open_e if e.kind == "diverge" and ("debug_assert" in (e.node.get("exp") or []) or under_cfg_debug(e))]
    extra = [e for e in open_e if e not in dbg]
    rep.inst("C12.O-once", "SamplerOnce::sample_abs: %d debug assertions, %d other panic edges in its own body" % (len(dbg), len(extra)), config=cfg)
    for e in extra:
        rep.violate("C12.O-once", "O-once|%s" % e.what, e.where, "SamplerOnce::sample_abs has an additional panic edge (%s)" % e.what, config=cfg)


def check(rep, args):
    configs = ["ws"] if rep.tier == "quick" else common.ALL_CONFIGS
    rep.configs = configs
    for cfg in configs:
        check_config(rep, facts.program(cfg))
    cov = {
        "explanation": "panic-edge enumeration below the sampling functions; the index each sampler hands to the view recorded by abstract interpretation "
                       "(sa/tex_sem.py) and each component checked against its own axis (mask / clamp / floor classes), "
                       "mask/texture construction provenance, and the relative->absolute delegation as polynomial identities",
        "evaluations": len(rep.instances),
        "distinct_nontrivial": len({i["what"] for i in rep.instances}),
        "rules": ["P-total", "B-index", "D-rel", "O-once"],
    }
    return "other", cov, [
        "the texture is non-empty and a SamplerRepeatPot is used with the texture it was created for (the property's hypotheses)",
        "texture dimensions are exactly representable in f32 (< 2^24)",
        "float -> int `as` casts saturate and map NaN to 0 (language semantics); f32::clamp returns NaN for NaN input without panicking",
        "which texel is addressed is not decided"]
