"""What index a texture sampler hands to the texture's view, by abstract interpretation (C12 B-index, K-floor, D-rel).

`sample_abs(&self, tex, tc)` / `sample(&self, tex, tc)` are interpreted with the sampler's fields, the texture's dimensions and the
coordinate as symbols; `floor` (std / libm / micromath / the built-in one, whose exactness is C20.F1) is an opaque function, a
float -> integer conversion a tagged operation, and the view's `Index` impl is uninterpreted: it records the [x, y] it is given.
The recorded components are values of the interpreter's domain - the same whichever way the code spells them (separate statements,
`array::map`, compound assignment through destructured bindings, helper functions) - and are converted back to provenance terms for
the component rules of rules_C12 (masking / clamping / floor-offset classes)."""
from . import absint as A, symalg as S

TEX = "retrofire_core::render::tex::"
VEC = "retrofire_core::math::vec::Vector"
FLOATS = {"tc.u", "tc.v", "Texture.w", "Texture.h"}


def run(prog, body, which, tc=None):
    """-> (interpreter, [recorded index value lists], receiver values, panic|None)"""
    rec, recv = [], []
    me = None
    if "SamplerRepeatPot" in body.path:
        me = ("adt", TEX + "SamplerRepeatPot", "SamplerRepeatPot", [S.sym("SamplerRepeatPot.w_mask"), S.sym("SamplerRepeatPot.h_mask")])
        fields = prog.adts[TEX + "SamplerRepeatPot"]["variants"][0]["fields"]
        me = ("adt", TEX + "SamplerRepeatPot", "SamplerRepeatPot", [S.sym("SamplerRepeatPot." + f) for f in fields])
    else:
        nm = body.path.split("tex::")[1].split("::")[0]
        ad = prog.adts.get(TEX + nm)
        me = ("adt", TEX + nm, nm, [S.sym("%s.%s" % (nm, f)) for f in (ad["variants"][0]["fields"] if ad else [])])
    tf = prog.adts[TEX + "Texture"]["variants"][0]["fields"]
    tex = ("adt", TEX + "Texture", "Texture", [{"w": S.sym("Texture.w"), "h": S.sym("Texture.h"), "data": ("sym", "Texture.data")}.get(f, A.UNKNOWN) for f in tf])
    coord = tc or ("adt", VEC, "Vector", [("array", [S.sym("tc.u"), S.sym("tc.v")]), ("tuple", [])])

    def m_view(it, args, c, d):
        return ("sym", "VIEW:%s" % str(A.deref_all(it, args[0]))[:40])

    def m_index(it, args, c, d):
        r0 = A.deref_all(it, args[0])
        if not (isinstance(r0, tuple) and r0[0] == "sym" and str(r0[1]).startswith("VIEW")):
            return NotImplemented
        idx = A.deref_all(it, args[1])
        comps = None
        if isinstance(idx, tuple) and idx[0] == "array":
            comps = [A.deref_all(it, x) for x in idx[1]]
        elif isinstance(idx, tuple) and idx[0] == "adt" and idx[3]:
            inner = A.deref_all(it, idx[3][0])
            if isinstance(inner, tuple) and inner[0] == "array":
                comps = [A.deref_all(it, x) for x in inner[1]]
        elif isinstance(idx, tuple) and idx[0] == "tuple":
            comps = [A.deref_all(it, x) for x in idx[1]]
        rec.append(comps if comps is not None else [idx])
        recv.append(r0)
        return ("sym", "TEXEL")
    fl = S._opaque("FLOOR")
    models = {"core::ops::deref::Deref::deref": lambda it, args, c, d: args[0],      # the texture's buffer is a placeholder: its Deref is not interpreted
              "AsSlice2::as_slice2": m_view, "Inner::<T, D>::as_slice2": m_view, "core::ops::index::Index::index": m_index, "ops::index::Index<": m_index,
              "f32>::floor": fl, "$float::fallback::floor": fl, "$::floorf": fl, "$float::mm::floor": fl, "$float::libm::floor": fl,
              "f32>::clamp": S._opaque("fclamp"), "f32>::min": S._opaque("fmin"), "f32>::max": S._opaque("fmax"),
              "f32>::is_sign_negative": lambda it, a, c, d: ("symop", "is_sign_negative", A.deref_all(it, a[0]), None)}
    it = S.interp(prog, models=models, oracle=lambda op, a, b: True)       # debug range assertions hold
    it.float_to_int = lambda v, to: None if (isinstance(v, tuple) and v[0] == "f") else ("symop", "f2i:" + to, v, None)
    panic = None
    try:
        it.call_body(body, [S.ref_to(me), S.ref_to(tex), coord], env={"D": "X", "C": "u32"})
    except A.Panic as e:
        panic = str(e)
    return it, rec, recv, panic


def is_float(v):
    if isinstance(v, tuple):
        if v[0] == "f":
            return True
        if v[0] == "sym":
            return v[1] in FLOATS
        if v[0] == "symop":
            if v[1] in ("FLOOR", "fclamp", "fmin", "fmax"):
                return True
            if v[1].startswith("f2i:") or v[1].startswith("cast:") or v[1] in ("BitAnd", "BitOr", "Shl", "Shr", "is_sign_negative"):
                return v[1] == "cast:f32"
            return any(is_float(x) for x in v[2:] if x is not None)
    return False


def to_term(v):
    """interpreter value -> provenance term in the shapes rules_C12's component rules read"""
    if isinstance(v, bool):
        return ("const", "bool", int(v))
    if isinstance(v, int):
        return ("const", "i32", v)
    if not isinstance(v, tuple):
        return ("opaque", repr(v))
    if v[0] == "f":
        return ("const", "f32", v[1])
    if v[0] == "sym":
        n = v[1]
        if n == "tc.u":
            return ("call", "tex::TexCoord::u", (), None)
        if n == "tc.v":
            return ("call", "tex::TexCoord::v", (), None)
        if n.startswith("Texture."):
            return ("field", ("deref", ("param", 2)), n)
        if "." in n:
            return ("field", ("deref", ("param", 1)), n)
        return ("opaque", n)
    if v[0] == "symop":
        op = v[1]
        if op == "FLOOR":
            return ("call", "core::f32::<impl f32>::floor", (to_term(v[2]),), None)
        if op == "fclamp":
            lo, hi = v[3]
            return ("call", "core::f32::<impl f32>::clamp", (to_term(v[2]), to_term(lo), to_term(hi)), None)
        if op in ("fmin", "fmax"):
            return ("call", "core::f32::<impl f32>::" + op[1:], (to_term(v[2]), to_term(v[3])), None)
        if op == "is_sign_negative":
            return ("call", "core::f32::<impl f32>::is_sign_negative", (to_term(v[2]),), None)
        if op.startswith("f2i:"):
            return ("cast", "FloatToInt", to_term(v[2]), op[4:])
        if op.startswith("cast:"):
            to = op[5:]
            return ("cast", "IntToFloat" if to.startswith("f") else ("FloatToInt" if is_float(v[2]) else "IntToInt"), to_term(v[2]), to)
        if op in ("Add", "Sub", "Mul", "Div", "Rem", "BitAnd", "BitOr", "BitXor", "Shl", "Shr", "Lt", "Le", "Gt", "Ge", "Eq", "Ne"):
            ty = "f32" if (is_float(v[2]) or is_float(v[3])) else "u32"
            return ("bin", op, to_term(v[2]), to_term(v[3]), ty)
        if op == "Neg":
            return ("un", "Neg", to_term(v[2]))
        return ("call", "?::" + op.split(":")[0], tuple(to_term(x) for x in v[2:] if x is not None), None)      # `saturating_sub:i32` -> saturating_sub
    return ("opaque", str(v)[:40])
