"""C14 — OBJ parsing is total; the returned builder builds.

Decides (engines P and D):
  P-total   every panic edge in the call graph below parse_obj / read_obj is
            discharged by a generic schema (constants, integer ranges with
            iterator-item binding, dominating comparisons, infeasible paths
            by std facts) or lies inside Mesh::new and is covered by its contract
  K-mesh    contract of Mesh::new(faces, verts): "panics iff some face index
            >= verts.len()". (a) attribution: Mesh::new has exactly one panic
            edge and it is the failing side of `all(j < verts.len())`;
            (b) the call site establishes the precondition on EVERY path: it
            passes `max_pos < verts.len()` or `faces.is_empty()`;
            (c) max_pos really is the running maximum of every position index
            of every face pushed (the max update dominates the push)
  B-build   the value returned is Mesh::new(..).into_builder(): build() re-validates
            exactly the validated data
Leaves: coordinates/indices reproduced faithfully (values).
"""
from . import facts, guards as G, term as T, common, panics as P, callgraph as CG

ROOTS = ["retrofire_geom::io::parse_obj", "retrofire_geom::io::read_obj"]
MESH_NEW = "retrofire_core::geom::mesh::Mesh::<A, B>::new"


def mesh_new_contract(rep, prog, items):
    """(a) the callee's contract, decided by abstract interpretation: Mesh::new on two faces with symbolic indices j and a vertex vector
    of symbolic length n panics exactly in the scenarios where some j >= n (all 64 in/out combinations), however the check is written
    (assert!(all(..)), position/any + panic!, a loop). Undischarged panic edges other than that one are reported."""
    import itertools
    from . import symalg as S, absint as A
    cfg = prog.config
    mn = prog.body(MESH_NEW)
    TRI = "retrofire_core::geom::Tri"
    names = ["j%d%d" % (f, k_) for f in range(2) for k_ in range(3)]
    wrong = []
    n_scn = 0
    undecided = None
    pending_infra = []
    for bits in itertools.product((True, False), repeat=6):
        scn = dict(zip(names, bits))

        def orc(op, a, b_, scn=scn):
            for (x, y, flip) in ((a, b_, False), (b_, a, True)):
                if isinstance(x, tuple) and x[0] == "sym" and x[1] in scn and y == ("sym", "n"):
                    inr = scn[x[1]]
                    res = {"Lt": inr, "Ge": not inr, "Le": inr, "Gt": not inr, "Eq": False, "Ne": True}
                    if flip:
                        res = {"Gt": inr, "Le": not inr, "Ge": inr, "Lt": not inr, "Eq": False, "Ne": True}
                    return res.get(op)
            return None

        def m_collect(it_, args_, c_, d_):
            v_ = A.deref_all(it_, args_[0])
            return v_ if isinstance(v_, tuple) and v_[0] in ("symvec", "array") else S.m_collect(it_, args_, c_, d_)
        it = S.interp(prog, oracle=orc, models={"IntoIterator::into_iter": lambda it_, args_, c_, d_: args_[0],
                                                "core::iter::traits::iterator::Iterator::collect": m_collect})
        faces = ("array", [("adt", TRI, "Tri", [("array", [S.sym("j%d%d" % (f, k_)) for k_ in range(3)])]) for f in range(2)])
        try:
            it.call_body(mn, [faces, ("symvec", "n")])
            got = False
        except A.Panic:
            got = True
        except A.Undecided as e:
            undecided = str(e)
            break
        n_scn += 1
        if got != (not all(bits)):
            wrong.append((scn, got))
    if undecided:
        pending_infra.append("C14.K-mesh: Mesh::new could not be interpreted abstractly (%s)" % undecided)
    ok = not wrong and not undecided
    rep.inst("C14.K-mesh", "Mesh::new on symbolic face indices and vertex count: panics exactly when some index >= verts.len() in all %d scenarios: %s" % (n_scn, ok), config=cfg)
    if wrong:
        scn, got = wrong[0]
        rep.violate("C14.K-mesh", "K-mesh|attribution|contract", mn.where(),
                    "Mesh::new does not panic exactly when a face index is out of range: with indices in range = %s it %s"
                    % ({k_: v_ for k_, v_ in scn.items()}, "panics" if got else "returns"), config=cfg)
    # any other panic edge of Mesh::new must be discharged; an index into `faces` by the result of position()/enumerate() on the same
    # vector is in range by construction
    _seen, edges, _g, _s = P.inventory(prog, [mn])
    P.discharge_generic(edges, items)
    sl = items.slicer(mn)
    div = [e for e in edges if not e.discharged and e.kind == "diverge"]
    rep.inst("C14.K-mesh", "Mesh::new has %d undischarged diverging edge(s) (the contract's own panic is one)" % len(div), config=cfg)
    for e in div[1:] if len(div) > 1 else []:
        rep.violate("C14.K-mesh", "K-mesh|attribution|%s" % e.what, e.where,
                    "Mesh::new has %d panic sites where its contract 'panics iff a face index >= verts.len()' accounts for one (%s at %s)" % (len(div), e.what, e.where), config=cfg)
    for e in edges:
        if e.discharged or e.kind == "diverge":
            continue
        t_ = e.node
        if e.kind == "std-cond" and "ops::index::Index" in e.what and t_.get("args"):
            ix = T.strip(sl.operand(t_["args"][1]), sites=True, refs=True)
            if T.contains(ix, lambda q: q[0] == "call" and q[1].split(" => ")[0].rsplit("::", 1)[-1] in ("position", "rposition", "enumerate")):
                continue
        rep.violate("C14.K-mesh", "K-mesh|attribution|%s" % e.what, e.where,
                    "Mesh::new has a panic edge (%s) that its contract 'panics iff a face index >= verts.len()' does not account for" % e.what, config=cfg)
    if pending_infra and not any(v.key.startswith("K-mesh|attribution") for v in rep.violations):
        raise common.Infra(pending_infra[0])


def _subst_params(t, args):
    if not isinstance(t, tuple):
        return t
    if t[0] == "param" and isinstance(t[1], int) and 1 <= t[1] <= len(args):
        return args[t[1] - 1]
    out = tuple(_subst_params(x, args) if isinstance(x, tuple) else x for x in t)
    # (Some{x} as Some).0  ->  x   (an Option argument built at the call site and matched in the checker)
    if out[0] == "field" and out[1][0] == "downcast" and out[1][1][0] == "agg" and out[1][1][1].endswith("::" + out[1][2]) and out[1][1][2]:
        return out[1][1][2][0]
    return out


def _checker_summary(prog, callee):
    """For a function returning Result: comparisons between values derived from its parameters such that EVERY return of an Ok value
    is reachable only through one side of the comparison: [(op, lhs, rhs, passing_side)]."""
    sl = T.Slicer(callee)
    rets_ok = []
    for bi, si, st in callee.stmts():
        if st["k"] == "Assign" and st["lhs"]["l"] == 0 and not st["lhs"]["p"] and st["rv"]["k"] == "Aggregate" and st["rv"].get("variant") == "Ok":
            rets_ok.append(bi)
    if not rets_ok:
        return []
    out = []
    for sb, tr, fa in G.bool_edges(callee, sl, lambda d: d[0] == "bin" and d[1] in ("Ge", "Gt", "Lt", "Le")):
        d, neg = G.strip_not(sl.operand(callee.term(sb)["discr"]))
        a, b = T.strip(d[2], sites=False, refs=True), T.strip(d[3], sites=False, refs=True)
        if neg:
            tr, fa = fa, tr
        # every Ok return avoids the true side / the false side of this comparison?
        avoid_true = all(bi not in callee.reachable(dst, unwind=False) for (_s, dst, _l) in tr for bi in rets_ok)
        avoid_false = all(bi not in callee.reachable(dst, unwind=False) for (_s, dst, _l) in fa for bi in rets_ok)
        if avoid_true and not avoid_false:
            out.append((d[1], a, b, False))
        elif avoid_false and not avoid_true:
            out.append((d[1], a, b, True))
    return out


def check_config(rep, prog):
    cfg = prog.config
    roots = [prog.body(r) for r in ROOTS if r in prog.bodies]
    rep.floor("C14.roots.%s" % cfg, len(roots), 1, "parse_obj/read_obj entry points")
    seen, edges, generic, std_safe = P.inventory(prog, roots, stop=(MESH_NEW,))
    items = P.Items(prog)
    P.discharge_generic(edges, items)
    rep.count("bodies_analysed", len(seen))
    rep.count("panic_edges", len(edges))
    by_schema = {}
    mesh_fam = {b.path for b in prog.family(MESH_NEW)}
    contract_edges = [e for e in edges if e.body.path in mesh_fam]
    edges = [e for e in edges if e.body.path not in mesh_fam]
    rep.inst("C14.P-total", "%d panic edge(s) inside Mesh::new are handled by its contract (rule K-mesh), not individually" % len(contract_edges), config=cfg)
    for e in edges:
        path = CG.path_to(seen, e.body.path)
        if e.discharged:
            by_schema[e.discharged[0]] = by_schema.get(e.discharged[0], 0) + 1
            rep.inst("C14.P-total", "%s %s at %s discharged by %s: %s" % (e.kind, e.what[:60], e.where, e.discharged[0], e.discharged[1]), config=cfg)
        else:
            rep.inst("C14.P-total", "%s %s at %s UNDISCHARGED" % (e.kind, e.what[:60], e.where), config=cfg)
            rep.violate("C14.P-total", "P-total|%s" % e.key(), e.where,
                        "reachable panic edge (%s: %s) not excluded for arbitrary input; call path: %s"
                        % (e.kind, e.what, " ; ".join(path) or CG.short(e.body.path)), config=cfg, body=e.body.path)
    rep.extra.setdefault("discharged_by_schema", {})[cfg] = by_schema
    rep.extra.setdefault("generic_dispatch_assumed_total", {})[cfg] = generic
    rep.extra.setdefault("std_calls_classified_safe", {})[cfg] = len(std_safe)

    # ---- K-mesh
    mesh_new_contract(rep, prog, items)
    # the caller's side of the contract (precondition on every path, running maximum over every face, '/'-field order) by interpreting
    # parse_obj itself on scripted inputs (sa/obj_sem.py): no panic, Ok with exactly the position indices when all are valid, otherwise
    # Err(IndexOutOfBounds(_, largest offending index)) - wherever and however the maximum is kept and checked
    from . import obj_sem as OBJ, absint as A_
    po = prog.body(ROOTS[0])
    sl = items.slicer(po)
    try:
        n_sc, findings = OBJ.check(prog)
    except A_.Undecided as e:
        raise common.Infra("C14.K-mesh: parse_obj could not be interpreted on the scripted inputs (%s%s)" % (e, ("; in " + " < ".join(x for x in getattr(e, "stack", []) if not x.startswith("  "))[:200]) if getattr(e, "stack", None) else ""))
    rule_of = {"panic": "K-mesh", "precondition": "K-mesh", "error-value": "K-mesh", "rejects-valid": "K-mesh", "faces": "F-order", "verts": "F-order"}
    rep.inst("C14.K-mesh", "parse_obj interpreted on %d scripted inputs (valid / invalid position, texture and normal indices, several faces, face lines before vertex lines, "
             "empty input): never panics, fails with the largest offending index exactly when one is out of range: %s" % (n_sc, not any(rule_of[k] == "K-mesh" for k, _m in findings)), config=cfg)
    rep.inst("C14.F-order", "the mesh it returns has exactly the position indices (first '/'-field) of the face lines and the vertex lines, in order: %s"
             % (not any(rule_of[k] == "F-order" for k, _m in findings)), config=cfg)
    for key, msg in findings:
        rule = rule_of[key]
        rep.violate("C14." + rule, ("K-mesh|%s" % key) if rule == "K-mesh" else "F-order", po.where(), msg, config=cfg)

    # ---- B-build
    rt = sl.local(0)
    oks = [s for s in T.walk(rt) if s[0] == "agg" and s[1].endswith("Result::Ok")]
    ok_b = bool(oks) and all(x[2][0][0] == "call" and "into_builder" in x[2][0][1] and T.calls_in(x[2][0], "Mesh::<A, B>::new") for x in oks)
    rep.inst("C14.B-build", "every Ok(..) returned by parse_obj is Mesh::new(..).into_builder(): %s" % ok_b, config=cfg)
    if not ok_b:
        rep.violate("C14.B-build", "B-build", po.where(), "parse_obj can return Ok(builder) that did not come from Mesh::new validation", config=cfg)


def index_order_rule(rep, prog):
    """F-order: in parse_indices the k-th '/'-separated field feeds pos (k=1), uv (k=2), n (k=3)."""
    cfg = prog.config
    b = prog.body("retrofire_geom::io::parse_indices")
    sl = T.Slicer(b)
    nexts = [bi for bi, t in b.calls(lambda c: facts.callee_matches(c, "str::iter::Split", "geom::io::next") and (c["path"].endswith("::next") or "::next" in (c.get("res") or {}).get("path", "")))]
    nexts.sort(key=lambda x: sum(1 for y in nexts if y != x and b.dominates(y, x)))
    rank = {bi: i for i, bi in enumerate(nexts)}
    rep.floor("C14.F-order.nexts", len(nexts), 3, "field extractions in parse_indices")
    aggs = [(bi, si, st) for bi, si, st in b.stmts() if st["k"] == "Assign" and st["rv"]["k"] == "Aggregate" and st["rv"].get("adt", "").endswith("io::Indices")]
    rep.floor("C14.F-order.agg", len(aggs), 1, "Indices{..} construction")
    want = {"pos": 0, "uv": 1, "n": 2}
    for bi, si, st in aggs:
        ops = dict(zip(st["rv"]["fields"], [sl.operand(o) for o in st["rv"]["ops"]]))
        got = {}
        for f, t in ops.items():
            sites = set()
            for q in T.walk(t):
                if q[0] == "call" and q[1].split(" => ")[0].endswith("io::parse_index"):
                    for r in T.walk(q[2][0]):
                        if r[0] == "call" and len(r) > 3 and r[3][1] in rank and r[3][0] == b.path:
                            sites.add(rank[r[3][1]])
                if q[0] == "call" and any(x[0] == "fnptr" and "io::parse_index" in x[1] for x in q[2]):      # and_then / map / map_or .. (parse_index)
                    for r in T.walk(q[2][0]):
                        if r[0] == "call" and len(r) > 3 and r[3][1] in rank and r[3][0] == b.path:
                            sites.add(rank[r[3][1]])
            got[f] = sorted(sites)
        ok = all(got.get(f) == [k] for f, k in want.items())
        rep.inst("C14.F-order", "Indices{pos, uv, n} are parsed from '/'-fields number %s (expected pos<-1st, uv<-2nd, n<-3rd): %s" % ({f: [x + 1 for x in v] for f, v in got.items()}, ok), config=cfg)
        if not ok:
            rep.violate("C14.F-order", "F-order", b.where(bi, si),
                        "the position/texcoord/normal indices are not taken from the 1st/2nd/3rd '/'-separated field respectively (%s)" % got, config=cfg)


def check(rep, args):
    configs = ["ws"] if rep.tier == "quick" else ["ws", "std"]
    rep.configs = configs
    for cfg in configs:
        rep.guard(check_config, rep, facts.program(cfg))
    cov = {
        "explanation": "exhaustive panic-edge enumeration over the call graph below parse_obj/read_obj with schema-based discharge, "
                       "plus the Mesh::new callee contract by interpretation over in/out-of-range scenarios and the caller side by interpreting parse_obj on scripted "
                       "token lines (sa/obj_sem.py): out-of-range faces are refused before Mesh::new, in-range input reaches it, fields are read in pos/uv/n order",
        "evaluations": len(rep.instances),
        "distinct_nontrivial": len({i["what"] for i in rep.instances}),
        "rules": ["P-total", "K-mesh", "B-build", "F-order"],
    }
    return "other", cov, [
        "allocation failure and stack overflow are out of scope",
        "methods of the caller's `impl IntoIterator<Item = u8>` / `impl Read` do not panic (generic dispatch)",
        "std APIs outside the COND table do not panic (table in sa/panics.py)",
        "tokens of split_ascii_whitespace are non-empty; str::parse never panics"]
