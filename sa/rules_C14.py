"""C14 — OBJ parsing is total; the returned builder builds.

Decides (engines P and D):
  P-total   every panic edge in the call graph below parse_obj / read_obj is
            discharged by a generic schema (constants, integer ranges with
            iterator-item binding, dominating comparisons, infeasible paths
            by std facts) or lies inside Mesh::new and is covered by its contract
  K-mesh    contract of Mesh::new(faces, verts): "panics iff some face index
            >= verts.len()". (a) attribution: Mesh::new has exactly one panic
            edge and it is the failing side of `all(j < verts.len())`;
            (b) the call site establishes the precondition on EVERY path: it
            passes `max_pos < verts.len()` or `faces.is_empty()`;
            (c) max_pos really is the running maximum of every position index
            of every face pushed (the max update dominates the push)
  B-build   the value returned is Mesh::new(..).into_builder(): build() re-validates
            exactly the validated data
Leaves: coordinates/indices reproduced faithfully (values).
"""
from . import facts, guards as G, term as T, common, panics as P, callgraph as CG

ROOTS = ["retrofire_geom::io::parse_obj", "retrofire_geom::io::read_obj"]
MESH_NEW = "retrofire_core::geom::mesh::Mesh::<A, B>::new"


def mesh_new_contract(rep, prog, items):
    """(a) the callee's contract, decided by abstract interpretation: Mesh::new on two faces with symbolic indices j and a vertex vector
    of symbolic length n panics exactly in the scenarios where some j >= n (all 64 in/out combinations), however the check is written
    (assert!(all(..)), position/any + panic!, a loop). Undischarged panic edges other than that one are reported."""
    import itertools
    from . import symalg as S, absint as A
    cfg = prog.config
    mn = prog.body(MESH_NEW)
    TRI = "retrofire_core::geom::Tri"
    names = ["j%d%d" % (f, k_) for f in range(2) for k_ in range(3)]
    wrong = []
    n_scn = 0
    undecided = None
    pending_infra = []
    for bits in itertools.product((True, False), repeat=6):
        scn = dict(zip(names, bits))

        def orc(op, a, b_, scn=scn):
            for (x, y, flip) in ((a, b_, False), (b_, a, True)):
                if isinstance(x, tuple) and x[0] == "sym" and x[1] in scn and y == ("sym", "n"):
                    inr = scn[x[1]]
                    res = {"Lt": inr, "Ge": not inr, "Le": inr, "Gt": not inr, "Eq": False, "Ne": True}
                    if flip:
                        res = {"Gt": inr, "Le": not inr, "Ge": inr, "Lt": not inr, "Eq": False, "Ne": True}
                    return res.get(op)
            return None

        def m_collect(it_, args_, c_, d_):
            v_ = A.deref_all(it_, args_[0])
            return v_ if isinstance(v_, tuple) and v_[0] in ("symvec", "array") else S.m_collect(it_, args_, c_, d_)
        it = S.interp(prog, oracle=orc, models={"IntoIterator::into_iter": lambda it_, args_, c_, d_: args_[0],
                                                "core::iter::traits::iterator::Iterator::collect": m_collect})
        faces = ("array", [("adt", TRI, "Tri", [("array", [S.sym("j%d%d" % (f, k_)) for k_ in range(3)])]) for f in range(2)])
        try:
            it.call_body(mn, [faces, ("symvec", "n")])
            got = False
        except A.Panic:
            got = True
        except A.Undecided as e:
            undecided = str(e)
            break
        n_scn += 1
        if got != (not all(bits)):
            wrong.append((scn, got))
    if undecided:
        pending_infra.append("C14.K-mesh: Mesh::new could not be interpreted abstractly (%s)" % undecided)
    ok = not wrong and not undecided
    rep.inst("C14.K-mesh", "Mesh::new on symbolic face indices and vertex count: panics exactly when some index >= verts.len() in all %d scenarios: %s" % (n_scn, ok), config=cfg)
    if wrong:
        scn, got = wrong[0]
        rep.violate("C14.K-mesh", "K-mesh|attribution|contract", mn.where(),
                    "Mesh::new does not panic exactly when a face index is out of range: with indices in range = %s it %s"
                    % ({k_: v_ for k_, v_ in scn.items()}, "panics" if got else "returns"), config=cfg)
    # any other panic edge of Mesh::new must be discharged; an index into `faces` by the result of position()/enumerate() on the same
    # vector is in range by construction
    _seen, edges, _g, _s = P.inventory(prog, [mn])
    P.discharge_generic(edges, items)
    sl = items.slicer(mn)
    div = [e for e in edges if not e.discharged and e.kind == "diverge"]
    rep.inst("C14.K-mesh", "Mesh::new has %d undischarged diverging edge(s) (the contract's own panic is one)" % len(div), config=cfg)
    for e in div[1:] if len(div) > 1 else []:
        rep.violate("C14.K-mesh", "K-mesh|attribution|%s" % e.what, e.where,
                    "Mesh::new has %d panic sites where its contract 'panics iff a face index >= verts.len()' accounts for one (%s at %s)" % (len(div), e.what, e.where), config=cfg)
    for e in edges:
        if e.discharged or e.kind == "diverge":
            continue
        t_ = e.node
        if e.kind == "std-cond" and "ops::index::Index" in e.what and t_.get("args"):
            ix = T.strip(sl.operand(t_["args"][1]), sites=True, refs=True)
            if T.contains(ix, lambda q: q[0] == "call" and q[1].split(" => ")[0].rsplit("::", 1)[-1] in ("position", "rposition", "enumerate")):
                continue
        rep.violate("C14.K-mesh", "K-mesh|attribution|%s" % e.what, e.where,
                    "Mesh::new has a panic edge (%s) that its contract 'panics iff a face index >= verts.len()' does not account for" % e.what, config=cfg)
    if pending_infra and not any(v.key.startswith("K-mesh|attribution") for v in rep.violations):
        raise common.Infra(pending_infra[0])


def _subst_params(t, args):
    if not isinstance(t, tuple):
        return t
    if t[0] == "param" and isinstance(t[1], int) and 1 <= t[1] <= len(args):
        return args[t[1] - 1]
    out = tuple(_subst_params(x, args) if isinstance(x, tuple) else x for x in t)
    # (Some{x} as Some).0  ->  x   (an Option argument built at the call site and matched in the checker)
    if out[0] == "field" and out[1][0] == "downcast" and out[1][1][0] == "agg" and out[1][1][1].endswith("::" + out[1][2]) and out[1][1][2]:
        return out[1][1][2][0]
    return out


def _checker_summary(prog, callee):
    """For a function returning Result: comparisons between values derived from its parameters such that EVERY return of an Ok value
    is reachable only through one side of the comparison: [(op, lhs, rhs, passing_side)]."""
    sl = T.Slicer(callee)
    rets_ok = []
    for bi, si, st in callee.stmts():
        if st["k"] == "Assign" and st["lhs"]["l"] == 0 and not st["lhs"]["p"] and st["rv"]["k"] == "Aggregate" and st["rv"].get("variant") == "Ok":
            rets_ok.append(bi)
    if not rets_ok:
        return []
    out = []
    for sb, tr, fa in G.bool_edges(callee, sl, lambda d: d[0] == "bin" and d[1] in ("Ge", "Gt", "Lt", "Le")):
        d, neg = G.strip_not(sl.operand(callee.term(sb)["discr"]))
        a, b = T.strip(d[2], sites=False, refs=True), T.strip(d[3], sites=False, refs=True)
        if neg:
            tr, fa = fa, tr
        # every Ok return avoids the true side / the false side of this comparison?
        avoid_true = all(bi not in callee.reachable(dst, unwind=False) for (_s, dst, _l) in tr for bi in rets_ok)
        avoid_false = all(bi not in callee.reachable(dst, unwind=False) for (_s, dst, _l) in fa for bi in rets_ok)
        if avoid_true and not avoid_false:
            out.append((d[1], a, b, False))
        elif avoid_false and not avoid_true:
            out.append((d[1], a, b, True))
    return out


def check_config(rep, prog):
    cfg = prog.config
    roots = [prog.body(r) for r in ROOTS if r in prog.bodies]
    rep.floor("C14.roots.%s" % cfg, len(roots), 1, "parse_obj/read_obj entry points")
    seen, edges, generic, std_safe = P.inventory(prog, roots, stop=(MESH_NEW,))
    items = P.Items(prog)
    P.discharge_generic(edges, items)
    rep.count("bodies_analysed", len(seen))
    rep.count("panic_edges", len(edges))
    by_schema = {}
    mesh_fam = {b.path for b in prog.family(MESH_NEW)}
    contract_edges = [e for e in edges if e.body.path in mesh_fam]
    edges = [e for e in edges if e.body.path not in mesh_fam]
    rep.inst("C14.P-total", "%d panic edge(s) inside Mesh::new are handled by its contract (rule K-mesh), not individually" % len(contract_edges), config=cfg)
    for e in edges:
        path = CG.path_to(seen, e.body.path)
        if e.discharged:
            by_schema[e.discharged[0]] = by_schema.get(e.discharged[0], 0) + 1
            rep.inst("C14.P-total", "%s %s at %s discharged by %s: %s" % (e.kind, e.what[:60], e.where, e.discharged[0], e.discharged[1]), config=cfg)
        else:
            rep.inst("C14.P-total", "%s %s at %s UNDISCHARGED" % (e.kind, e.what[:60], e.where), config=cfg)
            rep.violate("C14.P-total", "P-total|%s" % e.key(), e.where,
                        "reachable panic edge (%s: %s) not excluded for arbitrary input; call path: %s"
                        % (e.kind, e.what, " ; ".join(path) or CG.short(e.body.path)), config=cfg, body=e.body.path)
    rep.extra.setdefault("discharged_by_schema", {})[cfg] = by_schema
    rep.extra.setdefault("generic_dispatch_assumed_total", {})[cfg] = generic
    rep.extra.setdefault("std_calls_classified_safe", {})[cfg] = len(std_safe)

    # ---- K-mesh
    mesh_new_contract(rep, prog, items)
    po = prog.body(ROOTS[0])
    sl = items.slicer(po)
    calls = [(bi, t) for bi, t in po.calls(lambda c: facts.callee_matches(c, "mesh::Mesh::<A, B>::new"))]
    rep.floor("C14.K-mesh.call", len(calls), 1, "call to Mesh::new in parse_obj")
    for bi, t in calls:
        faces_t = T.strip(sl.operand(t["args"][0]), sites=False, refs=True)
        verts_t = T.strip(sl.operand(t["args"][1]), sites=False, refs=True)

        def vec_source(x):
            """the Vec local an iterator chain drains: innermost into_iter argument"""
            c = [s for s in T.walk(x) if s[0] == "call" and "into_iter" in s[1]]
            return T.strip(c[-1][2][0], sites=False, refs=True) if c else x
        faces_v, verts_v = vec_source(faces_t), vec_source(verts_t)

        def is_len_of(x, v):
            return x[0] == "call" and x[1].split(" => ")[0].endswith("Vec::<T, A>::len") and T.strip(x[2][0], sites=False, refs=True) == v

        def is_maxpos(x):
            x = T.strip(x, refs=True)
            return x[0] == "field" and x[2] == "Indices.pos" or (x[0] == "phi" and any(is_maxpos(y) for y in x[2]))
        est = []
        for sb, tr, fa in G.bool_edges(po, sl, lambda d: d[0] == "bin" and d[1] in ("Ge", "Gt", "Lt", "Le")):
            d, _neg = G.strip_not(sl.operand(po.term(sb)["discr"]))
            a, b = T.strip(d[2], sites=True), T.strip(d[3], sites=True)
            if d[1] == "Ge" and is_maxpos(d[2]) and is_len_of(T.strip(d[3], sites=False), verts_v):
                est += fa          # !(max >= len)
            elif d[1] == "Lt" and is_maxpos(d[2]) and is_len_of(T.strip(d[3], sites=False), verts_v):
                est += tr
            elif d[1] == "Gt" and is_len_of(T.strip(d[2], sites=False), verts_v) and is_maxpos(d[3]):
                est += tr          # len > max
            elif d[1] == "Le" and is_len_of(T.strip(d[2], sites=False), verts_v) and is_maxpos(d[3]):
                est += fa
        # a local checker `check(.., Some(max_pos), verts.len())?`: the Continue edge of its `?` establishes what every Ok-return of the
        # checker is guarded by (its summary), with the parameters replaced by the arguments
        for cb_i, ct in po.calls():
            cname = (ct["callee"].get("res") or {}).get("path") or ct["callee"]["path"]
            callee = prog.lookup(cname)
            if callee is None or callee.kind not in ("Fn", "AssocFn") or callee.file != po.file or "mesh::" in cname:
                continue
            for (op, li, ri, passing) in _checker_summary(prog, callee):
                args = [T.strip(sl.operand(a_), sites=False, refs=True) for a_ in ct["args"]]
                la, ra = _subst_params(li, args), _subst_params(ri, args)
                ok_cmp = (op in ("Ge", "Gt") and passing is False and is_maxpos(la) and is_len_of(ra, verts_v)) or \
                         (op in ("Lt", "Le") and passing is True and is_maxpos(la) and is_len_of(ra, verts_v))
                if not ok_cmp:
                    continue
                # the `?` consuming this call's result
                CF = "core::ops::control_flow::ControlFlow"
                cont = G.variant_edges(prog, po, sl, lambda p_, site=(po.path, cb_i): T.contains(p_, lambda q: q[0] == "call" and len(q) > 3 and q[3] == site), CF, "Continue")
                est += cont
        for sb, tr, fa in G.bool_edges(po, sl, lambda d: d[0] == "call" and d[1].split(" => ")[0].endswith("Vec::<T, A>::is_empty")
                                       and T.strip(d[2][0], sites=False, refs=True) == faces_v):
            est += tr              # no faces at all
        established = bool(est) and G.guarded_by(po, bi, est)
        rep.inst("C14.K-mesh", "call Mesh::new(faces<-%s, verts<-%s): every path passes `max_pos < verts.len()` or `faces.is_empty()`: %s (%d establishing edges)"
                 % (T.show(faces_v)[:40], T.show(verts_v)[:40], established, len(est)), config=cfg)
        if not established:
            # name the escaping path
            r = po.reachable(0, removed_edges=set(est))
            rep.violate("C14.K-mesh", "K-mesh|precondition", po.where(bi, None),
                        "a path reaches Mesh::new without having checked the largest face index against verts.len() "
                        "(nor that there are no faces): Mesh::new's index assertion can fire", config=cfg)
        # (c) running maximum
        pushes = [(pb, pt) for pb, pt in po.calls(lambda c: facts.callee_matches(c, "Vec::<T, A>::push"))
                  if T.strip(sl.operand(pt["args"][0]), sites=False, refs=True) == faces_v]
        rep.floor("C14.K-mesh.push", len(pushes), 1, "faces.push(..) site")
        upd = []
        for ub, us, s in po.stmts():
            if s["k"] == "Assign":
                pl = s["lhs"]["p"]
                if pl and isinstance(pl[-1], dict) and pl[-1].get("n") == "pos" and pl[-1].get("of", "").endswith("io::Indices"):
                    upd.append((ub, us, s, sl.rvalue(s["rv"], 0, ())))
        for pb, pt in pushes:
            tri = T.strip(sl.operand(pt["args"][1]), sites=False, refs=True)
            ok = False
            for ub, us, s, v in upd:
                # value = max(old, elem.pos) with elem an item of tri.0
                if v[0] == "call" and v[1].split(" => ")[0].endswith("cmp::Ord::max"):
                    args = [T.strip(a, sites=False, refs=True) for a in v[2]]
                    elem = [a for a in args if a[0] == "field" and a[2] == "Indices.pos" and T.contains(a[1], lambda q: q[0] == "call" and "::next" in q[1])]
                    old = [a for a in args if is_maxpos(a) and a not in elem]
                    if elem and old:
                        src = [q for q in T.walk(elem[0]) if q[0] == "call" and "into_iter" in q[1]]
                        over_tri = bool(src) and T.strip(src[-1][2][0], sites=False, refs=True) == ("field", tri, "Tri.0")
                        # the push happens only after the loop over tri.0 has finished
                        heads = [hb for hb, ht in po.calls(lambda c: facts.callee_matches(c, "Iterator::next"))
                                 if T.contains(T.strip(sl.operand(ht["args"][0]), sites=False, refs=True), lambda q: q == src[-1])] if src else []
                        after = bool(heads) and all(po.dominates(h, pb) and pb not in po.natural_loop(h) for h in heads)
                        # ... and the update is executed on EVERY iteration of that loop
                        every = bool(heads)
                        for h in heads:
                            r = po.reachable_from_succs(h, removed_blocks={ub}, unwind=False)
                            body_blocks = po.natural_loop(h) - {h}
                            # leaving the head into the loop body and coming back without the update
                            for (dst, lab) in po.term_edges(h, unwind=False):
                                pass
                            succ_in_loop = [d for d in po.succs(h, unwind=False) if d in body_blocks]
                            for d0 in succ_in_loop:
                                # follow the Some edge (the next block switches on the discriminant)
                                rr = po.reachable(d0, removed_blocks={ub}, unwind=False)
                                if h in rr and ub != d0:
                                    # is the path back to the head inside the loop body (not via loop exit)?
                                    inner = po.reachable(d0, removed_blocks={ub} | (set(range(len(po.blocks))) - body_blocks - {h}), unwind=False)
                                    if h in inner:
                                        every = False
                        if over_tri and after and every:
                            ok = True
            if not ok:
                # the same thing written as a fold: max_i = tri.0.into_iter().fold(max_i, <component-wise max>)
                for fb_, ft_ in po.calls(lambda c: facts.callee_matches(c, "Iterator::fold")):
                    fargs = [T.strip(sl.operand(a_), sites=False, refs=True) for a_ in ft_["args"]]
                    src = [q for q in T.walk(fargs[0]) if q[0] == "call" and "into_iter" in q[1]]
                    over_tri = bool(src) and T.strip(src[-1][2][0], sites=False, refs=True) == ("field", tri, "Tri.0")
                    carried = T.contains(fargs[1], lambda q: q[0] == "phi") or T.contains(fargs[1], lambda q: q[0] == "agg" and q[1].endswith("Indices::Indices"))
                    fn = fargs[2]
                    fbody = prog.lookup(fn[1].split(" => ")[-1]) if fn[0] == "fnptr" else (prog.bodies.get(fn[1][8:]) if fn[0] == "agg" and fn[1].startswith("closure:") else None)
                    is_max = False
                    if fbody is not None:
                        off = 1 if fbody.kind == "Closure" else 0
                        rt_ = T.strip(T.Slicer(fbody).local(0), sites=True, refs=True)
                        for q in T.walk(rt_):
                            if q[0] == "agg" and q[1].endswith("Indices::Indices") and q[2]:
                                p0 = T.strip(q[2][0], sites=True, refs=True)
                                if p0[0] == "call" and p0[1].split(" => ")[0].endswith("cmp::Ord::max"):
                                    ops_ = {T.strip(x_, sites=True, refs=True) for x_ in p0[2]}
                                    is_max = ops_ == {("field", ("param", 1 + off), "Indices.pos"), ("field", ("param", 2 + off), "Indices.pos")}
                    dest_used = po.dominates(fb_, pb)
                    if over_tri and carried and is_max and dest_used:
                        ok = True
            rep.inst("C14.K-mesh", "faces.push(tri) at %s is preceded by `max_pos = max(max_pos, i.pos)` over all of tri.0: %s" % (po.where(pb, None), ok), config=cfg)
            if not ok:
                rep.violate("C14.K-mesh", "K-mesh|running-max", po.where(pb, None),
                            "a face is stored without its position indices having been folded into the running maximum that is later checked", config=cfg)

    # ---- B-build
    rt = sl.local(0)
    oks = [s for s in T.walk(rt) if s[0] == "agg" and s[1].endswith("Result::Ok")]
    ok_b = bool(oks) and all(x[2][0][0] == "call" and "into_builder" in x[2][0][1] and T.calls_in(x[2][0], "Mesh::<A, B>::new") for x in oks)
    rep.inst("C14.B-build", "every Ok(..) returned by parse_obj is Mesh::new(..).into_builder(): %s" % ok_b, config=cfg)
    if not ok_b:
        rep.violate("C14.B-build", "B-build", po.where(), "parse_obj can return Ok(builder) that did not come from Mesh::new validation", config=cfg)


def index_order_rule(rep, prog):
    """F-order: in parse_indices the k-th '/'-separated field feeds pos (k=1), uv (k=2), n (k=3)."""
    cfg = prog.config
    b = prog.body("retrofire_geom::io::parse_indices")
    sl = T.Slicer(b)
    nexts = [bi for bi, t in b.calls(lambda c: facts.callee_matches(c, "str::iter::Split", "geom::io::next") and (c["path"].endswith("::next") or "::next" in (c.get("res") or {}).get("path", "")))]
    nexts.sort(key=lambda x: sum(1 for y in nexts if y != x and b.dominates(y, x)))
    rank = {bi: i for i, bi in enumerate(nexts)}
    rep.floor("C14.F-order.nexts", len(nexts), 3, "field extractions in parse_indices")
    aggs = [(bi, si, st) for bi, si, st in b.stmts() if st["k"] == "Assign" and st["rv"]["k"] == "Aggregate" and st["rv"].get("adt", "").endswith("io::Indices")]
    rep.floor("C14.F-order.agg", len(aggs), 1, "Indices{..} construction")
    want = {"pos": 0, "uv": 1, "n": 2}
    for bi, si, st in aggs:
        ops = dict(zip(st["rv"]["fields"], [sl.operand(o) for o in st["rv"]["ops"]]))
        got = {}
        for f, t in ops.items():
            sites = set()
            for q in T.walk(t):
                if q[0] == "call" and q[1].split(" => ")[0].endswith("io::parse_index"):
                    for r in T.walk(q[2][0]):
                        if r[0] == "call" and len(r) > 3 and r[3][1] in rank and r[3][0] == b.path:
                            sites.add(rank[r[3][1]])
                if q[0] == "call" and any(x[0] == "fnptr" and "io::parse_index" in x[1] for x in q[2]):      # and_then / map / map_or .. (parse_index)
                    for r in T.walk(q[2][0]):
                        if r[0] == "call" and len(r) > 3 and r[3][1] in rank and r[3][0] == b.path:
                            sites.add(rank[r[3][1]])
            got[f] = sorted(sites)
        ok = all(got.get(f) == [k] for f, k in want.items())
        rep.inst("C14.F-order", "Indices{pos, uv, n} are parsed from '/'-fields number %s (expected pos<-1st, uv<-2nd, n<-3rd): %s" % ({f: [x + 1 for x in v] for f, v in got.items()}, ok), config=cfg)
        if not ok:
            rep.violate("C14.F-order", "F-order", b.where(bi, si),
                        "the position/texcoord/normal indices are not taken from the 1st/2nd/3rd '/'-separated field respectively (%s)" % got, config=cfg)


def check(rep, args):
    configs = ["ws"] if rep.tier == "quick" else ["ws", "std"]
    rep.configs = configs
    for cfg in configs:
        rep.guard(check_config, rep, facts.program(cfg))
        rep.guard(index_order_rule, rep, facts.program(cfg))
    cov = {
        "explanation": "exhaustive panic-edge enumeration over the call graph below parse_obj/read_obj with schema-based discharge, "
                       "plus the Mesh::new callee contract (attribution, precondition on every path, running-maximum invariant)",
        "evaluations": len(rep.instances),
        "distinct_nontrivial": len({i["what"] for i in rep.instances}),
        "rules": ["P-total", "K-mesh", "B-build", "F-order"],
    }
    return "other", cov, [
        "allocation failure and stack overflow are out of scope",
        "methods of the caller's `impl IntoIterator<Item = u8>` / `impl Read` do not panic (generic dispatch)",
        "std APIs outside the COND table do not panic (table in sa/panics.py)",
        "tokens of split_ascii_whitespace are non-empty; str::parse never panics"]
