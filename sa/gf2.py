"""Engine L — GF(2)-linear abstract interpretation and the algebra on the result.

A 64-bit value is abstracted to 64 row masks: bit i of the value is the XOR of
the input-state bits selected by mask rows[i]. Only operations that are linear
over GF(2) have a transfer function (xor, shift by a constant, copies); anything
else leaves the fragment and is reported with the offending statement.
"""

N = 64
IDENT = [1 << i for i in range(N)]
ZERO = [0] * N
FULL = (1 << 64) - 1


class NotLinear(Exception):
    def __init__(self, msg, where=None):
        Exception.__init__(self, msg)
        self.where = where


def m_xor(a, b):
    return [x ^ y for x, y in zip(a, b)]


def m_shl(a, k):
    # result bit i = input bit i-k
    return [a[i - k] if i - k >= 0 else 0 for i in range(N)]


def m_shr(a, k):
    return [a[i + k] if i + k < N else 0 for i in range(N)]


def m_mul(a, b):
    """Matrix of (apply b, then a)."""
    out = []
    for i in range(N):
        row = a[i]
        acc = 0
        j = 0
        while row:
            if row & 1:
                acc ^= b[j]
            row >>= 1
            j += 1
        out.append(acc)
    return out


def m_pow(a, e):
    r = list(IDENT)
    base = list(a)
    while e:
        if e & 1:
            r = m_mul(r, base)
        base = m_mul(base, base)
        e >>= 1
    return r


def m_rank(a):
    rows = list(a)
    rank = 0
    for bit in range(N):
        piv = None
        for i in range(rank, N):
            if (rows[i] >> bit) & 1:
                piv = i
                break
        if piv is None:
            continue
        rows[rank], rows[piv] = rows[piv], rows[rank]
        for i in range(N):
            if i != rank and (rows[i] >> bit) & 1:
                rows[i] ^= rows[rank]
        rank += 1
    return rank


def m_apply(a, x):
    """Apply matrix to concrete 64-bit vector x (used only for Krylov sequences)."""
    y = 0
    for i in range(N):
        if bin(a[i] & x).count("1") & 1:
            y |= 1 << i
    return y


# ---------------------------------------------------------------- polynomials over GF(2) as ints

def p_deg(f):
    return f.bit_length() - 1


def p_mod(a, f):
    df = p_deg(f)
    while a and p_deg(a) >= df:
        a ^= f << (p_deg(a) - df)
    return a


def p_mulmod(a, b, f):
    r = 0
    while b:
        if b & 1:
            r ^= a
        b >>= 1
        a <<= 1
        if p_deg(a) >= p_deg(f):
            a ^= f
    return p_mod(r, f)


def p_powmod(a, e, f):
    r = 1
    a = p_mod(a, f)
    while e:
        if e & 1:
            r = p_mulmod(r, a, f)
        a = p_mulmod(a, a, f)
        e >>= 1
    return r


def p_gcd(a, b):
    while b:
        a, b = b, p_mod(a, b)
    return a


def berlekamp_massey(bits):
    """Minimal LFSR connection polynomial of a bit sequence; returns (poly int, L)."""
    n = len(bits)
    c = [0] * (n + 1)
    b = [0] * (n + 1)
    c[0] = b[0] = 1
    L, m = 0, -1
    for i in range(n):
        d = bits[i]
        for j in range(1, L + 1):
            d ^= c[j] & bits[i - j]
        if d:
            t = list(c)
            for j in range(0, n - (i - m) + 1):
                c[j + (i - m)] ^= b[j]
            if 2 * L <= i:
                L = i + 1 - L
                m = i
                b = t
    # connection polynomial C(x) = sum c_j x^j ; characteristic (reciprocal) polynomial:
    poly = 0
    for j in range(L + 1):
        if c[j]:
            poly |= 1 << (L - j)
    return poly, L


def is_prime(n):
    """Deterministic Miller-Rabin for n < 3.3e24."""
    if n < 2:
        return False
    small = [2, 3, 5, 7, 11, 13, 17, 19, 23, 29, 31, 37]
    for p in small:
        if n % p == 0:
            return n == p
    d, s = n - 1, 0
    while d % 2 == 0:
        d //= 2
        s += 1
    for a in small:
        x = pow(a, d, n)
        if x in (1, n - 1):
            continue
        for _ in range(s - 1):
            x = x * x % n
            if x == n - 1:
                break
        else:
            return False
    return True


FACTORS_2_64_M1 = [3, 5, 17, 257, 641, 65537, 6700417]


def mult_order(a, n):
    k, x = 1, a % n
    while x != 1:
        x = x * a % n
        k += 1
    return k
