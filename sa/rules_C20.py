"""C20 — float helper back-ends: the EXACT and STRUCTURAL clauses only.
(Accuracy of the approximate functions against std over all inputs is numeric and NOT decided.)

Decides, per feature configuration (none = built-in fallback, libm, mm, std):
  F1  floor is the exact floor: the repository's own implementation (fallback::floor) is
      interpreted over the five classes of its argument (sign x integrality, -0.0) relative to
      floor(x) and must give offset 0 on each (|x| < 2^63); the other back-ends' `floor`
      resolves to a function called floor/floorf of that back-end
  F2  fallback::abs returns the argument's magnitude bits under a clear sign bit (bit-pattern interpretation per sign of x)
  F3  fallback::rem_euclid(x, m) (also used by the libm back-end) is r + j*m with r = x % m and
      j = 1 exactly when x is negative (sign bit): the result lies in [0, m] and is congruent
      to x, for m > 0, by a case split on the sign class of x
  F4  refinement steps are Newton's iteration for the right function (polynomial identities):
      mm::sqrt = (y + x/y)/2 with y = micromath sqrt(x); mm::recip_sqrt and fallback::recip_sqrt
      = y(3 - x y^2)/2 with y the initial estimate; std/libm recip_sqrt = powf(x, -0.5)
  F5  every wrapper of the micromath back-end delegates to the like-named micromath function
      with its arguments in order; what Angle::sin/cos/tan, asin/acos/atan2, Vector::len (sqrt)
      call in each configuration is the like-named function of that configuration's back-end
  F6  profile independence: the value every float helper returns is the same expression with
      and without debug assertions (facts dumped a second time with -C debug-assertions=off);
      a helper whose result depends on cfg(debug_assertions) behaves differently in release
      builds than in the builds the tests run in
  F7  pixel rounding: raster::round_up_to_half is floor(x + 0.5) + 0.5 in every configuration
      (class analysis of its integral part)
Leaves: error bounds of sqrt/recip_sqrt/powf/exp/trigonometric approximations; |x| >= 2^63 for
the fallback floor; m <= 0 for rem_euclid.
"""
from fractions import Fraction

from . import facts, common, term as T, poly as P
from .rules_C12 import floor_offset, COORD_CLASSES

FL = "retrofire_core::math::float::"


def ret_term(b):
    return T.strip(T.Slicer(b).local(0), sites=True, refs=True)


def last_seg(path):
    return path.split(" => ")[-1].rsplit("::", 1)[-1]


def strip_profile(t):
    """Terms are compared across profiles: overflow-checked arithmetic `(a op b).0` (debug) and plain `a op b`
    (release) denote the same value whenever the debug build does not panic."""
    if not isinstance(t, tuple):
        return t
    if t[0] == "field" and isinstance(t[1], tuple) and t[1][0] == "bin" and t[1][1].endswith("WithOverflow") and str(t[2]).endswith("0"):
        inner = t[1]
        return strip_profile(("bin", inner[1].replace("WithOverflow", "")) + tuple(inner[2:]))
    return tuple(strip_profile(x) if isinstance(x, tuple) else x for x in t)


def const_u32(t):
    t = T.strip(t, sites=True, refs=True)
    if t[0] == "const":
        return int(t[2]) & 0xFFFFFFFF
    if t[0] in ("un", "unop") and t[1] == "Not":
        v = const_u32(t[2])
        return None if v is None else (~v) & 0xFFFFFFFF
    return None


class _NoBits(Exception):
    pass


def _bv(v, sign):
    """value -> 32 bit entries (bit 0 first): 0 | 1 | ("x", i) | ("nx", i) - bit i of the argument X (resp. its complement); X's own
    sign bit is the scenario's constant. Float values stand for their bit patterns."""
    import struct
    from . import absint as A
    if isinstance(v, bool):
        v = int(v)
    if isinstance(v, int):
        return [(v >> i) & 1 for i in range(32)]
    if not isinstance(v, tuple):
        raise _NoBits(repr(v)[:60])
    if v[0] == "f":
        w = struct.unpack("<I", struct.pack("<f", v[1]))[0]
        return [(w >> i) & 1 for i in range(32)]
    if v == ("sym", "X"):
        return [("x", i) for i in range(31)] + [sign]
    if v[0] != "symop":
        raise _NoBits(repr(v)[:60])
    op = v[1]

    def flip(e):
        return 1 - e if isinstance(e, int) else (("nx" if e[0] == "x" else "x"), e[1])

    def both(f):
        x, y = _bv(v[2], sign), _bv(v[3], sign)
        return [f(p, q) for p, q in zip(x, y)]

    def band(p, q):
        if p == 0 or q == 0:
            return 0
        if p == 1:
            return q
        if q == 1:
            return p
        if p == q:
            return p
        if p == flip(q):
            return 0
        raise _NoBits("and of unrelated bits")

    def bxor(p, q):
        if isinstance(q, int):
            return flip(p) if q else p
        if isinstance(p, int):
            return flip(q) if p else q
        if p == q:
            return 0
        if p == flip(q):
            return 1
        raise _NoBits("xor of unrelated bits")
    if op in ("bits", "fbits") or op.startswith("cast:u32") or op.startswith("cast:i32"):
        return _bv(v[2], sign)
    if op in ("Neg", "fneg"):
        x = _bv(v[2], sign)
        return x[:31] + [flip(x[31])]
    if op == "fabs":
        return _bv(v[2], sign)[:31] + [0]
    if op == "copysign":
        return _bv(v[2], sign)[:31] + [_bv(v[3], sign)[31]]
    if op == "BitAnd":
        return both(band)
    if op == "BitOr":
        return both(lambda p, q: flip(band(flip(p), flip(q))))
    if op == "BitXor":
        return both(bxor)
    if op == "BitNot":
        return [flip(e) for e in _bv(v[2], sign)]
    if op in ("Shl", "Shr"):
        n = v[3]
        if not isinstance(n, int) or not 0 <= n < 32:
            raise _NoBits("shift by %r" % (n,))
        x = _bv(v[2], sign)
        return ([0] * n + x[:32 - n]) if op == "Shl" else (x[n:] + [0] * n)
    if op in ("Mul", "Sub", "fmax", "fmin"):
        l, r = v[2], v[3]
        if op == "Mul":
            for c, o in ((l, r), (r, l)):
                if c == ("f", 1.0):
                    return _bv(o, sign)
                if c == ("f", -1.0):
                    x = _bv(o, sign)
                    return x[:31] + [flip(x[31])]
        if op == "Sub" and l in (("f", 0.0), ("f", -0.0)):       # 0 - x: exact negation of a non-zero x
            x = _bv(r, sign)
            return x[:31] + [flip(x[31])]
        if op in ("fmax", "fmin"):
            x, y = _bv(l, sign), _bv(r, sign)
            if x[:31] == y[:31] and isinstance(x[31], int) and isinstance(y[31], int):      # the same magnitude: the sign decides
                want = 0 if op == "fmax" else 1
                return x if x[31] == want else y
    raise _NoBits("%s on bit patterns" % op)


def _fsign(v, sign):
    """sign of a float value in the scenario (X non-zero with the given sign bit): -1 | 0 | 1 | None"""
    if isinstance(v, tuple) and v[0] == "f":
        return (v[1] > 0) - (v[1] < 0)
    try:
        x = _bv(v, sign)
    except _NoBits:
        return None
    if x[:31] == [("x", i) for i in range(31)] and isinstance(x[31], int):
        return -1 if x[31] else 1
    return None


def abs_rule(rep, prog):
    """F2: the built-in abs returns |x| for every non-zero finite x: interpreted once per sign of x with the argument's bit pattern as 31 symbolic
    magnitude bits and a constant sign bit; whatever it does (mask, shift pair, branch on the sign and negate, max(x, -x), copysign), the result's
    bit pattern must be the argument's magnitude bits under a clear sign bit. (+-0.0 and NaN are left alone: -0.0 == 0.0, NaN has no value.)"""
    from . import symalg as S, absint as A
    cfg = prog.config
    ab = prog.body(FL + "fallback::abs")
    got = {}
    for name, sign in (("x > 0", 0), ("x < 0", 1)):
        def orc(op, a_, b_, sign=sign):
            sa_, sb_ = _fsign(a_, sign), _fsign(b_, sign)
            fl = lambda t: isinstance(t, tuple) and (t[0] == "f" or t == ("sym", "X") or (t[0] == "symop" and t[1] in ("Neg", "fneg", "fabs", "fbits", "copysign", "Mul", "Sub", "fmax", "fmin")))  # noqa: E731
            if fl(a_) and fl(b_):
                if sa_ is None or sb_ is None or (sa_ == sb_ and sa_ != 0):
                    return None
                return {"Lt": sa_ < sb_, "Le": sa_ <= sb_, "Gt": sa_ > sb_, "Ge": sa_ >= sb_, "Eq": sa_ == sb_, "Ne": sa_ != sb_}.get(op)
            try:
                x, y = _bv(a_, sign), _bv(b_, sign)
            except _NoBits:
                return None
            if all(isinstance(e, int) for e in x + y):
                xi, yi = (sum(e << i for i, e in enumerate(z)) for z in (x, y))
                return {"Lt": xi < yi, "Le": xi <= yi, "Gt": xi > yi, "Ge": xi >= yi, "Eq": xi == yi, "Ne": xi != yi}.get(op)
            return None
        un = lambda nm: (lambda it_, a_, _c, _d: ("symop", nm, A.deref_all(it_, a_[0]), None))  # noqa: E731
        bi = lambda nm: (lambda it_, a_, _c, _d: ("symop", nm, A.deref_all(it_, a_[0]), A.deref_all(it_, a_[1])))  # noqa: E731
        it = S.interp(prog, models={"f32>::to_bits": un("bits"), "f32>::from_bits": un("fbits"), "f32>::abs": un("fabs"), "f32>::copysign": bi("copysign"),
                                    "f32>::max": bi("fmax"), "f32>::min": bi("fmin"),
                                    "f32>::is_sign_negative": lambda _it, _a, _c, _d, sign=sign: sign,
                                    "f32>::is_sign_positive": lambda _it, _a, _c, _d, sign=sign: 1 - sign}, oracle=orc)
        try:
            v = A.deref_all(it, it.call_body(ab, [S.sym("X")]))
            got[name] = _bv(v, sign)
        except (A.Undecided, A.Panic, _NoBits) as e:
            raise common.Infra("C20.F2: fallback::abs has a form the bit-pattern analysis cannot follow (%s, %s); rule needs re-confirmation" % (name, e))
    want = [("x", i) for i in range(31)] + [0]

    def show(x):
        keep = sum(1 for i, e in enumerate(x[:31]) if e == ("x", i))
        return "sign bit %s, %d of 31 magnitude bits kept" % (x[31] if isinstance(x[31], int) else "of x", keep)
    bad = {n: x for n, x in got.items() if x != want}
    rep.inst("C20.F2", "fallback::abs(x) has the bit pattern of x with the sign bit clear, for x > 0 and for x < 0 (31 symbolic magnitude bits): %s" % (not bad), config=cfg)
    if bad:
        rep.violate("C20.F2", "F2|fallback-abs", ab.where(), "the built-in abs does not return |x|: " + "; ".join("for %s: %s" % (n, show(x)) for n, x in bad.items()), config=cfg)



def _round_f32(fr):
    """the binary32 value nearest to the rational fr (ties to even); no double rounding"""
    import struct, math
    if fr == 0:
        return 0.0
    d = float(fr)
    try:
        c = struct.unpack("<f", struct.pack("<f", d))[0]
    except OverflowError:
        return math.copysign(float("inf"), d)
    if not math.isfinite(c):
        return c
    bits = struct.unpack("<I", struct.pack("<f", c))[0]
    cands = [c]
    for nb in (bits + 1, bits - 1):
        v = struct.unpack("<f", struct.pack("<I", nb & 0xFFFFFFFF))[0]
        if math.isfinite(v):
            cands.append(v)
    return min(cands, key=lambda v: (abs(Fraction(v) - fr), struct.unpack("<I", struct.pack("<f", v))[0] & 1))


F3_GRID_X = (5.5, 0.3, 7.0, 100.25, 1e9, 16777216.0, 1e20, 3.0e38)
F3_GRID_M = (3.0, 1.0, 0.1, 7.5, 7.0)


def _f3_witness(prog, rb):
    """constant folding of fallback::rem_euclid in exact binary32 arithmetic on F3_GRID (both signs of x). Returns (disagreements, n):
    a disagreement is a result that is not finite, outside [0, m], or further than m/1024 from the exact remainder modulo m (rounding-level differences are not counted)."""
    import math, struct
    from . import symalg as S, absint as A
    f32 = lambda v: struct.unpack("<f", struct.pack("<f", v))[0]
    bad, n = [], 0
    for x0 in F3_GRID_X:
        for sx in (1.0, -1.0):
            for m0 in F3_GRID_M:
                x, m = f32(sx * x0), f32(m0)
                neg = math.copysign(1.0, x) < 0
                bits = lambda it_, a_, _c, _d: struct.unpack("<I", struct.pack("<f", A.deref_all(it_, a_[0])[1]))[0]
                it = S.interp(prog, models={"f32>::is_sign_negative": lambda it_, a_, _c, _d: int(math.copysign(1.0, A.deref_all(it_, a_[0])[1]) < 0),
                                            "f32>::is_sign_positive": lambda it_, a_, _c, _d: int(math.copysign(1.0, A.deref_all(it_, a_[0])[1]) > 0),
                                            "f32>::to_bits": bits}, oracle=lambda op, a_, b_: None)
                plain, plain_rv = it.binop, it.rvalue

                def binop(op, a_, b_, ty, plain=plain):
                    base = op.replace("Unchecked", "")
                    if ty == "f32" and isinstance(a_, tuple) and a_[0] == "f" and isinstance(b_, tuple) and b_[0] == "f" \
                            and base in ("Add", "Sub", "Mul", "Div", "Rem") and math.isfinite(a_[1]) and math.isfinite(b_[1]):
                        p, q = Fraction(a_[1]), Fraction(b_[1])
                        if base in ("Div", "Rem") and q == 0:
                            raise A.Undecided("division by a zero constant")
                        if base == "Rem":
                            return ("f", math.fmod(a_[1], b_[1]))
                        r = {"Add": p + q, "Sub": p - q, "Mul": p * q, "Div": p / q if q else 0}[base]
                        if r == 0:
                            # the sign of an exact zero: +0 except for (-0)+(-0), (-0)-(+0) and products/quotients of unlike signs
                            fz = {"Add": lambda: a_[1] + b_[1], "Sub": lambda: a_[1] - b_[1], "Mul": lambda: a_[1] * b_[1],
                                  "Div": lambda: a_[1] / b_[1]}[base]()
                            return ("f", fz)
                        return ("f", _round_f32(r))
                    return plain(op, a_, b_, ty)

                def rvalue(fr, rv, lhs_ty=None, plain_rv=plain_rv, it=it):
                    if rv.get("k") == "Cast" and rv.get("ck") == "IntToFloat" and rv.get("to") == "f32":
                        v = it.operand(fr, rv["a"])
                        if isinstance(v, int):
                            fb = A.INT_BITS.get(rv["from"], 64)
                            if rv["from"].startswith("i") and (v >> (fb - 1)) & 1:
                                v -= 1 << fb
                            return ("f", _round_f32(Fraction(v)))
                    return plain_rv(fr, rv, lhs_ty)
                it.binop, it.rvalue = binop, rvalue
                try:
                    y = A.deref_all(it, it.call_body(rb, [("f", x), ("f", m)]))
                except (A.Undecided, A.Panic, S.NotPolynomial):
                    continue
                if not (isinstance(y, tuple) and y[0] == "f"):
                    continue
                n += 1
                y = y[1]
                r = math.fmod(x, m)
                s = r if r >= 0 and not (r == 0 and neg) else _round_f32(Fraction(r) + Fraction(m))
                ok = math.isfinite(y) and 0 <= y <= m and min(abs(y - s), abs(y - s - m), abs(y - s + m)) <= m / 1024.0
                if not ok:
                    bad.append((x, m, y, s))
    return bad, n


def fallback_rules(rep, prog):
    cfg = prog.config
    # ---- F1
    from . import floordom
    fb = prog.body(FL + "fallback::floor")
    bad = []
    for cls in COORD_CLASSES:
        # engine F: the function's MIR is interpreted with x = floor(x) + frac, branches followed per class
        r = floordom.evaluate(prog, fb, cls, domain_bits=63)
        if r[0] == "unknown":
            raise common.Infra("C20.F1: fallback::floor has a form the floor analysis cannot classify (%s)" % r[1])
        if r[0] == "bad":
            bad.append("%s: %s" % (cls, r[1]))
        elif r != ("off", 0):
            bad.append("%s -> floor %+d" % (cls, r[1]) if r[0] == "off" else "%s -> %r" % (cls, r))
    rep.inst("C20.F1", "fallback::floor relative to floor(x) on %d argument classes: %s" % (len(COORD_CLASSES), "exact" if not bad else "; ".join(bad)), config=cfg)
    if bad:
        rep.violate("C20.F1", "F1|fallback-floor", fb.where(), "the built-in floor is not the exact floor: " + "; ".join(bad), config=cfg)
    # ---- F2
    abs_rule(rep, prog)
    # ---- F3: interpreted once per sign of x, with `x % m` an opaque remainder R — however the sign is turned into the shift
    # (a cast of the flag, a match, an if)
    from . import symalg as S, absint as A
    rb = prog.body(FL + "fallback::rem_euclid")
    got = {}
    for neg in (False, True):
        it = S.interp(prog, models={"f32>::is_sign_negative": lambda _it, _a, _c, _d, neg=neg: int(neg),
                                    "f32>::is_sign_positive": lambda _it, _a, _c, _d, neg=neg: int(not neg),
                                    "f32>::to_bits": lambda it_, a_, _c, _d: ("symop", "bits", A.deref_all(it_, a_[0]), None)},
                      oracle=lambda op, a_, b_, neg=neg: _sign_oracle(op, a_, b_, neg))
        # the sign read off the bit pattern: to_bits(x) & 0x8000_0000 / to_bits(x) >> 31
        plain = it.binop

        def binop(op, a_, b_, ty, neg=neg, plain=plain):
            xb = ("symop", "bits", S.sym("X"), None)
            if op == "BitAnd" and ((a_ == xb and b_ == 0x80000000) or (b_ == xb and a_ == 0x80000000)):
                return 0x80000000 if neg else 0
            if op == "Shr" and a_ == xb and b_ == 31:
                return int(neg)
            return plain(op, a_, b_, ty)
        it.binop = binop
        try:
            v = A.deref_all(it, it.call_body(rb, [S.sym("X"), S.sym("M")]))
            got[neg] = S.to_poly(v)
        except (A.Undecided, A.Panic, S.NotPolynomial) as e:
            # not the exact form: before answering "cannot analyse", fold the function in exact binary32 arithmetic on a grid of
            # constant arguments; a result that is out of [0, m] or not congruent to x there is a counterexample, not a guess
            bad, n = _f3_witness(prog, rb)
            if bad:
                rep.inst("C20.F3", "fallback::rem_euclid is not of the form (x %% m) + [x negative]*m (%s); folded in binary32 on %d constant "
                                   "argument pairs: %d disagree with the exact remainder" % (e, n, len(bad)), config=cfg)
                rep.violate("C20.F3", "F3|fallback-rem", rb.where(),
                            "the built-in rem_euclid, folded in binary32 arithmetic, leaves [0, m] or is not congruent to x: %s"
                            % "; ".join("rem_euclid(%r, %r) = %r, exact %r" % b for b in bad[:4]), config=cfg)
                newton_recip(rep, prog, FL + "fallback::recip_sqrt", ("f32>::from_bits",))
                return
            raise common.Infra("C20.F3: fallback::rem_euclid has a form the rule cannot interpret (%s)" % e)
    R = "?%r" % (("symop", "Rem", S.sym("X"), S.sym("M")),)
    want = {False: {(R,): Fraction(1)}, True: {(R,): Fraction(1), ("M",): Fraction(1)}}
    ok = got == want
    rep.inst("C20.F3", "fallback::rem_euclid(x, m) = (x %% m) + [x negative]*m: %s  [x >= 0: %s; x < 0: %s]; hence in [0, m] and congruent to x for m > 0 "
                       "(x >= 0: r in [0, m), j = 0; x < 0 or -0.0: r in (-m, -0.0], j = 1)" % (ok, _show_poly(got[False]), _show_poly(got[True])), config=cfg)
    if not ok:
        rep.violate("C20.F3", "F3|fallback-rem", rb.where(),
                    "the built-in rem_euclid is not (x %% m) + [x negative]*m (x >= 0: %s; x < 0: %s): the result leaves [0, m] or is not congruent to x"
                    % (_show_poly(got[False]), _show_poly(got[True])), config=cfg)
    # ---- F4 (fallback recip_sqrt)
    newton_recip(rep, prog, FL + "fallback::recip_sqrt", ("f32>::from_bits",))


def pixel_rounding_rule(rep, prog):
    """F7: round_up_to_half(x) = floor(x + 0.5) + 0.5 in EVERY configuration ("pixel rounding behaves the same in
    no_std builds"): the integral part is interpreted over the classes of y = x + 0.5 relative to floor(y)."""
    cfg = prog.config
    b = prog.bodies.get("retrofire_core::render::raster::round_up_to_half")
    if b is None:
        # the helper has been inlined at its call sites: C04/C05's interpretation of scan()/next() accepts a rounding only in the literal
        # form floor(x + 0.5) + 0.5 (with the configuration's own floor, F1) and fails on anything else, so there is nothing left to decide here
        rep.inst("C20.F7", "no round_up_to_half function in this tree (inlined): every rounding site of the scan converter is checked in place by C04.J1/J2", config=cfg)
        rep.notes.append("F7: round_up_to_half is inlined; decided per rounding site by the C04/C05 interpretation (which canonicalises exactly floor(x + 0.5) + 0.5)")
        return
    rt = T.strip(ret_term(b), sites=True, refs=True)
    half = ("const", "f32", 0.5)
    ok_outer = rt[0] == "bin" and rt[1] == "Add" and half in (rt[2], rt[3])
    if not ok_outer:
        raise common.Infra("C20.F7: round_up_to_half is no longer `<integral part> + 0.5` (%s); rule needs re-confirmation" % T.show(rt)[:120])
    inner = rt[2] if rt[3] == half else rt[3]
    y = ("bin", "Add", ("param", 1), half, "f32")

    def mark(t):
        if not isinstance(t, tuple):
            return t
        tt = T.strip(t, refs=True, sites=True) if t[0] in ("ref", "deref") else t
        if tt[0] == "bin" and tt[1] == "Add" and {T.strip(tt[2], refs=True), T.strip(tt[3], refs=True)} == {("param", 1), half}:
            return ("call", "y::COORD", ())
        return tuple(mark(x) if isinstance(x, tuple) else x for x in t)
    marked = mark(inner)
    bad = []
    for cls in COORD_CLASSES:
        r = floor_offset(prog, marked, "::COORD", cls)
        if r[0] == "unknown":
            raise common.Infra("C20.F7: round_up_to_half has a form the floor analysis cannot classify (%s)" % r[1])
        if r[0] == "bad":
            bad.append("%s: %s" % (cls, r[1]))
        elif r != ("off", 0):
            bad.append("x + 0.5 a %s -> floor(x + 0.5) %+d" % (cls, r[1]))
    rep.inst("C20.F7", "round_up_to_half(x) = floor(x + 0.5) + 0.5 on every class of x + 0.5: %s  [%s]" % ("exact" if not bad else "; ".join(bad), T.show(rt)[:100]), config=cfg)
    if bad:
        rep.violate("C20.F7", "F7|round_up_to_half", b.where(),
                    "pixel rounding differs in this configuration: round_up_to_half is not floor(x + 0.5) + 0.5 (%s) — spans and scanlines starting left of / above -0.5 "
                    "are shifted by one pixel relative to the other back-ends" % "; ".join(bad), config=cfg)


def _mark_param(t):
    if not isinstance(t, tuple):
        return t
    if t == ("param", 1):
        return ("call", "x::COORD", ())
    return tuple(_mark_param(x) if isinstance(x, tuple) else x for x in t)


def _sign_oracle(op, a, b, neg):
    """comparisons of the symbolic argument X with zero, in the scenario `x negative` / `x non-negative`"""
    z = (0, ("f", 0.0), ("f", -0.0))
    for x, y, flip in ((a, b, False), (b, a, True)):
        if x == ("sym", "X") and y in z:
            res = {"Lt": neg, "Ge": not neg, "Le": None if not neg else True, "Gt": None if not neg else False, "Eq": None if not neg else False, "Ne": None if not neg else True}
            if flip:
                res = {"Gt": res["Lt"], "Le": res["Ge"], "Ge": res["Le"], "Lt": res["Gt"], "Eq": res["Eq"], "Ne": res["Ne"]}
            return res.get(op)
    return None


def _show_poly(p):
    return " + ".join("%s*%s" % (c, ".".join(x[:40] for x in m) or "1") for m, c in sorted(p.items())) or "0"


def newton_recip(rep, prog, path, estimate_models):
    """recip_sqrt = y(3 - x y^2)/2 on the estimate y: the function (and whatever helper holds the Newton step) is interpreted with the
    estimate an opaque symbol Y; the result must be that polynomial."""
    from . import symalg as S, absint as A
    cfg = prog.config
    b = prog.body(path)
    it = S.interp(prog, models={k: (lambda _it, _a, _c, _d: S.sym("Y")) for k in estimate_models})
    try:
        got = S.to_poly(A.deref_all(it, it.call_body(b, [S.sym("X")])))
    except (A.Undecided, A.Panic, S.NotPolynomial) as e:
        raise common.Infra("C20.F4: %s has a form the rule cannot interpret (%s)" % (path, e))
    want = {("Y",): Fraction(3, 2), ("X", "Y", "Y", "Y"): Fraction(-1, 2)}
    ok = got == want
    rep.inst("C20.F4", "%s = y(3 - x y^2)/2 (one Newton step for 1/sqrt x on the estimate y): %s" % (path.replace(FL, ""), ok), config=cfg)
    if not ok:
        if any(str(x).startswith("?") for m in got for x in m) or not any("Y" in m for m in got):
            raise common.Infra("C20.F4: %s has a form the rule cannot classify (%s)" % (path, _show_poly(got)))
        rep.violate("C20.F4", "F4|%s" % path.replace(FL, ""), b.where(),
                    "%s is not Newton's iteration y(3 - x y^2)/2 for the reciprocal square root (got %s)" % (path.replace(FL, ""), _show_poly(got)), config=cfg)


def mm_rules(rep, prog):
    cfg = prog.config
    names = ["abs", "floor", "rem_euclid", "powf", "sin", "cos", "tan", "asin", "acos", "atan2"]
    n = 0
    for nm in names:
        b = prog.body(FL + "mm::" + nm)
        rt = ret_term(b)
        # the delegated call (possibly one arm of a guard): every call leaf must be the like-named micromath function
        calls = [q for q in T.walk(rt) if q[0] == "call"]
        argc = b.d.get("argc", 1)
        ok = bool(calls)
        for c in calls:
            args = [T.strip(a, refs=True, sites=True) for a in c[2]]
            ok = ok and last_seg(c[1]) == nm and "micromath" in c[1] and args == [("param", i + 1) for i in range(argc)]
        n += 1
        rep.inst("C20.F5", "mm::%s delegates to micromath's %s with its arguments in order: %s" % (nm, nm, ok), config=cfg)
        if not ok:
            rep.violate("C20.F5", "F5|mm::%s" % nm, b.where(), "mm::%s does not delegate to micromath's %s(%s) (returns %s)"
                        % (nm, nm, ", ".join("arg%d" % (i + 1) for i in range(argc)), T.show(rt)[:160]), config=cfg)
    rep.floor("C20.F5.mm", n, 10, "micromath wrappers")
    # sqrt: one Newton step on micromath's sqrt
    b = prog.body(FL + "mm::sqrt")
    rt = T.strip(ret_term(b), sites=True, refs=True, casts=True)
    est = lambda t: t[0] == "call" and last_seg(t[1]) == "sqrt" and "micromath" in t[1]  # noqa: E731
    # 0.5 * (y + x / y): not a polynomial in y; multiply through: compare 2*y*result with y^2 + x
    got = P.poly(("bin", "Mul", ("bin", "Mul", ("const", "f32", 2.0), ("atom", "Y")), _sub_atom(rt, est), "f32"),
                 [(lambda t: t == ("atom", "Y"), "Y"), (lambda t: t == ("param", 1), "X"),
                  (lambda t: t[0] == "bin" and t[1] == "Div" and t[2] == ("param", 1) and t[3] == ("atom", "Y"), "XoverY")])
    want = {("Y", "Y"): 1, ("XoverY", "Y"): 1}
    ok = {k: Fraction(v) for k, v in got.items()} == {k: Fraction(v) for k, v in want.items()}
    rep.inst("C20.F4", "mm::sqrt = (y + x/y)/2 (one Newton step for sqrt x on micromath's estimate): %s" % ok, config=cfg)
    if not ok:
        if any(str(x).startswith("?") for m in got for x in m):
            raise common.Infra("C20.F4: mm::sqrt has a form the rule cannot classify (%s)" % (got,))
        rep.violate("C20.F4", "F4|mm::sqrt", b.where(), "mm::sqrt is not Newton's iteration (y + x/y)/2 on micromath's square root (2y*result = %s)" % got, config=cfg)
    newton_recip(rep, prog, FL + "mm::recip_sqrt", ("F32Ext::invsqrt", "F32::invsqrt", "::invsqrt"))


def _sub_atom(t, pred):
    if not isinstance(t, tuple):
        return t
    if pred(t):
        return ("atom", "Y")
    return tuple(_sub_atom(x, pred) if isinstance(x, tuple) else x for x in t)


def powf_rules(rep, prog, which):
    """std / libm: recip_sqrt(x) = powf(x, -0.5)"""
    cfg = prog.config
    cands = [b for p, b in prog.bodies.items() if p.endswith("recip_sqrt") and "math::float" in p and ("RecipSqrt" in p if which == "std" else "::libm::" in p)]
    if not cands:
        rep.notes.append("C20.F4: the %s back-end has no recip_sqrt body of its own in this tree (F5|normalize decides what normalisation really calls)" % which)
        rep.inst("C20.F4", "%s recip_sqrt: no own body (see F5 normalize)" % which, config=cfg)
    for b in cands:
        rt = ret_term(b)
        ok = rt[0] == "call" and last_seg(rt[1]) == "powf" and T.strip(rt[2][0], refs=True) == ("param", 1) and T.strip(rt[2][1], refs=True) == ("const", "f32", -0.5)
        rep.inst("C20.F4", "%s recip_sqrt(x) = powf(x, -0.5): %s" % (which, ok), config=cfg)
        if not ok:
            rep.violate("C20.F4", "F4|%s-recip_sqrt" % which, b.where(), "%s recip_sqrt is not powf(x, -0.5) (%s)" % (which, T.show(rt)[:120]), config=cfg)


# API function -> name stem its back-end call must carry, per configuration
CALLERS = [
    ("retrofire_core::math::angle::Angle::sin", ("sin",)), ("retrofire_core::math::angle::Angle::cos", ("cos",)),
    ("retrofire_core::math::angle::Angle::tan", ("tan",)),
    ("retrofire_core::math::angle::asin", ("asin",)), ("retrofire_core::math::angle::acos", ("acos",)),
    ("retrofire_core::math::angle::atan2", ("atan2",)),
]
BACKEND = {"ws": ("std::f32", "core::f32"), "std": ("std::f32", "core::f32"), "libm": ("libm::",), "mm": ("math::float::mm::",)}


def caller_rules(rep, prog):
    cfg = prog.config
    if "fp" not in prog.features:
        return
    n = 0
    for path, stems in CALLERS:
        b = prog.bodies.get(path)
        if b is None:
            continue
        calls = [t for _bi, t in b.calls() if (t.get("callee") or {}).get("path")]
        fl = []
        for t in calls:
            c = t["callee"]
            name = ((c.get("res") or {}).get("path") or c["path"])
            if any(k in name for k in ("f32", "libm", "micromath", "math::float")):
                fl.append(name)
        n += 1
        ok = len(fl) >= 1 and all(last_seg(x).rstrip("f") in stems or last_seg(x) in stems for x in fl) and all(any(k in x for k in BACKEND[cfg]) for x in fl)
        rep.inst("C20.F5", "%s calls %s (expected a %s of back-end %s): %s" % (path.rsplit("::", 2)[-2] + "::" + path.rsplit("::", 1)[-1], fl, "/".join(stems), BACKEND[cfg][0], ok), config=cfg)
        KNOWN = {"sin", "cos", "tan", "asin", "acos", "atan", "atan2", "sqrt", "floor", "abs", "exp", "powf", "log2", "rem_euclid", "recip_sqrt", "invsqrt"}
        wrong_fn = [x for x in fl if (last_seg(x).rstrip("f") in KNOWN or last_seg(x) in KNOWN) and not (last_seg(x).rstrip("f") in stems or last_seg(x) in stems)]
        wrong_backend = [x for x in fl if not any(k in x for k in BACKEND[cfg])]
        if not ok and not wrong_fn and not wrong_backend:
            raise common.Infra("C20.F5: %s reaches the float back-end through %s, which the delegation table does not know; classify it" % (path, fl))
        if not ok:
            rep.violate("C20.F5", "F5|%s" % path.rsplit("math::", 1)[-1], b.where(),
                        "%s does not call the %s function of the configured float back-end (calls %s)" % (path, "/".join(stems), fl), config=cfg)
    rep.floor("C20.F5.callers.%s" % cfg, n, 6, "angle API functions that reach the float back-end")
    # normalisation: Vector::normalize must use the reciprocal square root of the CONFIGURED back-end (the fast fallback estimate has a
    # relative error of about 2e-3, three orders above what unit vectors are compared with)
    nb = [b for p_, b in prog.bodies.items() if p_.startswith("retrofire_core::math::vec::Vector::<") and p_.endswith("::normalize")]
    rep.floor("C20.F5.normalize.%s" % cfg, len(nb), 1, "Vector::normalize")
    want = {"ws": ("RecipSqrt", "powf"), "std": ("RecipSqrt", "powf"), "libm": ("float::libm::recip_sqrt",), "mm": ("float::mm::recip_sqrt",)}[cfg]
    for b in nb:
        rs = [((t["callee"].get("res") or {}).get("path") or t["callee"]["path"]) for _bi, t in b.calls() if t.get("callee") and "recip_sqrt" in t["callee"]["path"]]
        ok = len(rs) >= 1 and all(any(w in x for w in want) for x in rs)
        rep.inst("C20.F5", "Vector::normalize calls %s (expected the %s back-end's recip_sqrt): %s" % (rs, cfg, ok), config=cfg)
        if not ok:
            rep.violate("C20.F5", "F5|normalize", b.where(), "Vector::normalize does not use the reciprocal square root of the configured float back-end (calls %s; expected one of %s): "
                        "normalised vectors miss unit length by the error of the substituted approximation" % (rs, list(want)), config=cfg)


def profile_rule(rep, cfg):
    """F6: same returned expression with and without debug assertions."""
    dbg, rel = facts.program(cfg), facts.program(cfg + "-rel")
    n = 0
    for p, b in sorted(dbg.bodies.items()):
        if not p.startswith(FL) or b.kind not in ("Fn", "AssocFn") or "::tests::" in p:
            continue
        rb = rel.bodies.get(p)
        if rb is None:
            rep.violate("C20.F6", "F6|missing|%s" % p.replace(FL, ""), b.where(), "%s exists only when debug assertions are on" % p, config=cfg)
            continue
        n += 1
        td, tr = strip_profile(ret_term(b)), strip_profile(ret_term(rb))
        same = td == tr
        rep.inst("C20.F6", "%s returns the same expression with and without debug assertions: %s" % (p.replace(FL, ""), same), config=cfg)
        if not same:
            rep.violate("C20.F6", "F6|%s" % p.replace(FL, ""), b.where(),
                        "%s computes a different value depending on cfg(debug_assertions): with them %s, without them %s — release builds do not behave like the builds the tests run in"
                        % (p.replace(FL, ""), T.show(td)[:160], T.show(tr)[:160]), config=cfg)
    rep.floor("C20.F6.%s" % cfg, n, 3, "float helper functions compared across profiles")


def check(rep, args):
    configs = ["none", "libm", "mm", "ws"] if rep.tier == "quick" else ["none", "libm", "mm", "std", "ws"]
    rep.configs = configs
    for cfg in configs:
        prog = facts.program(cfg)
        rep.guard(fallback_rules, rep, prog)              # the fallback module is compiled in every configuration
        rep.guard(pixel_rounding_rule, rep, prog)
        if cfg in ("mm", "ws"):
            rep.guard(mm_rules, rep, prog)
        if cfg in ("libm",):
            rep.guard(powf_rules, rep, prog, "libm")
        if cfg in ("std", "ws"):
            rep.guard(powf_rules, rep, prog, "std")
        if cfg != "none":
            rep.guard(caller_rules, rep, prog)
    for cfg in (["mm", "none"] if rep.tier == "quick" else ["mm", "none", "libm", "std"]):
        rep.guard(profile_rule, rep, cfg)
    cov = {
        "explanation": "finite-domain interpretation of the built-in floor over argument classes; bit-mask and sign-class rules for abs/rem_euclid; "
                       "polynomial identities for the Newton refinement steps; name/argument agreement of every back-end delegation; "
                       "return-expression comparison between debug and release MIR of every float helper",
        "evaluations": len(rep.instances),
        "distinct_nontrivial": len({i["what"] for i in rep.instances}),
        "rules": ["F1", "F2", "F3", "F4", "F5", "F6", "F7"],
    }
    return "other", cov, ["accuracy of sqrt/recip_sqrt/powf/exp/trigonometric approximations against std is numeric and not decided",
                          "libm's and micromath's own floor/abs/rem_euclid are trusted; fallback floor for |x| < 2^63; rem_euclid for m > 0",
                          "x % m has the sign of x and magnitude below |m| (IEEE remainder semantics of the `%` operator)"]
