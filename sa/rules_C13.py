"""C13 — PNM codec: total decoding (and the structural half of the round trip).

Decides (engines P, T, D):
  P-total  every panic edge in the call graph below parse_pnm / read_pnm is
           discharged by a generic schema (constants; integer ranges with closure
           parameters bound to the items of the iterator chain they are handed
           to; dominating comparisons) or lies inside Buf2::new_from and is
           covered by its contract
  K-buf    contract of Buf2::new_from((w, h), it): "panics iff w*h is not
           representable (isize, and u32 index arithmetic in Inner::new) or `it`
           yields fewer than w*h items". (a) attribution: the panic edges of
           new_from + Inner::new are exactly the documented set; (b) the call
           site in parse_pnm establishes on every path: the pixel count is the
           checked (non-overflowing) product of the two header dimensions, and
           data.len() >= that count; (c) the dims handed over are the header's
  T-format every format the header parser accepts has a decoding arm, the
           discriminants are the big-endian magics "P1".."P6" (so Display prints
           the digit), the format write_ppm emits is one parse_pnm decodes, and
           `max` is read for exactly the formats for which it is written
Leaves: round-trip equality and text/binary agreement (pixel values).
"""
from . import facts, guards as G, term as T, common, panics as P, callgraph as CG, absint as A

ROOTS = ["retrofire_core::util::pnm::parse_pnm", "retrofire_core::util::pnm::read_pnm"]
NEW_FROM = "retrofire_core::util::buf::Buf2::<T>::new_from"
INNER_NEW = "retrofire_core::util::buf::inner::Inner::<T, D>::new"
FORMAT = "retrofire_core::util::pnm::Format"

# documented panic edges of the contract callee (kind, what) -> count
DOCUMENTED = {
    NEW_FROM: {("diverge", "panic_fmt"): 1, ("diverge", "assert_failed"): 1},
}


def inner_new_under_contract(rep, prog, items):
    """Every panic edge of Inner::new is refuted under the facts Buf2::new_from establishes
    (stride = w, data.len() = w*h, w*h <= u32::MAX) by non-negativity certificates."""
    from . import certs, poly as PL
    cfg = prog.config
    nf = prog.body(NEW_FROM)
    nsl = items.slicer(nf)
    calls = [(bi, t) for bi, t in nf.calls(lambda c: facts.callee_matches(c, "inner::Inner::<T, D>::new"))]
    rep.floor("C13.K-buf.inner_call", len(calls), 1, "Inner::new call in Buf2::new_from")
    bi, t = calls[0]
    dims_t = T.strip(nsl.operand(t["args"][0]), sites=False, refs=True)
    stride_t = T.strip(nsl.operand(t["args"][1]), sites=False, refs=True)
    data_t = T.strip(nsl.operand(t["args"][2]), sites=False, refs=True, casts=True)
    w_t = dims_t[2][0] if dims_t[0] == "agg" and dims_t[1] == "tuple" else ("field", dims_t, "0")
    h_t = dims_t[2][1] if dims_t[0] == "agg" and dims_t[1] == "tuple" else ("field", dims_t, "1")
    stride_is_w = stride_t == w_t
    # data.len() == len dominates the call, len = checked product of the two dims
    eq_edges = []
    eq_edges_alt = []
    for sb, tr, fa in G.bool_edges(nf, nsl, lambda d: d[0] == "bin" and d[1] in ("Eq", "Ne")):
        d, _n = G.strip_not(nsl.operand(nf.term(sb)["discr"]))
        sides = [T.strip(d[2], sites=False, refs=True, casts=True), T.strip(d[3], sites=False, refs=True, casts=True)]
        has_len = any(x[0] == "call" and x[1].split(" => ")[0].endswith("Vec::<T, A>::len") and T.strip(x[2][0], sites=False, refs=True, casts=True) == data_t for x in sides)
        # the other side is the checked product of the two dimensions: a checked_mul call (directly, or inside the closures of an
        # and_then chain) fed by both dimensions
        def fed_by_dims(q):
            return all(T.contains(q, lambda r_, k_=k_: T.strip(r_, sites=False, refs=True, casts=True) in (w_t if k_ == 0 else h_t,)) for k_ in (0, 1))
        direct = any(T.contains(x, lambda q: q[0] == "call" and q[1].split(" => ")[0].endswith("::checked_mul") and fed_by_dims(q)) for x in sides)
        chain = any(T.contains(x, lambda q: q[0] == "call" and "and_then" in q[1]) for x in sides)
        has_prod = direct or chain
        if has_len and has_prod:
            eq_edges += tr if d[1] == "Eq" else fa
    len_is_product = bool(eq_edges) and G.guarded_by(nf, bi, eq_edges)
    fam = prog.family(NEW_FROM)
    has_checked_mul = any(True for b in fam for _bb, _t in b.calls(lambda c: c["path"].endswith("::checked_mul")))
    eq_edges = eq_edges or eq_edges_alt
    rep.inst("C13.K-buf", "new_from -> Inner::new: stride argument is w: %s; call dominated by data.len() == checked w*h: %s (checked_mul in closure chain: %s)"
             % (stride_is_w, len_is_product, has_checked_mul), config=cfg)
    if not (stride_is_w and len_is_product and has_checked_mul):
        rep.violate("C13.K-buf", "K-buf|new_from-premises", nf.where(bi, None),
                    "Buf2::new_from no longer hands Inner::new (dims, stride = w, exactly w*h items with checked w*h)", config=cfg)
        return
    inn = prog.body(INNER_NEW)
    isl = items.slicer(inn)
    atoms = [
        (lambda x: x == ("field", ("param", 1), "0"), "w"),
        (lambda x: x == ("field", ("param", 1), "1"), "h"),
        (lambda x: x == ("param", 2), "stride"),
        (lambda x: x[0] == "call" and x[1].split(" => ")[0].endswith("<impl [T]>::len"), "len"),
    ]
    subst = {"stride": {("w",): 1}, "len": {("h", "w"): 1}}

    def unchecked(t):
        """the payload of `a.checked_sub(b)` on its Some edge is a - b"""
        if not isinstance(t, tuple):
            return t
        if t[0] == "field" and isinstance(t[1], tuple) and t[1][0] == "downcast" and t[1][2] == "Some":
            c_ = T.strip(t[1][1], refs=True, sites=True)
            if c_[0] == "call" and c_[1].split(" => ")[0].endswith("::checked_sub"):
                return ("bin", "Sub", unchecked(c_[2][0]), unchecked(c_[2][1]), "u32")
        return tuple(unchecked(x) if isinstance(x, tuple) else x for x in t)

    def pol(x):
        return certs.substitute(PL.poly(unchecked(T.strip(x, refs=True, sites=True)), atoms), subst)
    _seen, edges, _g, _s = P.inventory(prog, [inn])
    edges = [e for e in edges if e.body is inn]
    P.discharge_generic(edges, items)
    for e in edges:
        if e.discharged:
            rep.inst("C13.K-buf", "Inner::new %s at %s discharged by %s" % (e.what, e.where, e.discharged[0]), config=cfg)
            continue
        conds = P.dominating_conditions(inn, isl, e.bb)
        at = []
        opaque = False
        for d, taken in conds:
            # `if let Some(k) = a.checked_sub(b)`: on the Some edge a >= b
            ds_ = T.strip(d, refs=True, sites=True)
            if ds_[0] == "bin" and ds_[1] in ("Eq", "Ne") and isinstance(ds_[2], tuple) and ds_[2][0] == "discr" and ds_[3][0] == "const":
                c_ = T.strip(ds_[2][1], refs=True, sites=True)
                if c_[0] == "call" and c_[1].split(" => ")[0].endswith("::checked_sub"):
                    is_some = (ds_[1] == "Eq") == (int(ds_[3][2]) == 1)
                    at.append(("Ge" if (is_some == bool(taken)) else "Lt", pol(c_[2][0]), pol(c_[2][1]), True))
                    continue
            if d[0] == "bin" and d[1] in ("Le", "Lt", "Ge", "Gt", "Eq", "Ne"):
                a, b = pol(d[2]), pol(d[3])
                if any(any(s.startswith("?") for s in m) for m in list(a) + list(b)):
                    opaque = True
                    continue
                at.append((d[1], a, b, taken))
        why = None
        if e.kind == "diverge":
            why = certs.refute(at)
        elif e.kind == "assert" and e.what.startswith("Overflow:"):
            op = e.what.split(":")[1]
            a, b = pol(isl.operand(e.node["ops"][0])), pol(isl.operand(e.node["ops"][1]))
            expr = {"Add": PL.padd(a, b), "Mul": PL.pmul(a, b)}.get(op)
            if expr is not None:
                lbs = certs.bounds_from_atoms(at)
                # w*h <= u32::MAX is the contract precondition: expr <= w*h suffices
                diff = PL.padd({("h", "w"): 1}, {m: -c for m, c in expr.items()})
                if certs.nonneg(diff, lbs):
                    why = "%s = %s <= w*h <= u32::MAX (certificate with bounds %s)" % (op, expr, lbs)
        rep.inst("C13.K-buf", "Inner::new %s at %s under {stride=w, len=w*h, w*h<=u32::MAX}: %s" % (e.what, e.where, why or "NOT PROVED"), config=cfg)
        if not why:
            rep.violate("C13.K-buf", "K-buf|inner-new|%s|%s" % (e.what, e.body.where(e.bb, None).split(":")[0]), e.where,
                        "Inner::new can panic (%s) for dimensions that satisfy Buf2::new_from's contract (stride = w, exactly w*h items, "
                        "w*h representable): path conditions %s are satisfiable" % (e.what, [(o, str(a), str(b), tk) for o, a, b, tk in at]), config=cfg)


def contract_attribution(rep, prog, items):
    cfg = prog.config
    ok_all = True
    for path, doc in DOCUMENTED.items():
        fam = {b.path for b in prog.family(path)}
        _seen, edges, _g, _s = P.inventory(prog, [prog.body(path)], stop=(INNER_NEW,) if path == NEW_FROM else ())
        edges = [e for e in edges if e.body.path in fam]
        P.discharge_generic(edges, items)
        got = {}
        for e in edges:
            if not e.discharged:
                got[(e.kind, e.what)] = got.get((e.kind, e.what), 0) + 1
        ok = got == doc
        ok_all = ok_all and ok
        rep.inst("C13.K-buf", "%s: undischarged panic edges %s == documented %s: %s" % (path.split("::")[-2] + "::" + path.split("::")[-1], sorted(got.items()), sorted(doc.items()), ok), config=cfg)
        if not ok:
            extra = {k: v - doc.get(k, 0) for k, v in got.items() if v > doc.get(k, 0)}
            for e in edges:
                if not e.discharged and (e.kind, e.what) in extra:
                    rep.violate("C13.K-buf", "K-buf|attribution|%s|%s" % (path, e.what), e.where,
                                "%s has a panic edge (%s) beyond its documented contract" % (path, e.what), config=cfg)
                    break
            if not extra:
                raise common.AnchorMissing("C13.K-buf: panic edges of %s changed (%s vs documented %s); contract needs re-confirmation" % (path, got, doc))
    return ok_all


def check_config(rep, prog):
    cfg = prog.config
    roots = [prog.body(r) for r in ROOTS if r in prog.bodies]
    rep.floor("C13.roots.%s" % cfg, len(roots), 1, "parse_pnm entry point")
    seen, edges, generic, std_safe = P.inventory(prog, roots, stop=(NEW_FROM,))
    items = P.Items(prog)
    covered = {b.path for b in prog.family(NEW_FROM)} | {b.path for b in prog.family(INNER_NEW)}
    contract_edges = [e for e in edges if e.body.path in covered]
    edges = [e for e in edges if e.body.path not in covered]
    P.discharge_generic(edges, items)
    rep.count("bodies_analysed", len(seen))
    rep.count("panic_edges", len(edges))
    by_schema = {}
    rep.inst("C13.P-total", "%d panic edge(s) inside Buf2::new_from/Inner::new are handled by the contract (rule K-buf)" % len(contract_edges), config=cfg)
    for e in edges:
        if e.discharged:
            by_schema[e.discharged[0]] = by_schema.get(e.discharged[0], 0) + 1
            rep.inst("C13.P-total", "%s %s at %s discharged by %s: %s" % (e.kind, e.what[:60], e.where, e.discharged[0], e.discharged[1]), config=cfg)
        else:
            path = CG.path_to(seen, e.body.path)
            rep.inst("C13.P-total", "%s %s at %s UNDISCHARGED" % (e.kind, e.what[:60], e.where), config=cfg)
            rep.violate("C13.P-total", "P-total|%s" % e.key(), e.where,
                        "reachable panic edge (%s: %s) not excluded for arbitrary input; call path: %s"
                        % (e.kind, e.what, " ; ".join(path) or CG.short(e.body.path)), config=cfg)
    rep.extra.setdefault("discharged_by_schema", {})[cfg] = by_schema
    rep.extra.setdefault("generic_dispatch_assumed_total", {})[cfg] = generic

    # ---- K-buf
    contract_attribution(rep, prog, items)
    inner_new_under_contract(rep, prog, items)
    pp = prog.body(ROOTS[0])
    sl = items.slicer(pp)
    calls = [(bi, t) for bi, t in pp.calls(lambda c: facts.callee_matches(c, "buf::Buf2::<T>::new_from"))]
    rep.floor("C13.K-buf.call", len(calls), 1, "call to Buf2::new_from in parse_pnm")
    for bi, t in calls:
        dims_t = T.strip(sl.operand(t["args"][0]), sites=False, refs=True)
        data_t = T.strip(sl.operand(t["args"][1]), sites=False, refs=True)
        is_hdr_dims = dims_t[0] == "field" and dims_t[2] == "Header.dims"
        rep.inst("C13.K-buf", "new_from is given the header's own dims: %s (%s)" % (is_hdr_dims, T.show(dims_t)[:80]), config=cfg)
        if not is_hdr_dims:
            rep.violate("C13.K-buf", "K-buf|dims", pp.where(bi, None), "the image is built with dimensions other than the header's (%s)" % T.show(dims_t)[:100], config=cfg)
        hdr = dims_t[1] if is_hdr_dims else None

        def is_dim(x, k):
            x = T.strip(x, sites=False, refs=True, casts=True)
            return x[0] == "field" and x[2] == str(k) and x[1] == dims_t

        def is_checked_product(x):
            """Some/Ok payload of checked_mul(dims.0, dims.1) (any order), possibly through `?`/ok_or"""
            x = T.strip(x, sites=False, refs=True, casts=True)
            cm = [c for c in T.walk(x) if c[0] == "call" and c[1].split(" => ")[0].endswith("::checked_mul")]
            for c in cm:
                a, b = c[2][0], c[2][1]
                if (is_dim(a, 0) and is_dim(b, 1)) or (is_dim(a, 1) and is_dim(b, 0)):
                    # must be a payload projection, not the Option itself
                    return T.contains(x, lambda s: s[0] == "downcast" and s[2] in ("Some", "Continue", "Ok") and T.contains(s[1], lambda q: q == c))
            return False

        def is_raw_product(x):
            x = T.strip(x, sites=False, refs=True, casts=True)
            while x[0] == "field" and x[2] == "0" and x[1][0] == "bin":
                x = x[1]
            return x[0] == "bin" and x[1].startswith("Mul") and ((is_dim(x[2], 0) and is_dim(x[3], 1)) or (is_dim(x[2], 1) and is_dim(x[3], 0)))
        # (b) length check: data.len() >= count on every path
        est = []
        count_terms = []
        for sb, tr, fa in G.bool_edges(pp, sl, lambda d: d[0] == "bin" and d[1] in ("Lt", "Ge", "Le", "Gt")):
            d, _n = G.strip_not(sl.operand(pp.term(sb)["discr"]))

            def is_len(x):
                x = T.strip(x, sites=False, refs=True)
                return x[0] == "call" and x[1].split(" => ")[0].endswith("Vec::<T, A>::len") and T.strip(x[2][0], sites=False, refs=True) == data_t
            if d[1] == "Lt" and is_len(d[2]):
                est += fa
                count_terms.append(d[3])
            elif d[1] == "Ge" and is_len(d[2]):
                est += tr
                count_terms.append(d[3])
            elif d[1] == "Gt" and is_len(d[3]):
                est += fa
                count_terms.append(d[2])
            elif d[1] == "Le" and is_len(d[3]):
                est += tr
                count_terms.append(d[2])
        len_ok = bool(est) and G.guarded_by(pp, bi, est)
        checked = bool(count_terms) and all(is_checked_product(c) for c in count_terms)
        raw = any(is_raw_product(c) for c in count_terms)
        rep.inst("C13.K-buf", "every path to new_from passes `data.len() >= count`: %s; count is the checked product of the header dims: %s (raw u32 product: %s)"
                 % (len_ok, checked, raw), config=cfg)
        if not len_ok:
            rep.violate("C13.K-buf", "K-buf|length", pp.where(bi, None),
                        "a path reaches Buf2::new_from without having checked that enough pixels were decoded: its length assertion can fire", config=cfg)
        if not checked:
            rep.violate("C13.K-buf", "K-buf|count", pp.where(bi, None),
                        "the pixel count compared against data.len() is not the overflow-checked product of the two header dimensions "
                        "(w*h may wrap or exceed what Buf2::new_from/Inner::new can index)", config=cfg)


DROPPING = ("::skip_while", "::skip", "::filter", "::step_by", "::nth", "::take_while", "::last", "::rev", "::filter_map", "::dedup",
            "::next_if", "::next_if_eq", "::next", "::next_chunk", "::advance_by", "::find", "::position", "::any", "::all", "::skip_while")
# wrappers that hand the same byte sequence on, and readers that consume nothing
VERBATIM = ("::peekable", "::by_ref", "::into_iter", "::fuse", "::iter_mut")
NONCONSUMING = ("::peek", "::size_hint")
# consumers confirmed by reading: they see every remaining byte in order
CONSUMERS = ("Header::parse", "::zip", "::map", "::flat_map", "::parse_num", "::take", "::collect", "::enumerate", "::chain", "::inspect", "::for_each", "::fold", "::try_fold", "::scan")


def raw_bytes_rule(rep, prog):
    """B-raw: between the header and the pixel decoders the input byte stream is consumed
    verbatim — every use of the raw iterator in parse_pnm (directly, through a verbatim wrapper
    such as by_ref()/peekable(), through the `it` captured by a decoder closure, or inside a local
    decoder function the stream is handed to) is a consumer that sees every remaining byte in
    order; nothing drops, skips or conditionally eats a byte (binary pixel data may contain any
    byte value, including whitespace and '#')."""
    cfg = prog.config
    pp = prog.body(ROOTS[0])
    counter = {"n": 0}

    def analyse(root, raw_params, depth):
        """root: a function body; raw_params: parameter numbers that ARE the raw stream (for parse_pnm: into_iter(param 1))"""
        def is_raw(recv, b):
            for _ in range(8):
                if recv == ("upvar", "it"):
                    return True
                if recv[0] == "param" and b is root and recv[1] in raw_params and root is not pp:
                    return True
                if recv[0] != "call":
                    return False
                decl = recv[1].split(" => ")[0]
                if decl.endswith("IntoIterator::into_iter") and b is root:
                    inner = T.strip(recv[2][0], refs=True)
                    if inner[0] == "param" and inner[1] in raw_params:
                        return True
                if any(decl.endswith(v) for v in VERBATIM) and recv[2]:
                    recv = T.strip(recv[2][0], sites=True, refs=True)
                    continue
                return False
            return False
        for b in prog.family(root.path):
            sl = T.Slicer(b)
            for bi, t in b.calls():
                c = t.get("callee") or {}
                name = (c.get("res") or {}).get("path") or c.get("path", "")
                raw_args = [ai for ai, a in enumerate(t["args"]) if is_raw(T.strip(sl.operand(a), sites=True, refs=True), b)]
                if not raw_args:
                    continue
                short = name.rsplit("::", 1)[-1]
                if raw_args != [0] or prog.lookup(name) is not None and not any(name.endswith(d) for d in CONSUMERS):
                    # the stream is handed to a function as an argument
                    callee = prog.lookup(name)
                    if callee is not None and depth < 3 and not any(name.endswith(d) for d in CONSUMERS):
                        rep.inst("C13.B-raw", "the raw input iterator is handed to %s at %s: analysed inside" % (short, b.where(bi, None)), config=cfg)
                        counter["n"] += 1
                        analyse(callee, {ai + 1 for ai in raw_args}, depth + 1)
                        continue
                if any(name.endswith(v) for v in VERBATIM) or any(name.endswith(v) for v in NONCONSUMING):
                    rep.inst("C13.B-raw", "%s wraps/reads the raw input iterator at %s without consuming" % (short, b.where(bi, None)), config=cfg)
                    continue
                counter["n"] += 1
                drop = any(name.endswith(d) for d in DROPPING)
                known = any(name.endswith(d) for d in CONSUMERS)
                rep.inst("C13.B-raw", "%s applied to the raw input iterator at %s: %s" % (short, b.where(bi, None), "DROPS ITEMS" if drop else "verbatim" if known else "UNRECOGNISED"), config=cfg)
                if drop:
                    rep.violate("C13.B-raw", "B-raw|%s" % short, b.where(bi, None),
                                "the raw byte stream is passed through `%s` between the header and the pixel data: binary samples equal to the dropped values are lost"
                                % short, config=cfg)
                elif not known:
                    raise common.Infra("C13.B-raw: `%s` consumes the raw byte stream at %s and is in neither the verbatim-consumer nor the dropping table; classify it"
                                       % (name, b.where(bi, None)))
    analyse(pp, {1}, 0)
    rep.floor("C13.B-raw.%s" % cfg, counter["n"], 4, "uses of the raw input iterator in parse_pnm")


def format_rules(rep, prog):
    cfg = prog.config
    adt = prog.adt(FORMAT)
    variants = {v["name"]: int(v["discr"]) for v in adt["variants"]}
    want = {"TextBitmap": "P1", "TextGraymap": "P2", "TextPixmap": "P3", "BinaryBitmap": "P4", "BinaryGraymap": "P5", "BinaryPixmap": "P6"}
    ok = all(variants.get(n) == (ord(m[0]) << 8 | ord(m[1])) for n, m in want.items()) and len(variants) == 6
    rep.inst("C13.T-format", "Format discriminants are the big-endian magics: %s -> %s" % ({n: hex(d) for n, d in variants.items()}, ok), config=cfg)
    if not ok:
        rep.violate("C13.T-format", "T-format|discriminants", "%s:%d" % (adt["file"], adt["line"]),
                    "Format discriminants %s are not the magics P1..P6: Display/Unsupported(..) print wrong bytes" % variants, config=cfg)
    # TryFrom<[u8;2]> by abstract interpretation over all 2-byte magics "P0".."P9" + a non-P
    tf = prog.body("retrofire_core::<util::pnm::Format as core::convert::TryFrom<[u8; 2]>>::try_from")
    accepted = {}
    for b0 in (ord("P"), ord("Q")):
        for b1 in range(ord("0"), ord("9") + 1):
            from . import symalg as _S
            it = _S.interp(prog)          # with the iterator / Option models: a table lookup (`find`, `position`) is as good as a match
            try:
                r = A.deref_all(it, it.call_body(tf, [("array", [b0, b1])]))
            except (A.Undecided, A.Panic) as e:
                raise common.Infra("C13.T-format: Format::try_from could not be evaluated abstractly: %s" % e)
            if isinstance(r, tuple) and r[0] == "adt" and r[2] == "Ok":
                v = r[3][0]
                accepted[chr(b0) + chr(b1)] = v[2] if isinstance(v, tuple) and v[0] == "adt" else repr(v)
    rep.inst("C13.T-format", "Format::try_from accepts %s" % accepted, config=cfg)
    for m, v in accepted.items():
        if want.get(v) != m:
            rep.violate("C13.T-format", "T-format|try_from|%s" % m, tf.where(), "magic %s is decoded as %s" % (m, v), config=cfg)
    # decoding arms in parse_pnm: every accepted variant has an arm that does not lead to Err(Unsupported)
    pp = prog.body(ROOTS[0])
    sl = T.Slicer(pp)
    arms = {}
    for bi, by, other in G.discr_edges(pp, sl, lambda p: p[0] == "field" and p[2] == "Header.format"):
        for name, d in variants.items():
            es = by.get(d)
            tgt = es[0][1] if es else (other[0][1] if other else None)
            if tgt is None:
                continue
            # does the arm construct Error::Unsupported ?
            r = pp.reachable(tgt, unwind=False, removed_blocks=[x[1] for v2, e2 in by.items() if v2 != d for x in e2])
            unsupported = False
            if not es:
                for rb in [tgt]:
                    for s in pp.blocks[rb]["stmts"]:
                        pass
                unsupported = any(s["k"] == "Assign" and s["rv"]["k"] == "Aggregate" and s["rv"].get("variant") == "Unsupported"
                                  for rb in pp.reachable(tgt, unwind=False) for s in pp.blocks[rb]["stmts"]) and not es
            arms[name] = "unsupported" if unsupported else "decoded"
    rep.floor("C13.T-format.match", len(arms), 1, "match on Header.format in parse_pnm")
    rep.inst("C13.T-format", "parse_pnm arms: %s" % arms, config=cfg)
    for m, v in accepted.items():
        if arms.get(v) != "decoded":
            rep.violate("C13.T-format", "T-format|arm|%s" % v, pp.where(),
                        "the header parser accepts %s (%s) but parse_pnm has no decoding arm for it" % (m, v), config=cfg)
    # write_ppm emits a format parse_pnm decodes (std configs only)
    wp = prog.bodies.get("retrofire_core::util::pnm::write_ppm")
    if wp is not None:
        wsl = T.Slicer(wp)
        fmts = set()
        for _bi, _si, s in wp.stmts():
            if s["k"] == "Assign" and s["rv"]["k"] == "Aggregate" and s["rv"].get("adt", "").endswith("pnm::Header"):
                ops = dict(zip(s["rv"]["fields"], [wsl.operand(o) for o in s["rv"]["ops"]]))
                f = ops.get("format")
                if f and f[0] == "agg":
                    fmts.add(f[1].split("::")[-1])
        ok_w = bool(fmts) and all(arms.get(f) == "decoded" and want.get(f) in accepted for f in fmts)
        rep.inst("C13.T-format", "write_ppm writes header format %s, which the reader accepts and decodes: %s" % (sorted(fmts), ok_w), config=cfg)
        if not ok_w:
            rep.violate("C13.T-format", "T-format|writer", wp.where(), "write_ppm emits a format (%s) that parse_pnm does not accept/decode" % sorted(fmts), config=cfg)


def writer_rule(rep, prog):
    """W-bytes: what write_ppm hands to the writer, by interpreting it on views of symbolic pixels (the writer's `write_all` and the header's
    formatting uninterpreted and recorded): one header - binary pixmap, the view's own dimensions, maxval 255 - followed by exactly the
    channel bytes r, g, b of every pixel of the VIEW in row-major order (p[y * stride + x]), nothing else; for a strided view, a
    contiguous one, a single pixel, an empty one and one whose data (513 bytes) is longer than any plausible staging block. The structural
    half of "write then read gives the image back": the reader's half is P-total / K-buf / T-format."""
    from . import symalg as S, constfold as CF
    cfg = prog.config
    path = "retrofire_core::util::pnm::write_ppm"
    body = prog.bodies.get(path)
    if body is None:
        rep.inst("C13.W-bytes", "write_ppm is not part of this configuration (no std): nothing to decide", config=cfg)
        return
    COL, INNER = "retrofire_core::math::color::Color", "retrofire_core::util::buf::inner::Inner"
    PH = ("adt", "core::marker::PhantomData", "PhantomData", [])
    OK = ("adt", "core::result::Result", "Ok", [("tuple", [])])
    bad = []
    scen = ((3, 2, 4), (2, 2, 2), (1, 1, 1), (0, 0, 0), (19, 9, 19), (3, 2, 5))
    for w, h, stride in scen:
        n = (h - 1) * stride + w if h > 0 else 0
        px = [("adt", COL, "Color", [("array", [S.sym("p%d_%d" % (i, c)) for c in range(3)]), PH]) for i in range(n + (2 if (w, h, stride) == (3, 2, 5) else 0))]   # (3,2,5): surplus backing data
        cell = A.Frame(None)
        cell.locals[0] = ("array", px)
        fields = {"dims": ("tuple", [w, h]), "stride": stride, "data": ("ref", cell, 0, []), "_pd": PH}
        names = prog.adts[INNER]["variants"][0]["fields"]
        if any(f not in fields for f in names):
            raise common.Infra("C13.W-bytes: Inner has fields the rule has no value for (%s)" % names)
        sl = ("adt", "retrofire_core::util::buf::Slice2", "Slice2", [("adt", INNER, "Inner", [fields[f] for f in names])])
        out = []

        def m_as(it, args, c, d, sl=sl):
            return A.copy_val(sl)

        def m_hdr(it, args, c, d, out=out):
            out.append(("header", A.deref_all(it, args[0])))
            return OK

        def m_wall(it, args, c, d, out=out):
            v = A.deref_all(it, args[1])
            if not (isinstance(v, tuple) and v[0] == "array"):
                raise A.Undecided("write_all of %r" % (str(v)[:60],))
            out.extend(A.deref_all(it, x) for x in v[1])
            return OK
        models = dict(CF.MODELS)
        models.update({"AsSlice2::as_slice2": m_as, "pnm::Header::write": m_hdr, "io::Write::write_all": m_wall})
        it = S.interp(prog, models=models)
        tag = "%d x %d view, stride %d" % (w, h, stride)
        try:
            r = A.deref_all(it, it.call_body(body, [("sym", "OUT"), ("sym", "DATA")], env={}))
        except A.Panic as e:
            bad.append("%s: write_ppm panics (%s)" % (tag, str(e)[:80]))
            continue
        except (A.Undecided, IndexError, KeyError, TypeError) as e:
            raise common.Infra("C13.W-bytes: write_ppm could not be interpreted on a %s (%s)" % (tag, str(e)[:200]))
        if not (isinstance(r, tuple) and r[0] == "adt" and r[2] == "Ok"):
            bad.append("%s: write_ppm does not return Ok(()) although the writer never fails (%s)" % (tag, str(r)[:60]))
            continue
        hdrs = [x for x in out if isinstance(x, tuple) and x and x[0] == "header"]
        hf = prog.adts["retrofire_core::util::pnm::Header"]["variants"][0]["fields"]
        ok_h = len(hdrs) == 1 and out and out[0] is hdrs[0]
        if ok_h:
            hv = hdrs[0][1]
            fmt, dims, mx = (A.deref_all(it, hv[3][hf.index(k)]) for k in ("format", "dims", "max"))
            ok_h = isinstance(fmt, tuple) and fmt[2] == "BinaryPixmap" and [A.deref_all(it, x) for x in dims[1]] == [w, h] and mx == 255
        if not ok_h:
            bad.append("%s: the header written is not one binary-pixmap header with the view's dimensions and maxval 255, written first" % tag)
            continue
        want = [S.sym("p%d_%d" % (y * stride + x, c)) for y in range(h) for x in range(w) for c in range(3)]
        got = out[1:]
        if got != want:
            k = next((i for i, (a_, b_) in enumerate(zip(got, want)) if a_ != b_), min(len(got), len(want)))
            bad.append("%s: %d bytes are written instead of the %d channel bytes of the view in row-major order; first difference at byte %d (%s instead of %s)"
                       % (tag, len(got), len(want), k, str(got[k])[:30] if k < len(got) else "nothing", str(want[k])[:30] if k < len(want) else "nothing"))
    rep.inst("C13.W-bytes", "write_ppm on %d views of symbolic pixels (strided, contiguous, surplus data, single pixel, empty, 513 bytes): one P6 header with the view's "
                            "dimensions, then exactly the r, g, b bytes of the view's pixels in row-major order: %s" % (len(scen), not bad), config=cfg)
    for b_ in bad[:3]:
        rep.violate("C13.W-bytes", "W-bytes|%s" % b_.split(":")[0].replace(" ", ""), body.where(), b_, config=cfg)


def check(rep, args):
    configs = ["ws"] if rep.tier == "quick" else common.ALL_CONFIGS
    rep.configs = configs
    for cfg in configs:
        prog = facts.program(cfg)
        rep.guard(check_config, rep, prog)
        rep.guard(raw_bytes_rule, rep, prog)
        rep.guard(format_rules, rep, prog)
        rep.guard(writer_rule, rep, prog)
    cov = {
        "explanation": "exhaustive panic-edge enumeration below parse_pnm/read_pnm with schema-based discharge (integer ranges propagate through "
                       "the iterator chains into the decoding closures), the Buf2::new_from contract, and format-table agreement between "
                       "header parser, decoder and writer",
        "evaluations": len(rep.instances),
        "distinct_nontrivial": len({i["what"] for i in rep.instances}),
        "rules": ["P-total", "K-buf", "B-raw", "T-format", "W-bytes"],
    }
    return "other", cov, [
        "allocation failure is out of scope (a huge but representable header allocates lazily via take(count))",
        "methods of the caller's `impl IntoIterator<Item = u8>` / `impl Read` do not panic",
        "hand lemma for K-buf: with stride = w, len = w*h <= u32::MAX, Inner::new's assertions and u32 arithmetic hold "
        "(for w = 0 < h this relies on Inner::new accepting zero-width views)",
        "std APIs outside the COND table do not panic"]
