"""C11 — 2D buffers and views act as windows onto a plain 2D array.

Decides (engines D, P, N): the discipline by which a view touches its backing
store, not the values read or written.
  R1  every use of `Inner.data` is classified and accepted only if it is
        I  an element / sub-slice index whose index operand comes from the
           checked index maths (to_index_checked payload, to_index_strict) or
           from resolve_bounds' range, or the row-width cut of such a slice
        R  an identity re-borrow into a child view with the parent's own
           dims/stride, or with dims and range from ONE resolve_bounds call
        L  a length query
        A  the whole-store accessor of the owning buffer (data / data_mut,
           reachable only through Buf2)
        W  a whole-store traversal or mutation (chunks, chunks_mut, fill, ..)
           — accepted only if bounded by height (`take(h)`), resp. guarded by
           an exact-extent check
  R2  chunk size of chunks/chunks_mut is provably >= 1
  R3  Inner{..} is built only in Inner::new, after `w <= stride` and
      `(h-1)*stride + w <= len` (or h == 0) on every path (polynomial identity);
      the view tuple structs wrap only values from Inner::new / view constructors
  R4  resolve_bounds: all four range assertions dominate both index computations
  R5  the unchecked to_index is called only from to_index_checked (under
      x < w && y < h) and resolve_bounds
  R6  no index is narrowed by a truncating cast before it is bounds-checked
Leaves: equality with an array model over operation histories; the start/end
formulas of resolve_bounds (arithmetic).
"""
from . import facts, guards as G, term as T, common, bits, poly as PL

INNER = "retrofire_core::util::buf::inner::Inner"
BUFMOD = "retrofire_core::util::buf::"


ANCHORS = ("to_index", "to_index_checked", "to_index_strict", "resolve_bounds", "new")


def inner_bodies(prog):
    """every body of `impl Inner`, with its private non-anchor helpers (a row-layout or row-range helper, say) inlined so that the index
    expressions they compute are seen where they are used"""
    out = []
    for b in sorted(prog.bodies.values(), key=lambda b: b.path):
        if "util::buf" in b.path and ("inner::Inner" in b.path):
            out.append(prog.inlined(b, depth=2, pred=lambda cb, f=b.file: (not cb.is_pub) and cb.file == f and "inner::Inner" in cb.path
                                    and cb.path.rsplit("::", 1)[-1] not in ANCHORS and cb.kind in ("Fn", "AssocFn")))
    return out


_DATA_UPVARS = set()


def has_data(t):
    return T.contains(t, lambda s: (s[0] == "field" and s[2] == "Inner.data") or (s[0] == "upvar" and s[1] in _DATA_UPVARS))


def bind_data_upvars(prog, body, sl):
    """closures that capture `self.data`: treat the capture as the backing store"""
    _DATA_UPVARS.clear()
    if body.kind != "Closure":
        return
    from .render_common import capture_terms
    caps = capture_terms(prog, body)
    for idx, (name, _r) in sl.upvars().items():
        ct = caps.get(idx)
        if ct is not None and T.contains(ct, lambda s: s[0] == "field" and s[2] == "Inner.data"):
            _DATA_UPVARS.add(name)


def checked_index_term(prog, body, sl, t):
    """index operand derives from the checked index maths"""
    if T.calls_in(t, "Inner::<T, D>::to_index_strict"):
        return "to_index_strict"
    # resolve_bounds(..).1
    rb = [s for s in T.walk(t) if s[0] == "field" and s[2] == "1" and T.calls_in(s[1], "Inner::<T, D>::resolve_bounds")]
    if rb:
        return "resolve_bounds.range"
    # closure parameter fed by Option::map(to_index_checked(..), closure)
    core = T.strip(t, refs=True, casts=True)
    if core[0] == "param" and body.kind == "Closure":
        parent = prog.bodies.get(body.parent)
        if parent is not None:
            psl = T.Slicer(parent)
            for _bi, pt in parent.calls(lambda c: c["path"].endswith("Option::<T>::map")):
                a1 = psl.operand(pt["args"][1])
                if a1[0] == "agg" and a1[1] == "closure:" + body.path and T.calls_in(psl.operand(pt["args"][0]), "Inner::<T, D>::to_index_checked"):
                    return "to_index_checked payload"
    return None


ELEMENT_ACCESSORS = ("::<T, D>::get", "::<T, D>::get_mut", "::<T, D>::to_index_strict", "::<T, D>::to_index_checked")


def element_accessors(prog):
    """[(body, kind)] of the accessors that address ONE element by (x, y): get / get_mut (None outside), the Index<Pos> / IndexMut<Pos>
    impls and to_index_strict (panic outside), to_index_checked (None outside)"""
    out = []
    for pth, b in sorted(prog.bodies.items()):
        if "{closure" in pth or "util::buf::inner::Inner" not in pth:
            continue
        if pth.endswith(INNER + "::<T, D>::get") or pth.endswith(INNER + "::<T, D>::get_mut"):
            out.append((b, "option-ref"))
        elif pth.endswith(INNER + "::<T, D>::to_index_checked"):
            out.append((b, "option-index"))
        elif pth.endswith(INNER + "::<T, D>::to_index_strict"):
            out.append((b, "panic-index"))
        elif ("Index<Pos>" in pth or "IndexMut<Pos>" in pth) and pth.endswith(("::index", "::index_mut")):
            out.append((b, "panic-ref"))
    return out


def element_rules(rep, prog):
    """R1-E / R5 by interpretation: each element accessor is run with symbolic x, y, width, height, stride and a backing slice of symbolic
    length in the nine orderings of (x ? w) and (y ? h). In range it touches exactly data[y * stride + x] (resp. returns that index) and
    hands back that cell; out of range it touches nothing and returns None / panics. However the bounds test and the index maths are
    distributed over helpers, closures, `?`, match or bool::then."""
    from . import symalg as S, absint as A
    from fractions import Fraction
    cfg = prog.config
    accs = element_accessors(prog)
    rep.floor("C11.R1.element_accessors.%s" % cfg, len([1 for _b, k_ in accs if k_.endswith("-ref")]), 4, "element accessors of Inner (get, get_mut, Index<Pos>, IndexMut<Pos>; the private to_index_strict / to_index_checked where they exist)")
    decided = set()
    adt = prog.adt(INNER)
    names = adt["variants"][0]["fields"]
    PT = "retrofire_core::math::point::Point"
    want_idx = {("stride", "y"): Fraction(1), ("x",): Fraction(1)}
    for b, kind in accs:
        bad = []
        FULL = {"lt": {"Lt": True, "Le": True, "Ge": False, "Gt": False, "Ne": True, "Eq": False},
                "eq": {"Lt": False, "Le": True, "Ge": True, "Gt": False, "Ne": False, "Eq": True},
                "gt": {"Lt": False, "Le": False, "Ge": True, "Gt": True, "Ne": True, "Eq": False}}
        FLIP = {"lt": "gt", "eq": "eq", "gt": "lt"}
        for rel_x in ("lt", "eq", "gt"):
            for rel_y in ("lt", "eq", "gt"):
                in_x, in_y = rel_x == "lt", rel_y == "lt"
                touched = []

                def orc(op, a_, b_, rel_x=rel_x, rel_y=rel_y):
                    if S.sym("len") in (a_, b_):
                        return True          # the computed index against the backing length: Inner::new's invariant (R3), not this rule's
                    for p_, q_, flip in ((a_, b_, False), (b_, a_, True)):
                        for var, dim, rel in ((S.sym("x"), S.sym("w"), rel_x), (S.sym("y"), S.sym("h"), rel_y)):
                            if p_ == var and q_ == dim:
                                return FULL[FLIP[rel] if flip else rel].get(op)
                    return None

                def m_data_index(it, args, c, d, touched=touched):
                    r0 = A.deref_all(it, args[0])
                    if not (isinstance(r0, tuple) and r0[0] == "symvec"):
                        return NotImplemented
                    touched.append(A.deref_all(it, args[1]))
                    return ("ref-cell", len(touched) - 1)
                cell = A.Frame(None)
                me = {"dims": ("tuple", [S.sym("w"), S.sym("h")]), "stride": S.sym("stride"), "data": ("symvec", "len"), "_pd": ("adt", "core::marker::PhantomData", "PhantomData", [])}
                cell.locals[0] = ("adt", INNER, "Inner", [me.get(f, A.UNKNOWN) for f in names])
                def cell_of(v_):
                    """the backing cell a returned reference designates: ('ref-cell', k) from the Index model, or a place reference data[<index>]"""
                    if isinstance(v_, tuple) and v_[0] == "ref-cell":
                        return touched[v_[1]]
                    while isinstance(v_, tuple) and v_[0] == "ref":
                        if v_[3] and isinstance(v_[3][-1], dict) and "si" in v_[3][-1]:
                            return v_[3][-1]["si"]
                        nxt = it.load_ref(v_)
                        if not (isinstance(nxt, tuple) and nxt[0] == "ref"):
                            return None
                        v_ = nxt
                    return None
                it = S.interp(prog, oracle=orc, models={"core::ops::index::Index::index": m_data_index, "core::ops::index::IndexMut::index_mut": m_data_index,
                                                        "ops::index::Index<": m_data_index, "ops::index::IndexMut<": m_data_index})
                args = [("ref", cell, 0, [])]
                if kind.endswith("-index"):
                    args += [S.sym("x"), S.sym("y")]
                else:
                    args += [("adt", PT, "Point", [("array", [S.sym("x"), S.sym("y")]), ("tuple", [])])]
                it.index_hook = lambda v_, i_: touched.append(i_)
                try:
                    r = it.call_body(b, args, env={})
                    if not (isinstance(r, tuple) and r[0] == "ref" and r[3] and isinstance(r[3][-1], dict) and "si" in r[3][-1]):
                        r = A.deref_all(it, r) if not (isinstance(r, tuple) and r[0] == "ref") else r
                    outcome = "returns"
                except A.Panic:
                    outcome, r = "panics", None
                except A.Undecided as e:
                    raise common.Infra("C11.R1: %s could not be interpreted for x %s w, y %s h (%s)" % (b.path.split("inner::")[-1], rel_x, rel_y, e))
                inside = in_x and in_y
                SYM_ = {"lt": "<", "eq": "=", "gt": ">"}
                tag = "x %s w, y %s h" % (SYM_[rel_x], SYM_[rel_y])

                def is_idx(v):
                    try:
                        return S.to_poly(strip_casts(v)) == want_idx
                    except S.NotPolynomial:
                        return False
                if inside:
                    if outcome != "returns":
                        bad.append("%s: panics for an in-range position" % tag)
                    elif kind.endswith("-ref"):
                        val = r[3][0] if kind == "option-ref" and isinstance(r, tuple) and r[0] == "adt" and r[2] == "Some" else (r if kind == "panic-ref" else None)
                        cidx = cell_of(val)
                        if not (cidx is not None and is_idx(cidx) and all(is_idx(t_) for t_ in touched)):
                            bad.append("%s: touches data[%s] and returns %s instead of the cell data[y * stride + x]" % (tag, [str(strip_casts(t_))[:60] for t_ in touched], str(r)[:40]))
                    else:
                        val = r[3][0] if kind == "option-index" and isinstance(r, tuple) and r[0] == "adt" and r[2] == "Some" else (r if kind == "panic-index" else None)
                        if not (val is not None and is_idx(A.deref_all(it, val)) and not touched):
                            bad.append("%s: yields %s instead of the index y * stride + x" % (tag, str(r)[:80]))
                else:
                    if touched:
                        bad.append("%s: the backing store is touched (data[%s]) for a position outside the view" % (tag, str(strip_casts(touched[0]))[:60]))
                    if kind.startswith("option") and not (outcome == "returns" and isinstance(r, tuple) and r[0] == "adt" and r[2] == "None"):
                        bad.append("%s: %s instead of returning None" % (tag, outcome if outcome == "panics" else "returns " + str(r)[:40]))
                    if kind.startswith("panic") and outcome != "panics":
                        bad.append("%s: returns %s instead of panicking" % (tag, str(r)[:40]))
        short = b.path.split("util::buf::")[-1]
        rep.inst("C11.R1", "%s in the nine orderings of (x ? w, y ? h): in range exactly data[y*stride + x], out of range nothing: %s" % (short, not bad), config=cfg)
        if bad:
            rep.violate("C11.R1", "R1|element|%s" % b.path, b.where(), "%s: %s" % (short, bad[0]), config=cfg)
        else:
            decided.add(b.path)
    return decided


def strip_casts(v):
    if isinstance(v, tuple) and v and v[0] == "symop" and (v[1].startswith("cast:") or v[1].startswith("f2i:")):
        return strip_casts(v[2])
    if isinstance(v, tuple) and v and v[0] == "symop":
        return (v[0], v[1]) + tuple(strip_casts(x) if isinstance(x, tuple) else x for x in v[2:])
    return v


def r1_rules(rep, prog, decided=()):
    cfg = prog.config
    n = {"I": 0, "R": 0, "L": 0, "A": 0, "W": 0, "plumbing": 0}
    for b in inner_bodies(prog):
        # element accessors (and their closures) are decided by interpretation (element_rules); the provenance rule covers the rest
        if any(b.path == d_ or b.path.startswith(d_ + "::{closure") for d_ in decided):
            n["I"] += 1
            continue
        sl = T.Slicer(b)
        bind_data_upvars(prog, b, sl)
        short = b.path.replace("retrofire_core::", "")
        for bi, t in b.calls():
            c = t["callee"]
            name = c["res"]["path"] if c.get("res") else c["path"]
            for ai, a in enumerate(t["args"]):
                at = sl.operand(a)
                if not has_data(at):
                    continue
                where = b.where(bi, None)
                base = name.split(" => ")[0]
                if base.endswith("Deref::deref") or base.endswith("DerefMut::deref_mut") or base.endswith("Clone::clone"):
                    n["plumbing"] += 1
                    continue
                if base.endswith("Iterator::map") or base.endswith("Iterator::take") or base.endswith("Iterator::zip") or base.endswith("Iterator::flatten") \
                        or base.endswith("Iterator::for_each") or base.endswith("IntoIterator::into_iter"):
                    n["plumbing"] += 1     # adaptor over an already classified traversal
                    continue
                if base.endswith("Option::<T>::map") and ai == 1:
                    n["plumbing"] += 1     # closure capturing &data; classified inside the closure
                    continue
                if "ops::index::Index" in base or "ops::index::IndexMut" in base:
                    if ai != 0:
                        continue
                    idx = sl.operand(t["args"][1])
                    how = checked_index_term(prog, b, sl, idx)
                    if how is None:
                        # row-width cut of an already checked row start: recv contains a checked index, range is ..w
                        recv_checked = bool(T.calls_in(at, "Inner::<T, D>::to_index_strict"))
                        cut = idx[0] == "agg" and idx[1].endswith("RangeTo::RangeTo") and T.contains(idx, lambda s: s[0] == "field" and s[2] == "Inner.dims")
                        if recv_checked and cut:
                            how = "row-width cut of a checked row"
                    n["I"] += 1
                    rep.inst("C11.R1", "%s: data[%s] — index provenance: %s" % (short, T.show(idx)[:70], how or "UNCHECKED"), config=cfg)
                    if how is None:
                        rep.violate("C11.R1", "R1|raw-index|%s" % b.path, where,
                                    "backing store indexed with %s, which does not come from the checked index maths (to_index_checked / to_index_strict / resolve_bounds)"
                                    % T.show(idx)[:120], config=cfg)
                    continue
                if base.endswith("<impl [T]>::len"):
                    n["L"] += 1
                    continue
                if base.endswith("Slice2::<'a, T>::new") or base.endswith("MutSlice2::<'a, T>::new") or base.endswith("inner::Inner::<T, D>::new"):
                    n["R"] += 1
                    dims = T.strip(sl.operand(t["args"][0]), sites=False, refs=True)
                    stride = T.strip(sl.operand(t["args"][1]), sites=False, refs=True)
                    data = at
                    own = lambda x, f: x[0] == "field" and x[2] == "Inner." + f and T.strip(x[1], refs=True) == ("param", 1)  # noqa: E731
                    whole = own(dims, "dims") and own(stride, "stride") and not T.calls_in(data, "ops::index")
                    rbs = T.calls_in(dims, "Inner::<T, D>::resolve_bounds")
                    sub = bool(rbs) and dims[0] == "field" and dims[2] == "0" and own(stride, "stride") and \
                        any(s[0] == "field" and s[2] == "1" and s[1] == dims[1] for s in T.walk(T.strip(data, sites=False, refs=True)))
                    rep.inst("C11.R1", "%s: child view built with %s" % (short, "the parent's own dims/stride/data" if whole else
                             ("dims and range of one resolve_bounds call, parent stride" if sub else "INCONSISTENT dims/stride/data")), config=cfg)
                    if not (whole or sub):
                        rep.violate("C11.R1", "R1|reborrow|%s" % b.path, where,
                                    "child view does not take (dims, range) from one resolve_bounds call with the parent's stride, nor the parent's own geometry: dims=%s stride=%s"
                                    % (T.show(dims)[:80], T.show(stride)[:60]), config=cfg)
                    continue
                # whole-store traversal / mutation
                n["W"] += 1
                meth = base.rsplit("::", 1)[-1]
                ok, why = whole_store_ok(prog, b, sl, bi, t, meth)
                rep.inst("C11.R1", "%s: whole-store %s(..) — %s" % (short, meth, why), config=cfg)
                if not ok:
                    rep.violate("C11.R1", "R1|whole-store|%s|%s" % (b.path, meth), where,
                                "`%s` is applied to the whole backing slice (%s): a view with surplus backing data, a zero-width view or a "
                                "single-row view with stride > width touches cells outside its window" % (meth, why), config=cfg)
        # built-in place indexing  (*slice)[i]
        for bi, si, st in b.stmts():
            if st["k"] != "Assign":
                continue
            places = [st["lhs"]]
            rv = st["rv"]
            if rv["k"] in ("Ref", "RawPtr", "CopyForDeref", "Discriminant"):
                places.append(rv["p"])
            for k in ("a", "b"):
                o = rv.get(k)
                if isinstance(o, dict):
                    pl = o.get("c") or o.get("m")
                    if pl:
                        places.append(pl)
            for pl in places:
                for pi, e in enumerate(pl["p"]):
                    if isinstance(e, dict) and "i" in e:
                        base_t = sl.place({"l": pl["l"], "p": pl["p"][:pi]})
                        if not has_data(base_t):
                            continue
                        idx = sl.local(e["i"])
                        how = checked_index_term(prog, b, sl, idx)
                        n["I"] += 1
                        rep.inst("C11.R1", "%s: data[%s] (place index) — index provenance: %s" % (short, T.show(idx)[:70], how or "UNCHECKED"), config=cfg)
                        if how is None:
                            rep.violate("C11.R1", "R1|raw-index|%s" % b.path, b.where(bi, si),
                                        "backing store indexed with %s, which does not come from the checked index maths" % T.show(idx)[:120], config=cfg)
        # returned whole store
        rt = sl.local(0)
        core_rt = T.strip(rt, refs=True)
        if b.kind == "AssocFn" and core_rt[0] == "field" and core_rt[2] == "Inner.data" and "Clone>::clone" not in b.path:
            n["A"] += 1
            callers = [x.path for x in prog.bodies.values() for _bi, tt in x.calls(lambda c: c["path"] == b.path)]
            ok = all(cp.startswith("retrofire_core::util::buf::Buf2::<T>::") for cp in callers) and not b.is_pub
            rep.inst("C11.R1", "%s returns the whole store; pub=%s; callers: %s" % (short, b.is_pub, callers), config=cfg)
            if not ok:
                rep.violate("C11.R1", "R1|accessor|%s" % b.path, b.where(),
                            "whole-store accessor is reachable beyond the owning Buf2 (pub=%s, callers %s)" % (b.is_pub, callers), config=cfg)
    rep.floor("C11.R1.index", n["I"], 8, "index uses of Inner.data")
    rep.floor("C11.R1.reborrow", n["R"], 4, "child-view constructions from Inner.data")
    rep.floor("C11.R1.whole", n["W"], 3, "whole-store traversals (rows, rows_mut, fill)")
    rep.count("r1_uses", sum(n.values()))


def _exact_extent(sides):
    """`data.len() == <extent>`: one side is the length of the backing store, the OTHER is computed from the view's own dims (w * h) and
    from no other length — `self.data.len() == other.data.len()` compares two stores, each of which may hold row padding"""
    is_len = lambda x: x[0] == "call" and x[1].split(" => ")[0].endswith("<impl [T]>::len") and has_data(x)  # noqa: E731
    for x, y in (sides, sides[::-1]):
        if not is_len(x):
            continue
        from_dims = T.contains(y, lambda s: s[0] == "field" and s[2] == "Inner.dims") or T.calls_in(y, "Inner::<T, D>::width") \
            or T.calls_in(y, "Inner::<T, D>::height")
        if from_dims and not T.calls_in(y, "<impl [T]>::len"):
            return True
    return False


def whole_store_ok(prog, b, sl, bi, t, meth):
    """chunks/chunks_mut: the iterator must be cut to `height` rows before it escapes;
    fill & co: must be guarded by an exact-extent check."""
    if meth in ("chunks", "chunks_mut", "chunks_exact", "chunks_exact_mut"):
        rt = sl.local(0)
        takes = [s for s in T.walk(rt) if s[0] == "call" and s[1].split(" => ")[0].endswith("Iterator::take")]
        for tk in takes:
            inner_has_chunks = bool(T.calls_in(tk[2][0], "::" + meth))
            by_height = T.contains(tk[2][1], lambda s: s[0] == "field" and s[2] == "1" and T.contains(s[1], lambda q: q[0] == "field" and q[2] == "Inner.dims")) \
                or bool(T.calls_in(tk[2][1], "Inner::<T, D>::height"))
            if inner_has_chunks and by_height:
                return True, "bounded by take(height)"
        zips = [s for s in T.walk(rt) if s[0] == "call" and s[1].split(" => ")[0].endswith("Iterator::zip")]
        return False, "every stride-chunk of the backing slice is yielded, not just height() rows"
    # mutation / traversal of the whole slice: need a dominating exactness check  data.len() == w*h (or == exact extent)
    conds = []
    from . import panics as P
    for d, taken in P.dominating_conditions(b, sl, bi):
        conds.append((d, taken))
    for d, taken in conds:
        if d[0] == "bin" and d[1] in ("Eq",) and taken:
            sides = (T.strip(d[2], refs=True, casts=True), T.strip(d[3], refs=True, casts=True))
            if _exact_extent(sides):
                return True, "guarded by an exact data.len() == extent check"
    # the same, path-sensitively: the check may have been evaluated into a flag first (`let covers = a && b; if !covers {..} else {HERE}`)
    fa = b.facts_at(bi)
    for (cb_, si_), truth in (fa or {}).items():
        st_ = b.blocks[cb_]["stmts"][si_]
        d = sl.rvalue(st_["rv"], 0, ())
        if d[0] == "bin" and d[1] == "Eq" and truth:
            sides = (T.strip(d[2], refs=True, casts=True), T.strip(d[3], refs=True, casts=True))
            if _exact_extent(sides):
                return True, "guarded by an exact data.len() == extent check (held in a flag)"
    guard = [T.show(d)[:60] + ("" if tk else " (false)") for d, tk in conds]
    return False, "guarded only by %s" % (guard or "nothing")


def r2_rules(rep, prog):
    cfg = prog.config
    n = 0
    for b in inner_bodies(prog):
        sl = T.Slicer(b)
        for bi, t in b.calls(lambda c: c["path"].endswith("<impl [T]>::chunks") or c["path"].endswith("<impl [T]>::chunks_mut")):
            n += 1
            arg = sl.operand(t["args"][1])
            r = bits.eval_range(arg)
            ok = r is not None and r[0] >= 1
            rep.inst("C11.R2", "%s: chunk size %s has range %s (>= 1: %s)" % (b.path.split("::")[-1], T.show(arg)[:60], r, ok), config=cfg)
            if not ok:
                rep.violate("C11.R2", "R2|chunk-size|%s" % b.path, b.where(bi, None),
                            "chunk size %s can be 0 (a zero-width owned buffer has stride 0): chunks()/chunks_mut() panics" % T.show(arg)[:80], config=cfg)
    rep.floor("C11.R2", n, 2, "chunks/chunks_mut calls")


def r3_rules(rep, prog):
    cfg = prog.config
    sites = []
    for b in prog.bodies.values():
        for bi, si, s in b.stmts():
            if s["k"] == "Assign" and s["rv"]["k"] == "Aggregate" and s["rv"].get("adt") == INNER:
                sites.append((b, bi, si, s))
    rep.floor("C11.R3", len(sites), 1, "Inner{..} construction sites")
    for b, bi, si, s in sites:
        if "as core::clone::Clone>::clone" in b.path:
            continue
        if b.path != INNER + "::<T, D>::new":
            rep.violate("C11.R3", "R3|ctor|%s" % b.path, b.where(bi, si), "Inner{..} is built outside the validating constructor Inner::new", config=cfg)
            continue
        # Inner::new's contract by path enumeration: the constructor is interpreted on symbolic (w, h), stride and a backing slice of symbolic
        # length; every comparison forks. On each path that RETURNS, the decisions taken must include (or be stronger than)
        #     w <= stride        and        h == 0  or  (h - 1) * stride + w <= len
        # in whatever form the checks are written (nested ifs, checked_sub + if let, extra assertions)
        from . import symalg as S, absint as A
        from fractions import Fraction

        def run_new(o):
            it = S.interp(prog, oracle=o)
            try:
                it.call_body(b, [("tuple", [S.sym("w"), S.sym("h")]), S.sym("stride"), ("symvec", "len")], env={})
                return "returns"
            except A.Panic:
                return "panics"
        try:
            paths = S.explore(run_new, max_paths=512)
        except A.Undecided as e:
            raise common.Infra("C11.R3: Inner::new could not be interpreted (%s)" % e)

        def le0(op, x, y, ans):
            """the decision as a list of polynomials known to be <= 0 (integers)"""
            try:
                px, py = S.to_poly(strip_casts(x)), S.to_poly(strip_casts(y))
            except S.NotPolynomial:
                return []
            d = PL.padd(px, {m: -c for m, c in py.items()})          # x - y
            nd = {m: -c for m, c in d.items()}
            one = {(): Fraction(1)}
            if not ans:
                op = {"Le": "Gt", "Lt": "Ge", "Gt": "Le", "Ge": "Lt", "Eq": "Ne", "Ne": "Eq"}[op]
            return {"Le": [d], "Lt": [PL.padd(d, one)], "Ge": [nd], "Gt": [PL.padd(nd, one)], "Eq": [d, nd], "Ne": []}[op]

        def implied(want, known):
            """want <= 0 follows from some known p <= 0 with p - want a non-negative constant"""
            for p_ in known:
                diff = PL.padd(p_, {m: -c for m, c in want.items()})
                if set(diff) <= {()} and diff.get((), 0) >= 0:
                    return True
            return False
        c_w = {("w",): Fraction(1), ("stride",): Fraction(-1)}
        c_h0 = {("h",): Fraction(1)}
        c_size = {("h", "stride"): Fraction(1), ("stride",): Fraction(-1), ("w",): Fraction(1), ("len",): Fraction(-1)}
        n_ret, bad_w, bad_size = 0, None, None
        for trace, outcome in paths:
            if outcome != "returns":
                continue
            n_ret += 1
            known = []
            for op, x, y, ans in trace:
                known += le0(op, x, y, ans)
            if not implied(c_w, known) and bad_w is None:
                bad_w = S.fmt_trace(trace)[:200]
            if not (implied(c_h0, known) or implied(c_size, known)) and bad_size is None:
                bad_size = S.fmt_trace(trace)[:200]
        have_w, have_size = bad_w is None and n_ret > 0, bad_size is None and n_ret > 0
        rep.inst("C11.R3", "Inner::new over %d paths (%d returning): every returning path has decided w <= stride: %s; h == 0 or (h-1)*stride + w <= len: %s"
                 % (len(paths), n_ret, have_w, have_size), config=cfg)
        if not have_w:
            rep.violate("C11.R3", "R3|width-check", b.where(bi, si), "Inner::new can construct a view whose width exceeds its stride (returning path: %s)" % (bad_w or "none returns"), config=cfg)
        if not have_size:
            rep.violate("C11.R3", "R3|size-check", b.where(bi, si), "Inner::new can construct a view whose last row extends past the backing data (returning path: %s)" % (bad_size or "none returns"), config=cfg)
    # wrappers
    for adt in ("Buf2", "Slice2", "MutSlice2"):
        full = BUFMOD + adt
        for b in prog.bodies.values():
            sl = None
            for bi, si, s in b.stmts():
                if s["k"] == "Assign" and s["rv"]["k"] == "Aggregate" and s["rv"].get("adt") == full:
                    if "as core::clone::Clone>::clone" in b.path:
                        continue
                    sl = sl or T.Slicer(b)
                    v = sl.operand(s["rv"]["ops"][0])
                    ok = v[0] == "call" and v[1].split(" => ")[0].endswith("inner::Inner::<T, D>::new")
                    rep.inst("C11.R3", "%s(..) in %s wraps %s" % (adt, b.path.split("buf::")[-1], T.show(v)[:50]), config=cfg)
                    if not ok:
                        rep.violate("C11.R3", "R3|wrapper|%s" % b.path, b.where(bi, si), "%s is built from something other than Inner::new(..)" % adt, config=cfg)


def r4_r5_rules(rep, prog):
    cfg = prog.config
    rb = prog.body(INNER + "::<T, D>::resolve_bounds")
    sl = T.Slicer(rb)
    ti = [bi for bi, _t in rb.calls(lambda c: c["path"].endswith("Inner::<T, D>::to_index"))]
    rep.floor("C11.R4", len(ti), 2, "to_index calls in resolve_bounds")
    from . import panics as P, callgraph as CG
    _seen, edges, _g, _s = P.inventory(prog, [rb], stop=(INNER + "::<T, D>::to_index",))
    asserts = [e for e in edges if e.body is rb and e.kind == "diverge"]
    ok = len(asserts) >= 4 and all(all(x not in rb.reachable(0, removed_blocks=[]) or True for x in ti) for _e in asserts)
    # each assert's passing side dominates every to_index call: removing the panic blocks' switch pass-edges must cut them off
    doms = 0
    for e in asserts:
        conds = P.dominating_conditions(rb, sl, e.bb)
        # the last comparison before this panic block
        for sb, _i, t in rb.terms():
            if t["k"] == "SwitchInt" and rb.dominates(sb, e.bb) and all(rb.dominates(sb, x) for x in ti):
                pass
        # the panic block's immediate controlling switch
        ctrl = [sb for sb, _i, t in rb.terms() if t["k"] == "SwitchInt" and any(G.guarded_by(rb, e.bb, [(sb, dst, lab)]) for dst, lab in rb.term_edges(sb))]
        if ctrl and all(rb.dominates(max(ctrl), x) for x in ti):
            doms += 1
    rep.inst("C11.R4", "resolve_bounds: %d range assertions, %d of them dominate both to_index calls" % (len(asserts), doms), config=cfg)
    if len(asserts) < 4 or doms < len(asserts):
        rep.violate("C11.R4", "R4|asserts", rb.where(), "resolve_bounds computes linear indices before (or without) all four range assertions l<=r<=w, t<=b<=h", config=cfg)
    # R5 callers of to_index
    callers = sorted({x.path for x in prog.bodies.values() for _bi, tt in x.calls(lambda c: c["path"] == INNER + "::<T, D>::to_index")})
    allowed_roots = (INNER + "::<T, D>::resolve_bounds", INNER + "::<T, D>::to_index_checked")
    rep.inst("C11.R5", "callers of the unchecked to_index: %s" % [c.split("Inner::<T, D>::")[-1] for c in callers], config=cfg)
    for c in callers:
        # the two checked wrappers (the function itself or a closure of it); that to_index_checked calls it for in-range coordinates only
        # is decided by the interpretation below
        dec_ = prog.__dict__.get("_c11_decided", set())
        if any(c == d_ or c.startswith(d_ + "::{closure") for d_ in dec_):
            continue            # an element accessor whose in-range-only use of the index maths is decided by interpretation (element_rules)
        if not any(c == r_ or c.startswith(r_ + "::{closure") for r_ in allowed_roots):
            rep.violate("C11.R5", "R5|%s" % c, prog.bodies[c].where(), "%s calls the unchecked index maths to_index directly" % c, config=cfg)
    # to_index_checked by abstract interpretation over the orderings of (x ? w) and (y ? h)
    from . import absint as A
    tc = prog.bodies.get(INNER + "::<T, D>::to_index_checked")
    if tc is None:
        rep.notes.append("C11.R5: this tree has no separate to_index_checked (the bounds test is written in the accessors): every element accessor's "
                         "in-range-only use of the index maths is decided by interpretation under R1 (element_rules)")
        rep.inst("C11.R5", "to_index_checked: not present as a function; see R1 element accessors", config=cfg)
        return
    adt = prog.adt(INNER)
    names = adt["variants"][0]["fields"]
    table = {}
    ok = True
    ok_call = True
    FULL = {"lt": {"Lt": True, "Le": True, "Ge": False, "Gt": False, "Ne": True, "Eq": False},
            "eq": {"Lt": False, "Le": True, "Ge": True, "Gt": False, "Ne": False, "Eq": True},
            "gt": {"Lt": False, "Le": False, "Ge": True, "Gt": True, "Ne": True, "Eq": False}}
    FLIP = {"lt": "gt", "eq": "eq", "gt": "lt"}
    for xr in ("lt", "eq", "gt"):
        for yr in ("lt", "eq", "gt"):
            def orc(op, a, b, xr=xr, yr=yr):
                rel = None
                if (a, b) == (("sym", "x"), ("sym", "w")):
                    rel = xr
                elif (a, b) == (("sym", "y"), ("sym", "h")):
                    rel = yr
                elif (a, b) == (("sym", "w"), ("sym", "x")):
                    rel = FLIP[xr]
                elif (a, b) == (("sym", "h"), ("sym", "y")):
                    rel = FLIP[yr]
                if rel is None:
                    return None
                return FULL[rel].get(op)

            def m_then(it, args, callee, depth):
                c = args[0]
                if not isinstance(c, int):
                    raise A.Undecided("then on undecided condition")
                return A.some(A.UNKNOWN) if c else A.NONE
            called = []

            def m_to_index(it_, args_, callee_, depth_, called=called):
                called.append(1)
                return A.UNKNOWN

            def m_then_run(it_, args_, callee_, depth_):
                c_ = args_[0]
                if not isinstance(c_, int):
                    raise A.Undecided("then on undecided condition")
                if c_:
                    it_.invoke(args_[1], [], depth_)        # the closure runs (and may call to_index) only when the condition holds
                    return A.some(A.UNKNOWN)
                return A.NONE
            it = A.Interp(prog, oracle=orc, models={"bool::<impl bool>::then": m_then_run, "Inner::<T, D>::to_index": m_to_index})
            inner = ("adt", INNER, "Inner", [("tuple", [("sym", "w"), ("sym", "h")]) if n2 == "dims" else A.UNKNOWN for n2 in names])
            cell = A.Frame(None)
            cell.locals[0] = inner
            try:
                r = it.call_body(tc, [("ref", cell, 0, []), ("sym", "x"), ("sym", "y")])
            except (A.Undecided, A.Panic) as e:
                raise common.Infra("C11.R5: to_index_checked could not be evaluated abstractly (%s)" % e)
            got = r[2] if isinstance(r, tuple) and r[0] == "adt" else repr(r)
            want = "Some" if (xr, yr) == ("lt", "lt") else "None"
            table["x%sw,y%sh" % ({"lt": "<", "eq": "=", "gt": ">"}[xr], {"lt": "<", "eq": "=", "gt": ">"}[yr])] = got
            if got != want:
                ok = False
            if called and (xr, yr) != ("lt", "lt"):
                ok_call = False
    rep.inst("C11.R5", "to_index_checked over the nine orderings of (x?w, y?h): %s; the unchecked to_index runs for in-range coordinates only: %s" % (table, ok_call), config=cfg)
    if not ok_call:
        rep.violate("C11.R5", "R5|unchecked-call", tc.where(), "to_index_checked runs the unchecked index maths for coordinates outside x < w && y < h (its overflow checks can fire)", config=cfg)
    if not ok:
        rep.violate("C11.R5", "R5|checked-guard", tc.where(), "to_index_checked yields an index outside x < w && y < h (or none inside): %s" % table, config=cfg)


def r6_rules(rep, prog):
    cfg = prog.config
    n = 0
    for b in inner_bodies(prog):
        if b.kind != "AssocFn":
            continue
        sl = T.Slicer(b)
        for bi, t in b.calls(lambda c: c["path"].endswith("Inner::<T, D>::to_index_strict") or c["path"].endswith("Inner::<T, D>::to_index_checked")):
            for ai, a in enumerate(t["args"][1:], 1):
                at = sl.operand(a)
                n += 1
                narrow = [s for s in T.walk(at) if s[0] == "cast" and s[1] == "IntToInt" and s[3] in ("u32", "u16", "u8", "i32")
                          and T.contains(s[2], lambda q: q[0] == "param")]
                for s in narrow:
                    # type of the operand being narrowed
                    src = T.strip(s[2], refs=True)
                    pty = b.locals[src[1]] if src[0] == "param" else "?"
                    if pty in ("usize", "u64", "i64", "isize", "u128"):
                        from . import panics as P
                        conds = P.dominating_conditions(b, sl, bi)
                        guarded = any(T.contains(d, lambda q: q == src) and d[0] == "bin" for d, _tk in conds)
                        rep.inst("C11.R6", "%s: %s narrowed to %s before the bounds check (guarded: %s)" % (b.path.split("buf::")[-1], pty, s[3], guarded), config=cfg)
                        if not guarded:
                            rep.violate("C11.R6", "R6|narrowing|%s" % b.path, b.where(bi, None),
                                        "a %s index is truncated to %s before it is bounds-checked: an out-of-range index that wraps to a valid one is served instead of rejected"
                                        % (pty, s[3]), config=cfg)
    rep.floor("C11.R6", n, 4, "coordinates passed to the checked index maths")


def check_config(rep, prog):
    decided = rep.guard(element_rules, rep, prog)
    if not isinstance(decided, set):
        decided = set()
    prog.__dict__["_c11_decided"] = decided
    rep.guard(r1_rules, rep, prog, decided)
    for g in (r2_rules, r3_rules, r4_r5_rules, r6_rules):
        rep.guard(g, rep, prog)


def check(rep, args):
    configs = ["ws"] if rep.tier == "quick" else common.ALL_CONFIGS
    rep.configs = configs
    for cfg in configs:
        check_config(rep, facts.program(cfg))
    cov = {
        "explanation": "element accessors interpreted over the nine orderings of (x ? w, y ? h) with symbolic geometry; Inner::new by path enumeration; "
                       "who-may-touch / provenance / path-sensitive guard rules over every other use of the backing store of Inner<T, D>",
        "evaluations": len(rep.instances),
        "distinct_nontrivial": len({i["what"] for i in rep.instances}),
        "rules": ["R1", "R2", "R3", "R4", "R5", "R6"],
    }
    return "other", cov, ["the values resolve_bounds computes (start/end formulas) and model equality over operation histories are not decided",
                          "slice indexing with a checked index does not panic is Inner::new's invariant (R3)"]
