"""C15 — generated solids are closed, consistently wound and carry unit normals.

Decides (engines T and D):
  T2  Platonic solids + box: the mesh each build() assembles is reconstructed from
      the builder's *recipe* (provenance terms of every push_face / push_vert
      argument, evaluated over the tables rustc const-evaluated) and checked
      cell by cell: indices in range, every directed edge once and its reverse
      once (closed, consistently oriented, watertight after merging coincident
      vertices), V - E + F = 2, faces wound outward, vertex normals of unit
      length on the outward side, pentagons planar with equal edges
  D6  every normal handed to push_vert / vertex() in geom::solids has UNIT
      provenance (normalize(..), a unit table entry, a unit literal, a rotation
      of a unit vector)
  D7  every build() returns through Builder::build / Mesh::new (validation) or
      another solid's build(); parameter asserts dominate the construction
  L1  lathe strips: the two triangles of a quad use the four corner index
      polynomials p, p+1, p+n, p+n+1 and share the diagonal in opposite
      directions; bottom and top cap fans are wound oppositely
Leaves: lathe topology/seam/poles for every sector count, radii and extents.
"""
import math

from . import facts, guards as G, term as T, common, poly as P, teval

PLAT = "retrofire_geom::solids::platonic::"
PLATONIC = ("Tetrahedron", "Box", "Octahedron", "Dodecahedron", "Icosahedron")
LATHE = "retrofire_geom::solids::lathe::"


# ---------------------------------------------------------------- recipe extraction

def loops_of(body, sl):
    """next-call blocks with their iterator source term, outermost first."""
    res = []
    for bi, t in body.calls(lambda c: facts.callee_matches(c, "Iterator::next")):
        res.append((bi, sl.operand(t["args"][0])))
    res.sort(key=lambda x: sum(1 for y in res if body.dominates(y[0], x[0])))
    return res


def in_loop(body, head, bb):
    """bb lies in the loop whose head block is `head`."""
    return bb != head and bb in body.natural_loop(head)


def build_mesh(prog, body, params=None):
    """Reconstruct (faces, verts, log) from the recipe of a platonic build()."""
    sl = T.Slicer(body)
    loops = loops_of(body, sl)
    pf = [(bi, t) for bi, t in body.calls(lambda c: facts.callee_matches(c, "mesh::Builder::<A>::push_face"))]
    pfs = [(bi, t) for bi, t in body.calls(lambda c: facts.callee_matches(c, "mesh::Builder::<A>::push_faces"))]
    pv = [(bi, t) for bi, t in body.calls(lambda c: facts.callee_matches(c, "mesh::Builder::<A>::push_vert"))]
    if len(pv) != 1:
        raise teval.CannotEval("expected exactly one push_vert site, found %d" % len(pv))
    faces, verts = [], []
    log = []

    def site_loops(bb):
        return [(h, src) for h, src in loops if in_loop(body, h, bb)]
    ev = teval.Evaluator(prog, env={}, params=params or {})
    for bi, t in pfs:
        if site_loops(bi):
            raise teval.CannotEval("push_faces inside a loop")
        tab = teval.iter_domain(ev, sl.operand(t["args"][1]))
        faces += [tuple(r) for r in tab]
        log.append("push_faces(%s)" % T.show(sl.operand(t["args"][1]))[:80])
    pv_bi, pv_t = pv[0]
    pv_loops = site_loops(pv_bi)
    pf_loops = {bi: site_loops(bi) for bi, _t in pf}

    def run(level, active):
        """iterate loops (outermost first); emit faces/verts of sites whose loop set == active prefix."""
        if level == len(loops):
            return
    # generic two-level simulation (all platonic builders have <= 2 nested loops)
    if len(loops) > 2:
        raise teval.CannotEval("more than two loops in a platonic builder")
    outer = loops[0] if loops else None
    inner = loops[1] if len(loops) > 1 else None
    if outer is None:
        raise teval.CannotEval("no loop")
    okey = (body.path, outer[0])
    for item in teval.iter_domain(ev, outer[1]):
        ev.env[okey] = item
        # faces pushed in the outer loop, in block order of dominance
        for bi, t in sorted(pf, key=lambda x: sum(1 for y in pf if body.dominates(y[0], x[0]))):
            ls = pf_loops[bi]
            if [h for h, _s in ls] == [outer[0]]:
                faces.append(tuple(ev.ev(sl.operand(a)) for a in t["args"][1:4]))
            elif ls:
                raise teval.CannotEval("push_face in an unexpected loop nest")
        if inner is not None and [h for h, _s in pv_loops] == [outer[0], inner[0]]:
            ikey = (body.path, inner[0])
            for it2 in teval.iter_domain(ev, inner[1]):
                ev.env[ikey] = it2
                verts.append((teval.vec_of(ev.ev(sl.operand(pv_t["args"][1]))), teval.vec_of(ev.ev(sl.operand(pv_t["args"][2])))))
            ev.env.pop(ikey, None)
        elif [h for h, _s in pv_loops] == [outer[0]]:
            verts.append((teval.vec_of(ev.ev(sl.operand(pv_t["args"][1]))), teval.vec_of(ev.ev(sl.operand(pv_t["args"][2])))))
        else:
            raise teval.CannotEval("push_vert in an unexpected loop nest")
    log.append("push_face args: %s" % [[T.show(T.strip(sl.operand(a)))[-60:] for a in t["args"][1:4]] for _b, t in pf][:3])
    log.append("push_vert(pos=%s, normal=%s)" % (T.show(sl.operand(pv_t["args"][1]))[:100], T.show(sl.operand(pv_t["args"][2]))[:100]))
    return faces, verts, log


def build_mesh_cp(prog, body, name, box=(0.0, 1.0)):
    """(faces, verts, log) of a platonic build() by constant propagation (sa/constfold.py): the function has no inputs besides
    the constant tables (Box: evaluated for the unit box), so the constant store at its return point is the mesh itself.
    Follows helpers, iterator chains and push_faces/push_verts alike."""
    from . import constfold as CF, absint as A
    it = CF.interp(prog)
    args = []
    if body.argc:
        adt = (prog.adts.get(PLAT + name) or {}).get("variants") or [{}]
        fields = adt[0].get("fields") or []
        pt = lambda x: ("adt", "retrofire_core::math::point::Point", "Point",  # noqa: E731
                        [("array", [("f", v_) for v_ in (x if isinstance(x, tuple) else (x, x, x))]), ("adt", "core::marker::PhantomData", "PhantomData", [])])
        vals = {"left_bot_near": pt(box[0]), "right_top_far": pt(box[1])}
        if any(f not in vals for f in fields):
            raise teval.CannotEval("%s has a field the rule has no sample value for (%s)" % (name, fields))
        args = [("adt", PLAT + name, name, [vals[f] for f in fields])]
    r = it.call_body(body, args)
    r = A.deref_all(it, r)
    mesh = (prog.adts.get("retrofire_core::geom::mesh::Mesh") or {}).get("variants") or [{}]
    mf = mesh[0].get("fields") or []
    if not (isinstance(r, tuple) and r[0] == "adt" and r[2] == "Mesh" and "faces" in mf and "verts" in mf):
        raise teval.CannotEval("build() did not fold to a Mesh constant (%r)" % (str(r)[:80],))
    fs, vs = A.deref_all(it, r[3][mf.index("faces")]), A.deref_all(it, r[3][mf.index("verts")])
    vx = (prog.adts.get("retrofire_core::geom::Vertex") or {}).get("variants") or [{}]
    vf = vx[0].get("fields") or []
    faces, verts = [], []
    for f in fs[1]:
        idx = CF.floats_of(it, f)
        faces.append(tuple(int(x) for x in idx))
    for v in vs[1]:
        v = A.deref_all(it, v)
        verts.append((CF.floats_of(it, v[3][vf.index("pos")]), CF.floats_of(it, v[3][vf.index("attrib")])))
    return faces, verts, ["constant propagation through %s::build: %d faces, %d vertices" % (name, len(faces), len(verts))]


# ---------------------------------------------------------------- geometry

def sub(a, b):
    return [x - y for x, y in zip(a, b)]


def cross(a, b):
    return [a[1] * b[2] - a[2] * b[1], a[2] * b[0] - a[0] * b[2], a[0] * b[1] - a[1] * b[0]]


def dot(a, b):
    return sum(x * y for x, y in zip(a, b))


def mesh_rules(rep, name, faces, verts, where, cfg, expect_euler=2, closed=True, centroid_winding=True):
    key = lambda p: tuple(round(x, 4) + 0.0 for x in p)  # noqa: E731
    n = len(verts)
    ok = True

    def bad(rule, k, msg):
        nonlocal ok
        ok = False
        rep.violate("C15.T2", "T2|%s|%s" % (name, k), where, "%s: %s" % (name, msg), config=cfg)
    for fi, f in enumerate(faces):
        if any(not (0 <= i < n) for i in f):
            bad("T2", "index-range", "face %d = %s refers to a vertex outside 0..%d" % (fi, list(f), n))
            return False
    ids = {}
    for v in verts:
        ids.setdefault(key(v[0]), len(ids))
    pid = [ids[key(v[0])] for v in verts]
    centroid = [sum(v[0][k] for v in verts) / n for k in range(3)]
    edges = {}
    for fi, f in enumerate(faces):
        a, b, c = (pid[i] for i in f)
        if len({a, b, c}) < 3:
            continue
        for e in ((a, b), (b, c), (c, a)):
            edges.setdefault(e, []).append(fi)
    dup = [e for e, fs in edges.items() if len(fs) > 1]
    open_ = [e for e in edges if (e[1], e[0]) not in edges]
    if dup:
        bad("T2", "edge-twice", "directed edge %s is used by faces %s: inconsistent orientation or overlapping faces" % (dup[0], edges[dup[0]]))
    if open_ and closed:
        bad("T2", "edge-open", "edge %s (face %s) has no opposite edge: the surface is not closed/consistently oriented" % (open_[0], edges[open_[0]]))
    V, E, F = len(ids), len({frozenset(e) for e in edges}), len([f for f in faces if len({pid[i] for i in f}) == 3])
    if closed and V - E + F != expect_euler:
        bad("T2", "euler", "V - E + F = %d - %d + %d = %d, expected %d" % (V, E, F, V - E + F, expect_euler))
    for fi, f in enumerate(faces):
        p0, p1, p2 = (verts[i][0] for i in f)
        nrm = cross(sub(p1, p0), sub(p2, p0))
        e2 = max(dot(sub(p1, p0), sub(p1, p0)), dot(sub(p2, p0), sub(p2, p0)), dot(sub(p2, p1), sub(p2, p1)))
        if math.sqrt(dot(nrm, nrm)) < 1e-9 or math.sqrt(dot(nrm, nrm)) < 1e-5 * e2 or len({pid[i] for i in f}) < 3:
            continue          # degenerate (two corners coincide up to rounding: the seam duplicate of a ring, an on-axis end point)
        c = [(p0[k] + p1[k] + p2[k]) / 3 for k in range(3)]
        if centroid_winding and dot(nrm, sub(c, centroid)) <= 0:
            bad("T2", "winding", "face %d = %s is wound inward (geometric normal points towards the centroid)" % (fi, list(f)))
            break
        for i in f:
            vn = verts[i][1]
            if dot(vn, nrm) <= 0:
                bad("T2", "normal-side", "vertex %d's normal %s lies on the inner side of face %d" % (i, [round(x, 3) for x in vn], fi))
                break
    lens = [math.sqrt(dot(v[1], v[1])) for v in verts]
    worst = max(lens, key=lambda l: abs(l - 1))
    if abs(worst - 1) > 1e-4:
        i = lens.index(worst)
        rep.violate("C15.T2", "T2|%s|normal-length" % name, where,
                    "%s: vertex normal %s (vertex %d) has length %.6f, not 1 (%d of %d normals are not unit)"
                    % (name, [round(x, 4) for x in verts[i][1]], i, worst, sum(1 for l in lens if abs(l - 1) > 1e-4), n), config=cfg)
        ok = False
    rep.inst("C15.T2", "%s: %d faces, %d verts (%d distinct positions), %d edges, euler %d, all checks passed=%s"
             % (name, len(faces), n, V, E, V - E + F, ok), config=cfg)
    return ok


def platonic_rules(rep, prog):
    cfg = prog.config
    for name in PLATONIC:
        body = prog.body(PLAT + name + "::build")
        params = {}
        if name == "Box":
            params = {1: {"left_bot_near": {"0": [0.0, 0.0, 0.0]}, "right_top_far": {"0": [1.0, 1.0, 1.0]}}}
        from . import absint as A
        try:
            faces, verts, log = build_mesh_cp(prog, body, name)
            if name == "Box":
                # a second, generic box: orientation, closedness and unit normals must not depend on the corner values
                lo_, hi_ = (-1.0, -2.5, -3.0), (2.0, 5.0, 7.5)
                f2, v2, _l2 = build_mesh_cp(prog, body, name, box=(lo_, hi_))
                mesh_rules(rep, "Box[generic corners]", f2, v2, body.where(), cfg)
                # extents ("vertices lie on the intended surface"): every vertex is a corner of the box it was asked for, all eight corners
                # occur, and a vertex sits on the side of the box its normal points out of (three different extents: a mixed-up axis shows)
                off = [(i, v[0]) for i, v in enumerate(v2) if any(min(abs(v[0][k] - lo_[k]), abs(v[0][k] - hi_[k])) > 1e-5 for k in range(3))]
                corners = {tuple(round(x, 4) for x in v[0]) for v in v2}
                side = []
                for i, v in enumerate(v2):
                    ax = max(range(3), key=lambda k: abs(v[1][k]))
                    want = hi_[ax] if v[1][ax] > 0 else lo_[ax]
                    if abs(v[0][ax] - want) > 1e-5:
                        side.append((i, ax))
                ok_ext = not off and len(corners) == 8 and not side
                rep.inst("C15.T2", "Box with corners %s / %s: every vertex is a corner of that box, all 8 corners occur, each vertex lies on the side its normal faces: %s"
                         % (lo_, hi_, ok_ext), config=cfg)
                if off:
                    rep.violate("C15.T2", "T2|Box|extents", body.where(), "Box %s..%s: vertex %d is at %s, which is not a corner of the box (%d such vertices)"
                                % (lo_, hi_, off[0][0], [round(x, 4) for x in off[0][1]], len(off)), config=cfg)
                elif len(corners) != 8 or side:
                    rep.violate("C15.T2", "T2|Box|extents", body.where(), "Box %s..%s: %d distinct corners occur (8 expected)%s" % (
                        lo_, hi_, len(corners), "; vertex %d does not lie on the side its normal faces (axis %d)" % side[0] if side else ""), config=cfg)
        except A.Panic as e:
            rep.violate("C15.T2", "T2|%s|panics" % name, body.where(), "%s::build() panics on its own tables (%s)" % (name, e), config=cfg)
            continue
        except (A.Undecided, teval.CannotEval, IndexError, KeyError, TypeError, ValueError) as e1:
            # the older two-loop recipe reconstruction as a second opinion
            try:
                faces, verts, log = build_mesh(prog, body, params)
            except (teval.CannotEval, IndexError, KeyError, TypeError) as e:
                raise common.Infra("C15.T2: %s::build could be folded neither by constant propagation (%s) nor by recipe reconstruction (%r); rule needs re-confirmation" % (name, str(e1)[:200], e))
        for l in log:
            rep.inst("C15.T2", "%s recipe: %s" % (name, l), config=cfg)
        mesh_rules(rep, name, faces, verts, body.where(), cfg)
        if name == "Dodecahedron":
            # pentagons: 5 consecutive vertices per face, planar, equal edges
            for i in range(0, len(verts), 5):
                ps = [v[0] for v in verts[i:i + 5]]
                if len(ps) < 5:
                    break
                nrm = cross(sub(ps[1], ps[0]), sub(ps[2], ps[0]))
                nl = math.sqrt(dot(nrm, nrm))
                planar = all(abs(dot(nrm, sub(p, ps[0]))) / nl < 1e-4 for p in ps)
                el = [math.sqrt(dot(sub(ps[(k + 1) % 5], ps[k]), sub(ps[(k + 1) % 5], ps[k]))) for k in range(5)]
                if not planar or max(el) - min(el) > 1e-3:
                    rep.violate("C15.T2", "T2|Dodecahedron|pentagon", body.where(),
                                "Dodecahedron: pentagon %d is not a planar regular pentagon in boundary order (planar=%s, edge lengths %s)"
                                % (i // 5, planar, [round(x, 4) for x in el]), config=cfg)
                    break
        # Box: the rule above used the unit box; any box with lbn < rtf componentwise is an
        # orientation-preserving axis scaling of it (positions are lerps of the corners by COORDS).


def lathe_fold_rules(rep, prog):
    """T3: the lathe family folded on concrete parameters (sa/constfold.py; sin / cos are the host's): cones with every combination of a zero
    and a non-zero end radius, capped and not; cylinder, sphere, torus, capsule; a bare Lathe over partial azimuth ranges with a non-zero
    start. Each mesh must build (no panic: indices valid), have unit vertex normals on the side of the geometric normal of every
    non-degenerate face using them, no directed edge twice, lie on the intended surface, and - the closed solids - be watertight with the
    right Euler characteristic and outward winding. These are the input shapes a recipe-level rule does not see: a skipped cap, a
    partial sweep, an on-axis end point."""
    from . import constfold as CF, absint as A
    import math as _m
    cfg = prog.config
    L = "retrofire_geom::solids::lathe::"
    PT, VEC, VTX, ANG = "retrofire_core::math::point::Point", "retrofire_core::math::vec::Vector", "retrofire_core::geom::Vertex", "retrofire_core::math::angle::Angle"
    PH = ("adt", "core::marker::PhantomData", "PhantomData", [])
    fv = lambda x: ("f", float(x))     # noqa: E731

    def val(name, **kw):
        fields = prog.adts[L + name]["variants"][0]["fields"]
        missing = [f for f in fields if f not in kw]
        if missing:
            raise common.Infra("C15.T3: %s has fields the rule has no sample value for (%s)" % (name, missing))
        return ("adt", L + name, name, [kw[f] for f in fields])

    def pvert(x, y, nx, ny):
        return ("adt", VTX, "Vertex", [("adt", PT, "Point", [("array", [fv(x), fv(y)]), PH]), ("adt", VEC, "Vector", [("array", [fv(nx), fv(ny)]), PH])])

    def ang(turns_):
        return ("adt", ANG, "Angle", [fv(turns_ * 2 * _m.pi)])

    def rng(a, b):
        return ("adt", "core::ops::range::Range", "Range", [ang(a), ang(b)])
    s2 = _m.sqrt(0.5)
    cases = []
    for br, ar in ((1.0, 0.5), (0.0, 0.5), (0.5, 0.0), (1.0, 1.0)):
        for capped in (1, 0):
            on = (lambda br, ar: (lambda r, y: abs(r - (br + (ar - br) * (y + 1) / 2)) < 1e-4 or (abs(abs(y) - 1) < 1e-5 and r <= max(br, ar) + 1e-4)))(br, ar)
            cases.append(("Cone(base %g, apex %g, %s)" % (br, ar, "capped" if capped else "open"), "Cone",
                          dict(sectors=4, segments=2, capped=capped, base_radius=fv(br), apex_radius=fv(ar)), bool(capped), 2, on, True))
    cases.append(("Cylinder(capped)", "Cylinder", dict(sectors=3, segments=1, capped=1, radius=fv(1.5)), True, 2, lambda r, y: abs(r - 1.5) < 1e-4 or abs(abs(y) - 1) < 1e-5, True))
    cases.append(("Sphere", "Sphere", dict(sectors=4, segments=3, radius=fv(2.0)), True, 2, lambda r, y: abs(r * r + y * y - 4.0) < 1e-3, True))
    cases.append(("Torus", "Torus", dict(major_radius=fv(2.0), minor_radius=fv(0.5), major_sectors=4, minor_sectors=3), True, 0,
                  lambda r, y: abs((r - 2.0) ** 2 + y * y - 0.25) < 1e-3, False))
    cases.append(("Capsule", "Capsule", dict(sectors=4, body_segments=2, cap_segments=2, radius=fv(1.0)), True, 2,
                  lambda r, y: (abs(y) <= 1 + 1e-5 and abs(r - 1.0) < 1e-4) or abs(r * r + (abs(y) - 1) ** 2 - 1.0) < 1e-3, True))
    prof = ("array", [pvert(1.0, -1.0, s2, -s2), pvert(1.5, 0.0, 1.0, 0.0), pvert(0.5, 1.0, s2, s2)])
    on_prof = lambda r, y: any(abs(r - pr) < 1e-4 and abs(y - py) < 1e-5 for pr, py in ((1.0, -1.0), (1.5, 0.0), (0.5, 1.0)))      # noqa: E731
    for a_, b_ in ((0.25, 0.75), (0.125, 0.5), (0.0, 1.0)):
        cases.append(("Lathe(%g..%g turns)" % (a_, b_), "Lathe", dict(points=A.copy_val(prof), sectors=4, capped=0, az_range=rng(a_, b_)), False, None, on_prof, False))
    mesh = (prog.adts.get("retrofire_core::geom::mesh::Mesh") or {}).get("variants") or [{}]
    mf = mesh[0].get("fields") or []
    vf = ((prog.adts.get(VTX) or {}).get("variants") or [{}])[0].get("fields") or []
    n_ok = 0
    for label, name, kw, closed, euler, on_surface, cw in cases:
        body = prog.body(L + name + "::build")
        it = CF.interp(prog)
        try:
            r = A.deref_all(it, it.call_body(body, [val(name, **kw)]))
        except A.Panic as e:
            rep.violate("C15.T3", "T3|%s|panics" % name, body.where(), "%s: build() panics (%s) - a face index outside the vertex list, or an arithmetic failure, for valid parameters"
                        % (label, str(e)[:120]), config=cfg)
            continue
        except (A.Undecided, IndexError, KeyError, TypeError, ValueError) as e:
            raise common.Infra("C15.T3: %s could not be folded (%s)" % (label, str(e)[:200]))
        if not (isinstance(r, tuple) and r[0] == "adt" and r[2] == "Mesh"):
            raise common.Infra("C15.T3: %s did not fold to a Mesh (%s)" % (label, str(r)[:80]))
        fs, vs = A.deref_all(it, r[3][mf.index("faces")]), A.deref_all(it, r[3][mf.index("verts")])
        try:
            faces = [tuple(int(x) for x in CF.floats_of(it, f)) for f in fs[1]]
            verts = []
            for v in vs[1]:
                v = A.deref_all(it, v)
                verts.append((CF.floats_of(it, v[3][vf.index("pos")]), CF.floats_of(it, v[3][vf.index("attrib")])))
        except (TypeError, ValueError, IndexError) as e:
            raise common.Infra("C15.T3: the mesh of %s is not constant (%s)" % (label, e))
        ok = mesh_rules(rep, label, faces, verts, body.where(), cfg, expect_euler=euler if euler is not None else 2, closed=closed, centroid_winding=cw)
        off = [(i, v[0]) for i, v in enumerate(verts) if not on_surface(_m.hypot(v[0][0], v[0][2]), v[0][1])]
        if off:
            ok = False
            rep.violate("C15.T3", "T3|%s|surface" % name, body.where(), "%s: vertex %d at %s (radius %.4f) does not lie on the intended surface (%d such vertices)"
                        % (label, off[0][0], [round(x, 4) for x in off[0][1]], _m.hypot(off[0][1][0], off[0][1][2]), len(off)), config=cfg)
        n_ok += bool(ok)
    rep.inst("C15.T3", "lathe family folded on %d concrete parameter sets (zero / non-zero end radii, capped / open, partial azimuth ranges): builds, valid indices, "
                       "unit normals on the face side, on the surface, closed solids watertight: %d pass" % (len(cases), n_ok), config=cfg)


# ---------------------------------------------------------------- D6 / D7

UNIT_LITERALS = None


def is_unit_term(prog, t, depth=0, assume=()):
    """UNIT abstract class over provenance terms."""
    if depth > 12:
        return False
    t0 = t
    while t[0] in ("ref", "deref"):
        t = t[1]
    if t[0] == "phi":
        # inductive: the loop-carried value is UNIT if its initial value is and the step preserves UNIT
        return bool(t[2]) and all(is_unit_term(prog, x, depth + 1, assume + (t[1],)) for x in t[2] if x != ("local", t[1]))
    if t[0] == "local":
        return t[1] in assume
    if t[0] == "call":
        last = t[1].split(" => ")[0]
        if last.endswith("::normalize"):
            return True
        if last.endswith("ops::arith::Neg::neg"):
            return is_unit_term(prog, t[2][0], depth + 1, assume)
        if last.endswith("vec::vec3") or last.endswith("vec::vec2"):
            try:
                vals = [float(a[2]) for a in t[2] if a[0] == "const"]
            except (TypeError, ValueError):
                return False
            return len(vals) == len(t[2]) and abs(math.sqrt(sum(x * x for x in vals)) - 1) < 1e-6
        if "Matrix" in last and (last.endswith("::apply")):
            m = t[2][0]
            while m[0] in ("ref", "deref"):
                m = m[1]
            rot = m[0] == "call" and any(m[1].split(" => ")[0].endswith(x) for x in ("mat::rotate_x", "mat::rotate_y", "mat::rotate_z"))
            return rot and is_unit_term(prog, t[2][1], depth + 1, assume)
        if last.endswith("Clone::clone") or last.endswith("::to"):
            return is_unit_term(prog, t[2][0], depth + 1, assume)
        return False
    if t[0] == "index":
        base = t[1]
        while base[0] in ("ref", "deref"):
            base = base[1]
        if base[0] == "const" and isinstance(base[2], str) and base[2].startswith("item:"):
            tab = prog.consts.get(base[2][5:])
            if tab:
                try:
                    return all(abs(teval.norm(teval.vec_of(v)) - 1) < 1e-5 for v in tab["value"])
                except teval.CannotEval:
                    return False
        if base[0] == "call" and base[1].split(" => ")[0].endswith("array::<impl [T; N]>::map"):
            # table mapped through a closure: decided by T2 on the reconstructed mesh instead
            return None
        return False
    return False


def unit_in_context(prog, body, t, depth=0):
    """is_unit_term, continued across a closure capture or a parameter of a private helper:
    a captured value is looked up where the closure is built; a parameter of a non-pub function
    is UNIT when every call site in the program passes a UNIT value (at least one site)."""
    u = is_unit_term(prog, t)
    if u is not False or depth > 4:
        return u
    core = T.strip(t, refs=True)
    while core[0] == "call" and core[1].split(" => ")[0].endswith(("Clone::clone", "::to")):
        core = T.strip(core[2][0], refs=True)
    if core[0] == "upvar":
        from .render_common import capture_terms
        sl = T.Slicer(body)
        parent = prog.bodies.get(body.parent)
        caps = capture_terms(prog, body) if parent is not None else {}
        for idx, (n, _r) in sl.upvars().items():
            if n == core[1] and idx in caps:
                return unit_in_context(prog, parent, caps[idx], depth + 1)
        return False
    if core[0] == "param" and not body.is_pub and body.kind in ("Fn", "AssocFn"):
        k = core[1]
        sites = []
        for cb in prog.bodies.values():
            for bi, ct in cb.calls(lambda c: prog.lookup(c["path"]) is body):
                sites.append((cb, ct))
        if not sites:
            return False
        for cb, ct in sites:
            if k - 1 >= len(ct["args"]):
                return False
            if unit_in_context(prog, cb, T.Slicer(cb).operand(ct["args"][k - 1]), depth + 1) is not True:
                return False
        return True
    return False


def normal_rules(rep, prog):
    cfg = prog.config
    sites = 0
    for b in sorted(prog.bodies.values(), key=lambda b: b.path):
        if not b.path.startswith("retrofire_geom::solids::"):
            continue
        sl = T.Slicer(b)
        t2_decides = any(b.path.startswith(PLAT + n + "::build") for n in PLATONIC)
        cands = []
        for bi, t in b.calls(lambda c: facts.callee_matches(c, "mesh::Builder::<A>::push_vert", "retrofire_core::geom::vertex")):
            if "push_verts" in t["callee"]["path"]:
                # the items are (position, normal) pairs produced by closures of the iterator chain handed over
                src = sl.operand(t["args"][1])
                seen_c = set()

                def closures_in(x, acc):
                    if isinstance(x, tuple):
                        if x and x[0] == "agg" and isinstance(x[1], str) and x[1].startswith("closure:"):
                            acc.append(x[1][8:])
                        for y in x:
                            closures_in(y, acc)
                work = []
                closures_in(src, work)
                found = False
                while work:
                    cp = work.pop()
                    if cp in seen_c or cp not in prog.bodies:
                        continue
                    seen_c.add(cp)
                    cb = prog.bodies[cp]
                    csl = T.Slicer(cb)
                    rt = T.strip(csl.local(0), refs=True)
                    if rt[0] == "agg" and rt[1] == "tuple" and len(rt[2]) == 2:
                        cands.append((cb, csl, 0, rt[2][1]))
                        found = True
                    closures_in(rt, work)
                    for _cbi, ct in cb.calls(lambda c: True):
                        for a in ct["args"]:
                            closures_in(csl.operand(a), work)
                if not found:
                    cands.append((b, sl, bi, ("unknown-item", T.show(src)[:80])))
                continue
            cands.append((b, sl, bi, ("site", t)))
        for cb_, csl_, bi, what in cands:
            if what[0] == "site":
                t = what[1]
                is_pv = "push_vert" in t["callee"]["path"]
                nt = csl_.operand(t["args"][2 if is_pv else 1])
            else:
                is_pv, t, nt = True, None, what
            if not is_pv:
                # only vertex(_, n) with a 3-D normal that ends up in a mesh: restrict to calls
                # whose attribute type is a 3-vector (Normal3)
                ga = " ".join(t["callee"].get("args", []))
                if "[f32; 3]" not in ga.split(",")[-1] and "Real<3" not in ga:
                    continue
                if "Real<2" in ga.split("Vector")[-1]:
                    continue
            sites += 1
            u = unit_in_context(prog, cb_, nt) if nt[0] != "unknown-item" else False
            if u is False and t2_decides:
                u = None    # an input-free platonic recipe: T2 measures every normal of the folded mesh
            rep.inst("C15.D6", "%s at %s: normal %s has UNIT provenance: %s" % (cb_.path.split("solids::")[1], cb_.where(bi, None), T.show(nt)[:140], u if u is not None else "decided by T2"), config=cfg)
            if u is False:
                rep.violate("C15.D6", "D6|%s" % cb_.path, cb_.where(bi, None),
                            "vertex normal %s is neither normalised, a unit literal/table entry, nor a rotation of one" % T.show(nt)[:200], config=cfg)
    rep.floor("C15.D6.sites", sites, 7, "normal-carrying vertex constructions in geom::solids")


def build_rules(rep, prog):
    cfg = prog.config
    builds = [b for b in prog.bodies.values() if b.path.startswith("retrofire_geom::solids::") and b.path.endswith("::build") and b.kind == "AssocFn"]
    rep.floor("C15.D7.builds", len(builds), 11, "build() functions under geom::solids")
    for b in sorted(builds, key=lambda b: b.path):
        rets = G.return_blocks(b)
        vals = [bi for bi, t in b.calls(lambda c: facts.callee_matches(c, "mesh::Builder::<A>::build", "mesh::Mesh::<A, B>::new"))
                ] + [bi for bi, t in b.calls(lambda c: c["path"].startswith("retrofire_geom::solids::") and c["path"].endswith("::build"))]
        sl = T.Slicer(b)
        # every path to a return passes one of the validating calls (several of them when build() has an early exit of its own)
        ok = bool(vals) and not (set(rets) & b.reachable(0, removed_blocks=set(vals), unwind=False))
        # the returned value IS the validated mesh (on every path)
        rt = sl.local(0)
        alts = list(rt[2]) if rt[0] == "phi" else [rt]
        ok_val = bool(alts) and all(a_[0] == "call" and (a_[1].split(" => ")[0].endswith("::build") or "Mesh::<A, B>::new" in a_[1]) for a_ in alts)
        rep.inst("C15.D7", "%s returns through mesh validation: %s / returns its result: %s" % (b.path.split("solids::")[1], ok, ok_val), config=cfg)
        if not (ok and ok_val):
            rep.violate("C15.D7", "D7|%s" % b.path, b.where(), "%s can return a mesh that did not pass Builder::build / Mesh::new validation" % b.path.split("solids::")[1], config=cfg)


def lathe_rules(rep, prog):
    cfg = prog.config
    # helpers of the same module (a push_cap(.., flip) say) are inlined; arms made dead by a literal flag are not sites
    b = prog.inlined(prog.body(LATHE + "Lathe::build"), depth=2, pred=lambda cb: cb.path.startswith(LATHE))
    sl = T.Slicer(b)
    live = set(b.reachable(0))
    loops = loops_of(b, sl)

    def pdiff(a, c):
        return P.padd(a, {m: -v for m, v in c.items()})
    # Face index triples, wherever they are written: the arguments of push_face(a, b, c), or the [a, b, c] arrays a closure of the family
    # returns on their way into push_faces (singly, or several per item as in `flat_map(|i| [[p, s, q], [p, r, s]])`). Faces are grouped
    # by where they are produced: the innermost loop around a push_face call, or the closure. A quad strip is a group of two triangles,
    # a cap fan a group of one.
    groups = {}

    def add_face(gid, terms, where):
        ps = [P.poly(T.strip(x, sites=True, refs=True), []) for x in terms]
        groups.setdefault(gid, []).append((where, ps))
    for bi, t in b.calls(lambda c: facts.callee_matches(c, "mesh::Builder::<A>::push_face")):
        if bi not in live or "push_faces" in t["callee"]["path"]:
            continue
        inner = [h for h, _s in loops if in_loop(b, h, bi)]
        inner.sort(key=lambda h: len(b.natural_loop(h)))
        add_face(("loop", inner[0] if inner else None), [sl.operand(a_) for a_ in t["args"][1:4]], bi)
    for cb_ in prog.family(b.path):
        if cb_.kind != "Closure" and "{closure" not in cb_.path:
            continue
        csl = T.Slicer(cb_)
        rt = T.strip(csl.local(0), sites=True, refs=True)

        def triples(q):
            if q[0] == "agg" and q[1] == "array" and len(q[2]) == 3 and all(not (x[0] == "agg") for x in q[2]):
                return [q[2]]
            if q[0] == "agg" and q[1] == "array" and q[2] and all(x[0] == "agg" and x[1] == "array" for x in q[2]):
                out = []
                for x in q[2]:
                    out += triples(x)
                return out
            return []
        tr_ = triples(rt)
        # only integer index triples count (a closure building [x, y, z] coordinates does not)
        if tr_ and "usize" in str(cb_.locals[0]):
            for terms in tr_:
                add_face(("closure", cb_.path), terms, None)
    n_faces = sum(len(v) for v in groups.values())
    rep.floor("C15.L1.push_face", n_faces, 4, "face index triples in Lathe::build (2 strip + 2 cap)")
    strip = [(w, ps) for g, fs in groups.items() if len(fs) == 2 for w, ps in fs]
    caps = [(w, ps) for g, fs in groups.items() if len(fs) == 1 for w, ps in fs]
    ok_strip = False
    if len(strip) == 2:
        (b1, f1), (b2, f2) = strip
        corners = []
        for x in f1 + f2:
            if x not in corners:
                corners.append(x)
        if len(corners) == 4:
            base = None
            # find p such that others are p+1, p+n, p+n+1 for some polynomial n
            for p in corners:
                others = [pdiff(c, p) for c in corners if c != p]
                one = {(): 1}
                if one in others:
                    rest = [o for o in others if o != one]
                    if len(rest) == 2 and (pdiff(rest[0], rest[1]) in (one, {(): -1})):
                        base = p
                        n_poly = rest[0] if pdiff(rest[1], rest[0]) == one else rest[1]
            if base is not None:
                # shared diagonal in opposite directions
                def dedges(f):
                    return [(repr(sorted(f[i].items())), repr(sorted(f[(i + 1) % 3].items()))) for i in range(3)]
                e1, e2 = dedges(f1), dedges(f2)
                shared = [e for e in e1 if (e[1], e[0]) in e2]
                same_dir = [e for e in e1 if e in e2]
                ok_strip = len(shared) == 1 and not same_dir
                rep.inst("C15.L1", "lathe quad: corners p, p+1, p+n, p+n+1 (n = %s); triangles share exactly one edge in opposite directions: %s" % (n_poly, ok_strip), config=cfg)
    # every iteration of the innermost strip loop emits BOTH triangles: a quad whose triangle is skipped on some
    # data-dependent condition (a "degenerate" test with an absolute tolerance, say) leaves a hole in small solids
    for bi, _ps in strip:
        if bi is None:
            continue            # produced by a closure's return value: every item yields both triangles by construction
        inner = [h for h, _s in loops if in_loop(b, h, bi)]
        inner.sort(key=lambda h: len(b.natural_loop(h)))
        if inner:
            h = inner[0]
            outside = set(range(len(b.blocks))) - set(b.natural_loop(h)) - {h}
            skip = h in b.reachable_from_succs(h, removed_blocks={bi} | outside, unwind=False)
            rep.inst("C15.L1", "strip push_face at %s runs on every iteration of its loop: %s" % (b.where(bi, None), not skip), config=cfg)
            if skip:
                rep.violate("C15.L1", "L1|strip-conditional", b.where(bi, None),
                            "a lathe strip triangle is emitted only conditionally: an iteration of the sector loop can complete without this push_face, "
                            "so some quads lose a triangle and the surface is not closed", config=cfg)
    if not ok_strip:
        rep.violate("C15.L1", "L1|strip", b.where(), "the two triangles of a lathe quad do not tile the quad p,p+1,p+n,p+n+1 with a consistently oriented shared diagonal", config=cfg)
    ok_caps = False
    if len(caps) == 2:
        (c1, g1), (c2, g2) = caps
        # normalise each fan relative to its own apex: (0, a, b)
        def rel(g):
            return [pdiff(x, g[0]) for x in g]
        r1, r2 = rel(g1), rel(g2)
        # strip loop symbols to compare shapes: fans must be (l, l+i, l+i+1) and (l, l+i+1, l+i)
        def shape(r):
            d = pdiff(r[2], r[1])
            return d
        s1, s2 = shape(r1), shape(r2)
        ok_caps = s1 in ({(): 1}, {(): -1}) and s2 in ({(): 1}, {(): -1}) and s1 != s2
        rep.inst("C15.L1", "lathe caps: two fans wound oppositely (step %s vs %s): %s" % (s1, s2, ok_caps), config=cfg)
    if not ok_caps:
        rep.violate("C15.L1", "L1|caps", b.where(), "bottom and top cap fans are not wound oppositely", config=cfg)
    # parameter asserts
    for path, what, pred in (
            (LATHE + "Lathe::new", "sectors >= 3", lambda d: d[0] == "bin" and d[1] in ("Ge", "Gt", "Lt", "Le") and T.contains(d, lambda s: s == ("param", 2))),
            (LATHE + "Cone::build", "segments > 0", lambda d: d[0] == "bin" and T.contains(d, lambda s: s[0] == "field" and s[2] == "Cone.segments")),
            (LATHE + "Capsule::build", "body/cap segments > 0", lambda d: d[0] == "bin" and T.contains(d, lambda s: s[0] == "field" and s[2] in ("Capsule.body_segments", "Capsule.cap_segments")))):
        fb = prog.body(path)
        fsl = T.Slicer(fb)
        edges = G.bool_edges(fb, fsl, pred)
        # the panic side must not reach the normal return; the pass side dominates returns
        rets = G.return_blocks(fb)
        ok = bool(edges)
        for bi, tr, fa in edges:
            ok_side = False
            for side in (tr, fa):
                if side and all(G.guarded_by(fb, r, side) for r in rets):
                    ok_side = True
            ok = ok and ok_side
        rep.inst("C15.D7", "%s: parameter assert (%s) guards every return: %s" % (path.split("lathe::")[1], what, ok), config=cfg)
        if not ok:
            rep.violate("C15.D7", "D7|assert|%s" % path, fb.where(), "%s no longer rejects invalid parameters (%s) before building" % (path.split("lathe::")[1], what), config=cfg)


REORDER = ("reverse", "rev", "sort", "sort_by", "sort_by_key", "sort_unstable", "sort_unstable_by", "sort_unstable_by_key", "sort_by_cached_key",
           "swap", "rotate_left", "rotate_right", "retain", "dedup", "dedup_by", "dedup_by_key", "truncate", "remove", "insert", "drain",
           "split_off", "pop", "swap_remove", "push", "extend", "clear")


def profile_rules(rep, prog):
    """L3: Lathe::build consumes the profile polyline exactly as given. The winding of every strip and both caps is fixed
    relative to the ORDER of the profile points (bottom to top for the closed solids), so any reordering or editing of
    `points` inside build() turns some solid inside-out; callers own the order.
    L2: the cone's profile normal is perpendicular to its slant edge and leans outward, for every pair of radii."""
    from . import symalg as S, absint as A
    from fractions import Fraction
    cfg = prog.config
    b = prog.body(LATHE + "Lathe::build")
    n = 0
    for fb in prog.family(b.path):
        sl = T.Slicer(fb)
        for bi, t in fb.calls():
            c = t.get("callee") or {}
            last = c.get("path", "").rsplit("::", 1)[-1]
            if not t["args"]:
                continue
            recv = T.strip(sl.operand(t["args"][0]), sites=True, refs=True)
            if not T.contains(recv, lambda q: q[0] == "field" and q[2] == "Lathe.points"):
                continue
            n += 1

            def is_profile(q, depth=0):
                """the profile sequence itself (or a view / iterator / copy of it) - not merely something computed from it, such as a
                vector pre-sized by points.len()"""
                q = T.strip(q, sites=True, refs=True)
                if q[0] == "field" and q[2] == "Lathe.points":
                    return True
                if q[0] == "phi":
                    return any(is_profile(x, depth + 1) for x in q[2]) if depth < 6 else False
                if q[0] == "call" and q[2] and depth < 8:
                    nm = q[1].split(" => ")[0].rsplit("::", 1)[-1]
                    if nm in ("iter", "iter_mut", "into_iter", "deref", "deref_mut", "as_slice", "as_mut_slice", "index", "index_mut", "by_ref", "borrow",
                              "borrow_mut", "as_ref", "as_mut", "to_vec", "clone", "cloned", "copied", "to_owned", "enumerate", "peekable", "skip", "take",
                              "zip", "chain", "windows", "chunks") + REORDER:
                        return is_profile(q[2][0], depth + 1)
                return False
            bad = last in REORDER and is_profile(recv)
            rep.inst("C15.L3", "Lathe::build uses the profile through `%s` at %s: %s" % (last, fb.where(bi, None), "REORDERS/EDITS" if bad else "order kept"), config=cfg)
            if bad:
                rep.violate("C15.L3", "L3|%s" % last, fb.where(bi, None),
                            "Lathe::build applies `%s` to the profile points: strips and caps are wound relative to the given order, so a solid whose profile "
                            "triggers it (e.g. a closed loop whose end differs from its start by rounding noise) comes out inside-out" % last, config=cfg)
    rep.floor("C15.L3.%s" % cfg, n, 2, "uses of Lathe.points in Lathe::build")
    # ---- L2
    cb = prog.body(LATHE + "Cone::build")
    cone = prog.adt(LATHE + "Cone")
    fields = cone["variants"][0]["fields"]
    vals = {"sectors": S.sym("sectors"), "segments": S.sym("segments"), "capped": A.UNKNOWN, "base_radius": S.sym("rb"), "apex_radius": S.sym("ra")}
    me = ("adt", LATHE + "Cone", cone["variants"][0]["name"], [vals.get(f, A.UNKNOWN) for f in fields])

    class Stop(Exception):
        pass
    got = {}

    def m_map(it, args, callee, depth):
        clo = A.deref_all(it, args[1])
        if isinstance(clo, tuple) and clo[0] == "closure":
            got["ups"] = [A.deref_all(it, u) for u in clo[2]]
        raise Stop()

    def m_abs(it, args, callee, depth):
        return ("symop", "abs", A.deref_all(it, args[0]), None)
    it = S.interp(prog, models={"core::iter::traits::iterator::Iterator::map": m_map, "f32>::abs": m_abs}, oracle=lambda op, a_, b_: True if op in ("Gt", "Ne") else None)
    try:
        it.call_body(cb, [me])
        raise common.Infra("C15.L2: Cone::build no longer maps its profile points through a closure capturing the normal")
    except Stop:
        pass
    except (A.Undecided, A.Panic) as e:
        raise common.Infra("C15.L2: Cone::build could not be evaluated symbolically (%s)" % e)
    vecs = [u for u in got.get("ups", []) if isinstance(u, tuple) and u[0] == "adt" and u[1].endswith("vec::Vector")]
    if len(vecs) != 1:
        raise common.Infra("C15.L2: the closure building the cone's profile vertices does not capture exactly one normal vector")
    nx, ny = S.components(it, vecs[0])
    # slant edge d = apex - base = (ra - rb, 2)
    dotv = ("symop", "Add", ("symop", "Mul", nx, ("symop", "Sub", S.sym("ra"), S.sym("rb"))), ("symop", "Mul", ny, ("f", 2.0)))
    ok = None
    try:
        ok = S.to_poly(dotv) == {}
        opaque = any(sy.startswith("?") for mono in S.to_poly(dotv) for sy in mono)
    except S.NotPolynomial:
        ok, opaque = False, True
    wit = None
    if not ok:
        for rb, ra in ((1.0, 0.0), (1.0, 1.0), (0.0, 1.0), (0.5, 3.0), (3.0, 0.5), (1.0, 4.0)):
            try:
                v = S.num_eval(dotv, {"ra": ra, "rb": rb, "sectors": 8.0, "segments": 2.0})
                vx = S.num_eval(nx, {"ra": ra, "rb": rb})
            except S.NotNumeric as e:
                raise common.Infra("C15.L2: the cone normal has a form the rule cannot evaluate (%s)" % e)
            if abs(v) > 1e-6 or vx <= 0:
                wit = (rb, ra, v, vx)
                break
        if wit is None and opaque:
            ok = True          # differs only formally (opaque function), equal at every probe: accept with a note
            rep.notes.append("C15.L2: perpendicularity holds at the probe radii but not as a formal identity (opaque function in the normal)")
        elif wit is None:
            raise common.Infra("C15.L2: the cone normal is not formally perpendicular to the slant edge and no witness radii were found")
    rep.inst("C15.L2", "Cone::build profile normal n = (%s, %s): n.(apex - base) = 0 for all radii: %s" % (S.fmt_trace([("Eq", nx, ny, True)])[3:-1], "", "holds" if ok else "FAILS"), config=cfg)
    if not ok:
        rep.violate("C15.L2", "L2|cone-normal", cb.where(),
                    "Cone::build: the profile normal is not perpendicular to the slant edge (or does not lean outward) for base radius %s, apex radius %s: "
                    "n.(apex - base) = %.3g, n.x = %.3g" % wit, config=cfg)


def check_config(rep, prog):
    for g in (platonic_rules, lathe_fold_rules, normal_rules, build_rules, lathe_rules, profile_rules):
        rep.guard(g, rep, prog)


def check(rep, args):
    configs = ["ws"] if rep.tier == "quick" else ["ws", "std"]
    rep.configs = configs
    for cfg in configs:
        check_config(rep, facts.program(cfg))
    cov = {
        "explanation": "mesh recipes of the five table-driven builders reconstructed from provenance terms over rustc-evaluated tables and "
                       "checked as 2-manifolds with outward winding and unit normals; unit-normal provenance, validation-before-return and "
                       "strip/cap index-polynomial rules for the lathe family",
        "evaluations": len(rep.instances),
        "distinct_nontrivial": len({i["what"] for i in rep.instances}),
        "rules": ["T2", "T3", "D6", "D7", "L1", "L2", "L3"],
    }
    return "other", cov, ["lathe topology for every sector count, seam/pole handling and radii are not decided",
                          "Lerp::lerp(a,b,t) = a + t(b-a); normalize/to_pt/Neg have their documented meaning",
                          "geom only builds with an fp feature, so it is analysed under ws and std"]
