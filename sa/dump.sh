#!/bin/bash
# dump.sh <config> <outdir>  — run factdump over /repo's working tree for one
# feature configuration; writes <outdir>/<crate>.json. Fails closed (exit 2).
set -u
CFG="$1"; OUT="$2"
REPO="${VERIF_REPO:-/repo}"
DRV=/verif/factdump/target/release/factdump
[ -x "$DRV" ] || { echo "factdump driver not built (run setup_cmd)" >&2; exit 2; }
# "<cfg>-rel": the same feature set compiled as a release build would be (no debug assertions)
PROFILE_FLAGS=""
case "$CFG" in *-rel) CFG="${CFG%-rel}"; PROFILE_FLAGS="-C debug-assertions=off" ;; esac
case "$CFG" in
  ws)   FLAGS="-p retrofire-core -p retrofire-geom -F retrofire-core/std,retrofire-core/mm,retrofire-geom/std" ;;
  std)  FLAGS="-p retrofire-core -p retrofire-geom -F retrofire-core/std,retrofire-geom/std" ;;
  libm) FLAGS="-p retrofire-core -F retrofire-core/libm" ;;
  mm)   FLAGS="-p retrofire-core -F retrofire-core/mm" ;;
  none) FLAGS="-p retrofire-core" ;;
  *) echo "unknown config $CFG" >&2; exit 2 ;;
esac
TGT=$(mktemp -d /tmp/factdump-tgt.XXXXXX)
RAW=$(mktemp -d /tmp/factdump-raw.XXXXXX)
trap 'rm -rf "$TGT" "$RAW"' EXIT
mkdir -p "$OUT"
SYSROOT=$(rustc +nightly --print sysroot)
( cd "$REPO" && \
  LD_LIBRARY_PATH="$SYSROOT/lib" \
  RUSTFLAGS="-Zmir-opt-level=0 -Awarnings $PROFILE_FLAGS" \
  RUSTC_WORKSPACE_WRAPPER="$DRV" \
  FACTDUMP_OUT="$RAW" \
  CARGO_NET_OFFLINE=true \
  CARGO_TARGET_DIR="$TGT" \
  cargo +nightly check --offline -q $FLAGS ) > "$OUT/cargo.log" 2>&1
RC=$?
if [ $RC -ne 0 ]; then echo "cargo check failed for config $CFG (see $OUT/cargo.log)" >&2; tail -20 "$OUT/cargo.log" >&2; exit 2; fi
for f in "$RAW"/*.json; do
  [ -e "$f" ] || { echo "no fact files produced for config $CFG" >&2; exit 2; }
  b=$(basename "$f"); c=${b%-*}
  mv "$f" "$OUT/$c.json"
done
if [ "$CFG" = ws ] || [ "$CFG" = std ]; then
  [ -s "$OUT/retrofire_geom.json" ] || { echo "missing geom facts" >&2; exit 2; }
fi
[ -s "$OUT/retrofire_core.json" ] || { echo "missing core facts" >&2; exit 2; }
# keep rmeta for witness compilation if asked
if [ -n "${FACTDUMP_KEEP_DEPS:-}" ]; then
  mkdir -p "$FACTDUMP_KEEP_DEPS"; cp "$TGT"/debug/deps/*.rmeta "$FACTDUMP_KEEP_DEPS"/ 2>/dev/null
fi
exit 0
